"""Glue between case families, the forked runner and the Check harness."""
import hashlib
import json

from . import runner


def _jsonable(x):
    import numpy as np
    if isinstance(x, dict):
        return {str(k): _jsonable(v) for k, v in x.items()}
    if isinstance(x, (list, tuple)):
        return [_jsonable(v) for v in x]
    if isinstance(x, np.ndarray):
        return x.tolist()
    if isinstance(x, (np.floating, np.integer)):
        return x.item()
    return x


def run_family(chk, name, cases, case_fn, site, rule, nontrivial=lambda case: True, sample_of=lambda case: case, timeout=600):
    """cases: list of dict(tag=..., features=..., ...).  case_fn(case) -> dict(status, fails=[...]).
    Failing cases are reported through chk.report_failure (known findings are attributed there)."""
    if not cases:
        return []
    results = runner.run_cases(case_fn, cases, timeout=timeout)
    distinct = set()
    n_eval = 0
    n_timeouts = []
    for case, r in zip(cases, results):
        st = r.get("status")
        if st == "timeout":
            # the case did not finish within its budget: undecided for this case (never a violation, never a checker crash)
            n_timeouts.append(str(case.get("tag")))
            continue
        if st == "crash":
            chk.errors.append(f"{name}: harness {st} on case {case.get('tag')}: {r.get('error', '')} {r.get('trace', '')[-600:]}")
            continue
        if st == "skipped":
            continue
        n_eval += 1
        if nontrivial(case):
            distinct.add(hashlib.sha256(json.dumps(sample_of(case), sort_keys=True, default=str).encode()).hexdigest())
        if st == "violated":
            for f in r.get("fails", [])[:2]:
                if f.get("clause") == "HARNESS":
                    chk.errors.append(f"{name}: harness error on case {case.get('tag')}: {f.get('observed')}")
                    continue
                rec = dict(site=site, clauses=[f.get("clause")], clause=f.get("clause"), var=f.get("var"),
                           observed=f.get("observed"), expected=f.get("expected"),
                           input=dict(case=sample_of(case), detail={k: v for k, v in f.items()
                                                                   if k not in ("clause", "observed", "expected")}),
                           rerun=dict(kind="case", module=case_fn.__module__ if case_fn.__module__ != "__main__" else
                                      "checks." + __import__("os").path.splitext(__import__("os").path.basename(__import__("sys").argv[0]))[0],
                                      function=case_fn.__name__, case=_jsonable(case)),
                           features=dict(dict(case.get("features", {}), **(f.get("features") or {})), tag=case.get("tag"), base=str(case.get("tag")).split("/")[0],
                                         **{k: case[k] for k in ("vec", "backend", "solver") if k in case}))
                chk.report_failure(rec)
    if n_timeouts:
        chk.notes.append(f"{name}: {len(n_timeouts)} case(s) exceeded the per-case budget of {timeout} s and are UNDECIDED (not counted as "
                         f"evaluated): {n_timeouts[:6]}")
        if len(n_timeouts) > max(3, len(cases) // 10):
            chk.errors.append(f"{name}: {len(n_timeouts)} of {len(cases)} cases timed out — the family decides too little to report `held`")
    chk.add_bounded(name, n_eval, len(distinct), rule, [sample_of(c) for c in cases[:2]])
    return results


def run_sequences(chk, name, cases, results, case_fn, site, group=3, limit=30, timeout=900, seed=0):
    """History independence of the property's own observable: cases that hold when run alone (status ok in `results`) are run
    again in groups of `group` inside ONE process, with the API's default cache clearing between calls (clear=True).  A failure
    of a case inside a sequence is therefore due to what ran before it in the same process."""
    import random
    # (Fortran cases stay out: a compiled extension module of the same name cannot be imported twice into one process)
    ok = [c for c, r in zip(cases, results) if r.get("status") == "ok" and c.get("kind") not in ("sequence",) and c.get("backend") != "fortran"]
    if len(ok) < 2:
        return []
    seqs = []
    rounds = 1 if getattr(chk, "tier", "quick") == "quick" else 3          # thorough: three different shufflings
    for rd in range(rounds):
        rnd = random.Random(1000 + seed + 7919 * rd)
        order = list(ok)
        rnd.shuffle(order)
        part = []
        for i in range(0, len(order) - 1, group):
            items = order[i:i + group]
            if len(items) < 2:
                items = order[-group:]
            part.append(dict(tag=f"seq{rd}/" + "+".join(str(x.get("tag")) for x in items), features=dict(sequence=True), kind="sequence", items=items))
        seqs += part[:limit]
    fn_mod, fn_name = case_fn.__module__, case_fn.__name__

    return run_family(chk, name, seqs, _SeqFn(case_fn), site,
                      rule=f"cases that hold when run alone, re-run in shuffled groups of {group} inside one process (API-default cache clearing "
                           f"between calls; at most {limit} groups): every case must still hold; distinct = groups",
                      sample_of=lambda c: dict(tag=c["tag"]), timeout=timeout)


class _SeqFn:
    """picklable wrapper: runs the items of a sequence case one after the other with the oracles in sequence mode"""
    def __init__(self, fn):
        self.fn = fn
        self.__module__ = fn.__module__
        self.__name__ = getattr(fn, "__name__", "case_fn")

    def __call__(self, c):
        if c.get("kind") != "sequence":
            return self.fn(c)
        from . import oracle
        oracle.SEQUENCE_MODE = True
        try:
            for j, sub in enumerate(c["items"]):
                r = self.fn(sub)
                oracle.end_of_sequence_item()
                if r.get("status") == "violated":
                    fails = r.get("fails", [])
                    for f in fails:
                        if f.get("clause") != "HARNESS":
                            f["clause"] = f"case #{j} ({sub.get('tag')}) of a sequence run in one process: " + str(f.get("clause"))
                    return dict(status="violated", fails=fails)
            return dict(status="ok")
        finally:
            oracle.SEQUENCE_MODE = False
