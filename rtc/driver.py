"""Glue between case families, the forked runner and the Check harness."""
import hashlib
import json

from . import runner


def _jsonable(x):
    import numpy as np
    if isinstance(x, dict):
        return {str(k): _jsonable(v) for k, v in x.items()}
    if isinstance(x, (list, tuple)):
        return [_jsonable(v) for v in x]
    if isinstance(x, np.ndarray):
        return x.tolist()
    if isinstance(x, (np.floating, np.integer)):
        return x.item()
    return x


def run_family(chk, name, cases, case_fn, site, rule, nontrivial=lambda case: True, sample_of=lambda case: case, timeout=600):
    """cases: list of dict(tag=..., features=..., ...).  case_fn(case) -> dict(status, fails=[...]).
    Failing cases are reported through chk.report_failure (known findings are attributed there)."""
    if not cases:
        return []
    results = runner.run_cases(case_fn, cases, timeout=timeout)
    distinct = set()
    n_eval = 0
    for case, r in zip(cases, results):
        st = r.get("status")
        if st in ("crash", "timeout"):
            chk.errors.append(f"{name}: harness {st} on case {case.get('tag')}: {r.get('error', '')} {r.get('trace', '')[-600:]}")
            continue
        if st == "skipped":
            continue
        n_eval += 1
        if nontrivial(case):
            distinct.add(hashlib.sha256(json.dumps(sample_of(case), sort_keys=True, default=str).encode()).hexdigest())
        if st == "violated":
            for f in r.get("fails", [])[:2]:
                if f.get("clause") == "HARNESS":
                    chk.errors.append(f"{name}: harness error on case {case.get('tag')}: {f.get('observed')}")
                    continue
                rec = dict(site=site, clauses=[f.get("clause")], clause=f.get("clause"), var=f.get("var"),
                           observed=f.get("observed"), expected=f.get("expected"),
                           input=dict(case=sample_of(case), detail={k: v for k, v in f.items()
                                                                   if k not in ("clause", "observed", "expected")}),
                           rerun=dict(kind="case", module=case_fn.__module__ if case_fn.__module__ != "__main__" else
                                      "checks." + __import__("os").path.splitext(__import__("os").path.basename(__import__("sys").argv[0]))[0],
                                      function=case_fn.__name__, case=_jsonable(case)),
                           features=dict(case.get("features", {}), tag=case.get("tag"), base=str(case.get("tag")).split("/")[0], **{k: case[k] for k in ("vec", "backend", "solver") if k in case}))
                chk.report_failure(rec)
    chk.add_bounded(name, n_eval, len(distinct), rule, [sample_of(c) for c in cases[:2]])
    return results
