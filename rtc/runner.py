"""Case runner: every case runs in its own forked child (no process-global cache can leak between cases) inside a
private scratch directory that is removed afterwards.  The parent imports pyrates ONCE from $VERIF_REPO."""
import multiprocessing as mp
import os
import shutil
import sys
import tempfile
import traceback
import warnings

HERE = os.path.dirname(os.path.dirname(os.path.abspath(__file__)))


def repo_root():
    return os.environ.get("VERIF_REPO", "/repo")


def import_repo():
    root = repo_root()
    if not sys.path or sys.path[0] != root:
        sys.path.insert(0, root)
    import pyrates
    f = os.path.realpath(pyrates.__file__)
    if not f.startswith(os.path.realpath(root) + os.sep):
        raise RuntimeError(f"pyrates imported from {f}, expected under {root}")
    return pyrates


def scratch_base():
    base = os.path.join(os.environ.get("TMPDIR", "/tmp"), f"verif-rtc-{os.getpid()}")
    os.makedirs(base, exist_ok=True)
    return base


class _CaseTimeout(BaseException):
    pass


def _child(payload):
    fn, case, base = payload[:3]
    limit = payload[3] if len(payload) > 3 else None
    d = tempfile.mkdtemp(dir=base)
    cwd = os.getcwd()
    os.chdir(d)
    sys.path.insert(1, d)
    try:
        warnings.simplefilter("ignore")
        import io
        import contextlib
        import signal
        if limit:
            # wall-clock budget of ONE case, enforced inside the child: a case that exceeds it is reported as `timeout`
            # (undecided, never a violation) and does not hold up the other cases
            def _alarm(signum, frame):
                raise _CaseTimeout()
            signal.signal(signal.SIGALRM, _alarm)
            signal.setitimer(signal.ITIMER_REAL, float(limit))
        buf = io.StringIO()
        try:
            with contextlib.redirect_stdout(buf):
                return fn(case)
        finally:
            if limit:
                signal.setitimer(signal.ITIMER_REAL, 0)
    except _CaseTimeout:
        return dict(status="timeout", error=f"case exceeded its budget of {limit} s")
    except Exception as exn:
        return dict(status="crash", error=f"{type(exn).__name__}: {exn}", trace=traceback.format_exc()[-1800:])
    finally:
        os.chdir(cwd)
        shutil.rmtree(d, ignore_errors=True)


def run_cases(fn, cases, procs=16, timeout=600):
    """fn(case) -> dict(status='ok'|'violated'|'skipped', ...).  Returns list aligned with cases.
    timeout: budget per case in seconds (enforced in the child by an interval timer; the parent waits longer as a backstop)."""
    import_repo()
    base = scratch_base()
    try:
        ctx = mp.get_context("fork")
        with ctx.Pool(processes=min(procs, max(1, len(cases))), maxtasksperchild=1) as pool:
            asyncs = [pool.apply_async(_child, ((fn, c, base, timeout),)) for c in cases]
            out = []
            for a, c in zip(asyncs, cases):
                try:
                    out.append(a.get(timeout=timeout * 3 + 120))
                except mp.TimeoutError:
                    out.append(dict(status="timeout"))
                except Exception as exn:
                    out.append(dict(status="crash", error=repr(exn)))
        return out
    finally:
        shutil.rmtree(base, ignore_errors=True)
