"""MDL — abstract model descriptions and their reference semantics (the spec functions of tier B).

An MDL value is plain JSON-able data:
  op    = {"name", "eqs": [[lhs, "de"|"alg", tree]], "vars": {name: [vtype, default]}}   vtype in
          "state" (variable(..)), "output" (output(..)), "input" (input(..)), "const"
  node  = {"ops": [opname, ...], "over": {"op/var": value}}
  model = {"ops": {name: op}, "nodes": {label: node}, "edges": [edge], "circuits": {label: model}}
  edge  = {"src": "node/op/var", "tgt": "node/op/var", "w": float, "d": None|float, "s": None|float}
Expression trees: ["num", v] ["var", name] ["+", a, b] ["-", a, b] ["*", a, b] ["/", a, b] ["neg", a]
                  ["pow", a, n] ["call", fname, a, ...]
The spec NEVER parses an equation string: trees are evaluated directly with numpy float64.
"""
import math

import numpy as np

FUNCS = {
    "sin": np.sin, "cos": np.cos, "tanh": np.tanh, "exp": np.exp, "sqrt": np.sqrt, "tan": np.tan,
    "sigmoid": lambda x: 1.0 / (1.0 + np.exp(-x)),
    "absv": np.abs, "log": np.log, "sinh": np.sinh, "cosh": np.cosh, "arctan": np.arctan,
    "maxi": np.maximum, "mini": np.minimum,
}


def N(v):
    return ["num", float(v)]


def V(n):
    return ["var", n]


def ev(tree, env):
    k = tree[0]
    if k == "num":
        return tree[1]
    if k == "var":
        n = tree[1]
        if n == "pi":
            return math.pi
        if n == "E":
            return math.e
        return env[n]
    if k == "neg":
        return -ev(tree[1], env)
    if k == "past":
        return env["__past__"](tree[1], tree[2])
    if k == "pow":
        return ev(tree[1], env) ** tree[2]
    if k == "call":
        return FUNCS[tree[1]](*[ev(a, env) for a in tree[2:]])
    a, b = ev(tree[1], env), ev(tree[2], env)
    if k == "^":
        return a ** b
    if k == "+":
        return a + b
    if k == "-":
        return a - b
    if k == "*":
        return a * b
    if k == "/":
        return a / b
    raise ValueError(k)


def tree_features(tree, seed=0):
    """Structural facts about an expression tree that known findings are keyed on (never the case tag):
       nested_same_function: functions that occur inside one of their own arguments (at any depth);
       const_call_funcs:     function calls all of whose arguments are numerically constant (independent of every variable)."""
    import random as _random
    names = sorted(free_vars(tree) - {"pi", "E"})
    rnd = _random.Random(seed)
    envs = [{n: rnd.uniform(0.3, 1.7) * rnd.choice((-1, 1)) for n in names} for _ in range(3)]
    nested, const_calls = set(), set()

    def is_const(sub):
        try:
            vals = [ev(sub, e) for e in envs]
        except Exception:
            return False
        return all(abs(v - vals[0]) <= 1e-12 * max(1.0, abs(vals[0])) for v in vals)

    def walk(t, inside):
        if not isinstance(t, list) or not t:
            return
        if t[0] == "call":
            if t[1] in inside:
                nested.add(t[1])
            if all(is_const(a) for a in t[2:]):
                const_calls.add(t[1])
            for a in t[2:]:
                walk(a, inside | {t[1]})
        elif t[0] in ("num", "var", "past"):
            return
        elif t[0] == "pow":
            walk(t[1], inside)
        else:
            for a in t[1:]:
                walk(a, inside)
    walk(tree, frozenset())
    return dict(nested_same_function=sorted(nested), const_call_funcs=sorted(const_calls))


def free_vars(tree, out=None):
    out = set() if out is None else out
    if tree[0] == "var":
        out.add(tree[1])
    elif tree[0] in ("num",):
        pass
    elif tree[0] == "past":
        out.add(tree[1])
    elif tree[0] == "pow":
        free_vars(tree[1], out)
    elif tree[0] == "call":
        for a in tree[2:]:
            free_vars(a, out)
    else:
        for a in tree[1:]:
            free_vars(a, out)
    return out


PREC = {"+": 1, "-": 1, "*": 2, "/": 2, "neg": 3, "pow": 4}


def to_str(tree, style=0, parent=0, right=False):
    """Render an expression tree.  style 0: minimal parentheses (by precedence), `**`; style 1: minimal parentheses,
    `^`, x' notation (see eq_str); style 2: no spaces; style 3: fully parenthesised."""
    k = tree[0]
    sp = "" if style == 2 else " "
    if k == "num":
        v = tree[1]
        if isinstance(v, int) and not isinstance(v, bool):
            return str(v) if v >= 0 else f"({v})"        # integer literal, spelled without a decimal point
        return repr(float(v)) if v >= 0 else f"({repr(float(v))})"
    if k == "var":
        return tree[1]
    if k == "call":
        return f"{tree[1]}({(',' + sp).join(to_str(a, style) for a in tree[2:])})"
    if k == "past":
        return f"past({tree[1]},{sp}{float(tree[2])!r})"
    if k == "^":
        # general power with an expression as exponent: both sides parenthesised in every style
        return f"({to_str(tree[1], style)}){'^' if style == 1 else '**'}({to_str(tree[2], style)})"
    if style == 3:
        if k == "neg":
            return f"(-{to_str(tree[1], style)})"
        if k == "pow":
            return f"({to_str(tree[1], style)})**{tree[2]}"
        return f"({to_str(tree[1], style)} {k} {to_str(tree[2], style)})"
    p = PREC[k]
    if k == "neg":
        body = f"-{to_str(tree[1], style, p)}"
    elif k == "pow":
        op = "^" if style == 1 else "**"
        body = f"{to_str(tree[1], style, p + 1)}{op}{tree[2]}"
    else:
        a = to_str(tree[1], style, p)
        b = to_str(tree[2], style, p, right=True)
        body = f"{a}{sp}{k}{sp}{b}"
    need = p < parent or (p == parent and right and k in "+-*/") or (k == "neg" and parent > 0)
    return f"({body})" if need else body


def eq_str(lhs, kind, tree, style=0):
    rhs = to_str(tree, style)
    if kind == "de":
        return (f"d/dt * {lhs} = {rhs}") if style != 1 else f"{lhs}' = {rhs}"
    return f"{lhs} = {rhs}"


# ------------------------------------------------------------------ rendering to PyRates objects
def var_decl(vtype, default):
    if vtype == "const":
        return float(default) if not isinstance(default, (list, tuple)) else list(default)
    word = {"state": "variable", "output": "output", "input": "input"}[vtype]
    return f"{word}({float(default)})"


def var_decl_dict(vtype, default):
    """explicit dictionary form of a variable definition (the form PyRates uses for generated operators)"""
    vt = {"const": "constant", "output": "output", "input": "input", "state": "variable"}[vtype]
    return {"vtype": vt, "value": float(default), "dtype": "float", "shape": (1,)}


def build_templates(model, style=0, share_nodes=True, prefix="", dict_vars=False, node_cache=None, ops_cache=None):
    """MDL -> CircuitTemplate built through the Python classes of the repository.
    node_cache / ops_cache: dictionaries that persist between calls, so that several circuits share template OBJECTS."""
    from pyrates import OperatorTemplate, NodeTemplate, CircuitTemplate
    ops = ops_cache if ops_cache is not None else {}
    for name, op in model["ops"].items():
        if name in ops:
            continue
        eqs = [eq_str(l, k, t, style) for l, k, t in op["eqs"]]
        variables = {v: (var_decl_dict(vt, d) if dict_vars else var_decl(vt, d)) for v, (vt, d) in op["vars"].items()}
        ops[name] = OperatorTemplate(name=name, equations=eqs, variables=variables, path=None)
    node_tpls = node_cache if node_cache is not None else {}
    nodes = {}
    for label, node in model["nodes"].items():
        key = (tuple(node["ops"]), tuple(sorted(node.get("over", {}).items())))
        if share_nodes == "derived" and key in node_tpls:
            # a DISTINCT NodeTemplate object derived from the first one (shares nothing a user can see)
            nodes[label] = node_tpls[key].update_template(name=f"{prefix}nt_{label}")
            continue
        if share_nodes == "common-dict" and key in node_tpls:
            # a distinct NodeTemplate built from the very same operators -> overrides dictionaries
            first = node_tpls[key]
            nodes[label] = NodeTemplate(name=f"{prefix}nt_{label}", operators=dict(first.operators), path=None)
            continue
        if share_nodes and key in node_tpls:
            nodes[label] = node_tpls[key]
            continue
        over = node.get("over", {})
        if over:
            opd = {}
            for o in node["ops"]:
                opd[ops[o]] = {k.split("/")[1]: v for k, v in over.items() if k.split("/")[0] == o}
            tpl = NodeTemplate(name=f"{prefix}nt_{label}", operators=opd, path=None)
        else:
            tpl = NodeTemplate(name=f"{prefix}nt_{'_'.join(node['ops'])}", operators=[ops[o] for o in node["ops"]], path=None)
        node_tpls[key] = tpl
        nodes[label] = tpl
    edges = []
    edge_tpls = {}
    if model.get("edge_ops"):
        from pyrates import EdgeTemplate
        for name, op in model["edge_ops"].items():
            eqs = [eq_str(l, k, t, style) for l, k, t in op["eqs"]]
            variables = {v: var_decl(vt, d) for v, (vt, d) in op["vars"].items()}
            edge_tpls[name] = EdgeTemplate(name=f"{prefix}et_{name}", operators=[OperatorTemplate(name=name, equations=eqs, variables=variables, path=None)], path=None)
    for e in model.get("edges", []):
        attrs = {"weight": e["w"]}
        if e.get("d") is not None:
            attrs["delay"] = e["d"]
        if e.get("s") is not None:
            attrs["spread"] = e["s"]
        for ev, evv in (e.get("eover") or {}).items():
            attrs[f"{e['tpl']}/{ev}"] = evv            # per-edge override of an edge-operator parameter
        if e.get("post"):
            # further inputs of the edge operator bound to node variables by their PATH; the remaining input(s) read the source
            eop = model["edge_ops"][e["tpl"]]
            for ev, (vt, _) in eop["vars"].items():
                if vt == "input":
                    attrs[f"{prefix}et_{e['tpl']}/{e['tpl']}/{ev}"] = e["post"].get(ev, "source")
        edges.append((e["src"], e["tgt"], edge_tpls.get(e.get("tpl")), attrs))
    circuits = {lab: build_templates(sub, style, share_nodes, prefix=f"{prefix}{lab}_", dict_vars=dict_vars, node_cache=node_cache,
                                     ops_cache=ops_cache if ops_cache is not None else ops)
                for lab, sub in model.get("circuits", {}).items()}
    kw = dict(name=f"{prefix}net", edges=edges)
    if nodes:
        kw["nodes"] = nodes
    if circuits:
        kw["circuits"] = circuits
    return CircuitTemplate(**kw)


# ------------------------------------------------------------------ reference semantics
def flatten(model, prefix=""):
    """-> (nodes: {path: (node, ops)}, edges with absolute paths)."""
    nodes, edges = {}, []
    for label, node in model.get("nodes", {}).items():
        nodes[prefix + label] = (node, model["ops"])
    for e in model.get("edges", []):
        e2 = dict(e)
        e2["src"], e2["tgt"] = prefix + e["src"], prefix + e["tgt"]
        if e.get("tpl"):
            e2["_op"] = model["edge_ops"][e["tpl"]]
        if e.get("post"):
            e2["post"] = {k_: (v_ if v_ == "source" else prefix + v_) for k_, v_ in e["post"].items()}
        edges.append(e2)
    for lab, sub in model.get("circuits", {}).items():
        n2, e2 = flatten(sub, prefix + lab + "/")
        nodes.update(n2)
        edges.extend(e2)
    if not prefix:
        for j, e in enumerate(edges):
            e["_id"] = j
    return nodes, edges


def state_vars(model):
    """All frontend state variables 'node/op/var' (variables with a differential equation), in declaration order."""
    nodes, _ = flatten(model)
    out = []
    for path, (node, ops) in nodes.items():
        for o in node["ops"]:
            for lhs, kind, _ in ops[o]["eqs"]:
                if kind == "de":
                    out.append(f"{path}/{o}/{lhs}")
    return out


def declared_value(model, var_path):
    nodes, _ = flatten(model)
    *np_, o, v = var_path.split("/")
    node, ops = nodes["/".join(np_)]
    over = node.get("over", {})
    if f"{o}/{v}" in over:
        return over[f"{o}/{v}"]
    return ops[o]["vars"][v][1]


def initial_state(model):
    return {p: float(declared_value(model, p)) for p in state_vars(model)}


def spec_rhs(model, y, params=None, hist=None, t=0.0, edge_now=None, ext=None):
    """Reference vector field.  y: {state var path: value}; params: overrides {var path: value}.
    Returns (dy: {state var path: value}, values: {every variable path: value}).
    Delayed edges (hist given): the source value is hist(t - d)[src]; otherwise the current value."""
    params = params or {}
    nodes, edges = flatten(model)
    values = {}

    def val_of(path):
        if path in values:
            return values[path]
        if path in y:
            return y[path]
        if path in params:
            return params[path]
        return declared_value(model, path)

    # evaluation order over (node, op): an operator needs the outputs feeding its inputs; edges need source vars
    incoming = {}
    for e in edges:
        incoming.setdefault(e["tgt"], []).append(e)
    done = set()
    pending = [(p, o) for p, (node, ops) in nodes.items() for o in node["ops"]]
    dy = {}
    guard = 0

    def op_output(ops, o):
        for v, (vt, _) in ops[o]["vars"].items():
            if vt == "output":
                return v
        return None

    def alg_ready(path):
        # value of a variable is available if it is a state var, a constant, or already computed
        *np_, o, v = path.split("/")
        node, ops = nodes["/".join(np_)]
        for lhs, kind, _ in ops[o]["eqs"]:
            if lhs == v and kind == "alg":
                return path in values
        return True

    while pending:
        guard += 1
        if guard > 10000:
            raise RuntimeError("cyclic algebraic dependencies in MDL")
        p, o = pending.pop(0)
        node, ops = nodes[p]
        op = ops[o]
        env = {}
        ok = True
        for v, (vt, d) in op["vars"].items():
            path = f"{p}/{o}/{v}"
            if vt == "input":
                terms = []
                # same-node operators whose output carries this name
                for o2 in node["ops"]:
                    if o2 != o and op_output(ops, o2) == v:
                        src = f"{p}/{o2}/{v}"
                        if not alg_ready(src):
                            ok = False
                        terms.append(("op", src, 1.0, None))
                for e in incoming.get(path, []):
                    if not alg_ready(e["src"]):
                        ok = False
                    terms.append(("edge", e["src"], e["w"], e if (edge_now is not None or e.get("_op")) else e.get("d")))
                if ext and path in ext:
                    terms.append(("ext", None, ext[path], None))
                if not ok:
                    break
                if terms:
                    tot = 0.0
                    for kind_, src, w, d in terms:
                        if kind_ == "ext":
                            tot = tot + w
                        elif kind_ == "edge" and isinstance(d, dict) and d.get("_op"):
                            # edge template: the (algebraic) edge operator is evaluated per edge on its own source
                            eop = d["_op"]
                            sv = edge_now(src, d, val_of) if edge_now is not None else val_of(src)
                            post = d.get("post") or {}     # inputs of a coupling edge that read a variable of the TARGET unit
                            eenv = {v_: ((val_of(post[v_]) if post.get(v_, "source") != "source" else sv) if vt_ == "input" else (d.get("eover") or {}).get(v_, dflt))
                                    for v_, (vt_, dflt) in eop["vars"].items()}
                            outv = None
                            for l_, k_, tr_ in eop["eqs"]:
                                eenv[l_] = ev(tr_, eenv)
                                outv = eenv[l_]
                            tot = tot + w * outv
                        elif kind_ == "edge" and edge_now is not None:
                            tot = tot + w * edge_now(src, d, val_of)
                        elif d is not None and hist is not None:
                            tot = tot + w * hist(t - d, src)
                        else:
                            tot = tot + w * val_of(src)
                    env[v] = tot
                else:
                    env[v] = val_of(path)
                values[path] = env[v]
            elif vt == "const":
                env[v] = val_of(path)
            else:
                env[v] = None       # filled below
        if not ok:
            pending.append((p, o))
            continue
        # state variables / algebraic outputs of this operator, in equation order
        for lhs, kind, _ in op["eqs"]:
            if kind == "de":
                env[lhs] = val_of(f"{p}/{o}/{lhs}")
        for v, (vt, d) in op["vars"].items():
            if env.get(v) is None and vt in ("state", "output") and not any(l == v for l, _, _ in op["eqs"]):
                env[v] = val_of(f"{p}/{o}/{v}")
        if hist is not None:
            env["__past__"] = (lambda p_, o_: (lambda v_, tau_: hist(t - tau_, f"{p_}/{o_}/{v_}")))(p, o)
        # algebraic equations may depend on one another: iterate in dependency order
        alg = [(l, tr) for l, k, tr in op["eqs"] if k == "alg"]
        todo = list(alg)
        g2 = 0
        while todo:
            g2 += 1
            if g2 > 1000:
                raise RuntimeError("cyclic algebraic equations")
            l, tr = todo.pop(0)
            if any(env.get(fv) is None and fv not in ("pi", "E", "t") for fv in free_vars(tr) if not fv.startswith("__")):
                todo.append((l, tr))
                continue
            env[l] = ev(tr, {**env, "t": t})
            values[f"{p}/{o}/{l}"] = env[l]
        for lhs, kind, tr in op["eqs"]:
            if kind == "de":
                dy[f"{p}/{o}/{lhs}"] = ev(tr, {**env, "t": t})
                values.setdefault(f"{p}/{o}/{lhs}", env[lhs])
        done.add((p, o))
    return dy, values


def gamma_order(d, s):
    return max(1, int(round((d / s) ** 2)))


def spec_fixed_step(model, T, dt, dts, solver="euler", y0=None, params=None, inputs=None):
    """Euler / Heun iterates of the reference semantics; row k = state at k*dts.
    Discrete edge delays (no spread): the source value of step i - round(d/dt), 0 before the start, lags < 2 steps are
    neglected (as the property states).  Spread: gamma kernel = chain of n = round((d/s)^2) first-order stages of rate
    n/d (explicit augmented ODE), target receives w * last stage.
    inputs: {var path: array}, sample i is the value used during step i (added to the variable's other inputs)."""
    y = dict(y0 or initial_state(model))
    steps = int(round(T / dt))
    m = int(round(dts / dt))
    rows = int(round(T / dts))
    keys = list(y)
    rec = {k: [] for k in keys}
    _, edges = flatten(model)
    past = []                                   # full per-step record of every variable value (for discrete delays)
    chains = {}
    for j, e in enumerate(edges):
        if e.get("s"):
            chains[j] = [0.0] * gamma_order(e["d"], e["s"])

    def make_edge_now(i, chain_state):
        def edge_now(src, e, val_of):
            if e.get("s"):
                return chain_state[e["_id"]][-1]
            if e.get("d") is not None:
                lag = int(round(e["d"] / dt))
                if lag >= 2:
                    return past[i - lag][src] if i - lag >= 0 else 0.0
            return val_of(src)
        return edge_now

    has_past = '"past"' in __import__("json").dumps(model)
    ystates = []                               # y_j for j = 0..i (records of the history, times j*dt)

    def hist(tq, path):
        # piecewise-linear interpolant of the recorded iterates, constant before the start and after the last record
        if tq <= 0 or len(ystates) == 1:
            return ystates[0][path]
        last = (len(ystates) - 1) * dt
        if tq >= last:
            return ystates[-1][path]
        j = int(tq / dt + 1e-9)
        j = min(j, len(ystates) - 2)
        a = (tq - j * dt) / dt
        return ystates[j][path] + a * (ystates[j + 1][path] - ystates[j][path])

    def rhs(yv, i, chain_state):
        p2 = dict(params or {})
        ext = {pth: float(arr[min(i, len(arr) - 1)]) for pth, arr in inputs.items()} if inputs else None
        if has_past:
            dy, vals = spec_rhs(model, yv, p2, t=i * dt, hist=hist, ext=ext)
        else:
            dy, vals = spec_rhs(model, yv, p2, t=i, edge_now=make_edge_now(i, chain_state), ext=ext)
        dch = {}
        for j, st in chain_state.items():
            e = edges[j]
            n = len(st)
            rate = n / e["d"]
            srcv = vals.get(e["src"], yv.get(e["src"]))
            if srcv is None:
                srcv = declared_value(model, e["src"])
            dch[j] = [rate * ((srcv if q == 0 else st[q - 1]) - st[q]) for q in range(n)]
        return dy, vals, dch

    for i in range(steps):
        if i % m == 0 and len(rec[keys[0]]) < rows:
            for k in keys:
                rec[k].append(y[k])
        if has_past and len(ystates) == i:
            ystates.append(dict(y))
        dy, vals, dch = rhs(y, i, chains)
        snapshot = dict(vals)
        snapshot.update(y)
        past.append(snapshot)
        if solver == "euler":
            y = {k: y[k] + dt * dy[k] for k in keys}
            chains = {j: [a + dt * b for a, b in zip(chains[j], dch[j])] for j in chains}
        else:
            y1 = {k: y[k] + dt * dy[k] for k in keys}
            c1 = {j: [a + dt * b for a, b in zip(chains[j], dch[j])] for j in chains}
            dy2, _, dch2 = rhs(y1, i, c1)
            y = {k: y[k] + dt / 2 * (dy[k] + dy2[k]) for k in keys}
            chains = {j: [a + dt / 2 * (b + c) for a, b, c in zip(chains[j], dch[j], dch2[j])] for j in chains}
    times = np.arange(rows) * (T / rows) if rows else np.zeros(0)
    return times, {k: np.array(v) for k, v in rec.items()}


# ------------------------------------------------------------------ rendering to YAML templates
def to_yaml_dict(model, style=0, prefix=""):
    """MDL -> dictionary of YAML templates (operators, node templates, edge templates, circuits); returns (dict, top name)."""
    out = {}
    for name, op in model.get("ops", {}).items():
        out[name] = dict(base="OperatorTemplate", equations=[eq_str(l, k, t, style) for l, k, t in op["eqs"]],
                         variables={v: var_decl(vt, d) for v, (vt, d) in op["vars"].items()})
    for name, op in model.get("edge_ops", {}).items():
        out[name] = dict(base="OperatorTemplate", equations=[eq_str(l, k, t, style) for l, k, t in op["eqs"]],
                         variables={v: var_decl(vt, d) for v, (vt, d) in op["vars"].items()})
        out[f"et_{name}"] = dict(base="EdgeTemplate", operators=[name])
    nodes = {}
    for label, node in model.get("nodes", {}).items():
        over = node.get("over", {})
        key = f"{prefix}nt_{label}" if over else f"{prefix}nt_{'_'.join(node['ops'])}"
        if key not in out:
            if over:
                opd = {o: {k.split("/")[1]: v for k, v in over.items() if k.split("/")[0] == o} for o in node["ops"]}
                out[key] = dict(base="NodeTemplate", operators=opd)
            else:
                out[key] = dict(base="NodeTemplate", operators=list(node["ops"]))
        nodes[label] = key
    circuits = {}
    for lab, sub in model.get("circuits", {}).items():
        d2, top = to_yaml_dict(sub, style, prefix=f"{prefix}{lab}_")
        out.update(d2)
        circuits[lab] = top
    edges = []
    for e in model.get("edges", []):
        attrs = {"weight": e["w"]}
        if e.get("d") is not None:
            attrs["delay"] = e["d"]
        if e.get("s") is not None:
            attrs["spread"] = e["s"]
        for ev, evv in (e.get("eover") or {}).items():
            attrs[f"{e['tpl']}/{ev}"] = evv
        if e.get("post"):
            for ev, (vt, _) in model["edge_ops"][e["tpl"]]["vars"].items():
                if vt == "input":
                    attrs[f"et_{e['tpl']}/{e['tpl']}/{ev}"] = e["post"].get(ev, "source")
        edges.append([e["src"], e["tgt"], f"et_{e['tpl']}" if e.get("tpl") else None, attrs])
    top = f"{prefix}net"
    c = dict(base="CircuitTemplate", edges=edges)
    if nodes:
        c["nodes"] = nodes
    if circuits:
        c["circuits"] = circuits
    out[top] = c
    return out, top


def write_yaml(model, path="mdl_yaml/m.yaml", style=0):
    import os
    from ruamel.yaml import YAML
    import io
    d, top = to_yaml_dict(model, style)
    os.makedirs(os.path.dirname(path), exist_ok=True)
    buf = io.StringIO()
    YAML().dump(d, buf)
    text = buf.getvalue()
    # a definition file that already holds exactly this text is left untouched (same modification time): a second load of the
    # same path within one process then sees an unchanged file, as it would for a user's own template file
    if not (os.path.exists(path) and open(path).read() == text):
        with open(path, "w") as fh:
            fh.write(text)
    return path[:-5] + "/" + top
