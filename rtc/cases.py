"""One case function for the model-based families: dispatches on case['kind']."""
import numpy as np

from . import oracle


def case_fn(c):
    kind = c["kind"]
    if kind == "field":
        rng = np.random.default_rng(c.get("seed", 0))
        try:
            comp = oracle.compile_model(c["model"], vectorize=c["vec"], style=c.get("style", 0), backend=c.get("backend", "default"))
        except Exception as exn:
            return dict(status="violated", fails=[dict(clause="get_run_func returns a function for a well-formed model",
                                                       observed=f"{type(exn).__name__}: {exn}")])
        fails = oracle.check_vector_field(c["model"], comp, rng, n_states=c.get("n_states", 3),
                                          n_param_draws=c.get("n_param_draws", 1), vectorized=c["vec"])
    elif kind == "run":
        fails = oracle.check_fixed_step_run(c["model"], c["T"], c["dt"], c.get("dts"), c.get("solver", "euler"), c["vec"],
                                            c.get("cutoff", 0.0), only_vars=c.get("only_vars"))
    elif kind == "adaptive":
        fails = oracle.check_adaptive_run(c["model"], c["T"], c["dt"], c.get("dts"), c["vec"], method=c.get("method", "RK45"))
    elif kind == "overrides":
        fails = oracle.check_overrides(c["model"], c["ops"], c["vec"], seed=c.get("seed", 0), share_nodes=c.get("share", True))
    elif kind == "readonly":
        fails = oracle.check_read_only(c["model"], c["ops"], seed=c.get("seed", 0), dict_vars=c.get("dict_vars", False))
    elif kind == "inputs":
        fails = oracle.check_inputs(c["model"], c["inputs"], c["vec"], solver=c.get("solver", "euler"), T=c.get("T", 1.0), dt=c.get("dt", 0.05))
    elif kind == "inputs_seq":
        # an EARLIER call with other input values in the same process (fresh template objects each time, caches kept): the later
        # call must be driven by its own arrays
        import numpy as _np
        pre = {k: (10.0 * _np.asarray(v, dtype=float)[::-1] + 5.0).tolist() for k, v in c["inputs"].items()}
        oracle.check_inputs(c["model"], pre, c["vec"], solver=c.get("solver", "euler"), T=c.get("T", 1.0), dt=c.get("dt", 0.05))
        fails = oracle.check_inputs(c["model"], c["inputs"], c["vec"], solver=c.get("solver", "euler"), T=c.get("T", 1.0), dt=c.get("dt", 0.05))
        for f in fails:
            f["clause"] = "after an earlier run with other input values: " + f["clause"]
    elif kind == "population":
        fails = oracle.check_population(c["ps"], T=c.get("T", 0.5), dt=c.get("dt", 0.05), solver=c.get("solver", "euler"),
                                        explicit_route=c.get("explicit_route", False))
    elif kind == "jacobian":
        fails = oracle.check_jacobian(c["model"], seed=c.get("seed", 0), sparse=c.get("sparse", False))
    elif kind == "frontends":
        fails = oracle.check_frontends(c["model"], c["route"], c["vec"], seed=c.get("seed", 0), style=c.get("style", 0))
    elif kind == "grid":
        fails = oracle.check_grid_search(c["model"], c["grid"], c["param_map"], c["outputs"], vectorize=c["vec"], permute=c.get("permute", False),
                                         as_frame=c.get("as_frame"), inputs=c.get("inputs"), as_path=c.get("as_path", False))
    elif kind == "dde_field":
        fails = oracle.check_dde_field(c["model"], c["solver"], seed=c.get("seed", 0), vectorize=c.get("vec", False), dt=c.get("dt", 0.01), two_stage=c.get("two_stage", False))
    elif kind == "dde_run":
        fails = oracle.check_dde_run(c["model"], c["solver"], T=c.get("T", 2.0), dts=c.get("dts", 0.05), method=c.get("method"))
    elif kind == "expr_eval_seq":
        # several expressions evaluated one after the other in ONE process: a later one must not inherit anything from an earlier one
        fails = []
        for j, (tree, values, style) in enumerate(c["items"]):
            fl = oracle.check_expr_eval(tree, values, style=style)
            if fl:
                for f in fl:
                    f["clause"] = f"expression #{j} of a sequence evaluated in one process: " + f["clause"]
                fails = fl
                break
    elif kind == "expr_eval":
        fails = oracle.check_expr_eval(c["tree"], c["values"], style=c.get("style", 0), backend=c.get("backend", "default"))
    elif kind == "outputs":
        fails = oracle.check_outputs(c["model"], c["request"], c["form"], c["vec"], pre_runs=tuple(c.get("pre_runs", ())),
                                     **({"T": 2.0, "dt": 0.1} if c.get("features", {}).get("delayed") else {}))
    else:
        raise ValueError(kind)
    return dict(status="violated" if fails else "ok", fails=fails[:2])


def sample_of(c):
    return {k: v for k, v in c.items() if k not in ("features",)}
