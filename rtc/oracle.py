"""Contract wrappers around the real public API (get_run_func / run / get_jacobian_func) with postconditions stated
against the spec functions of rtc.mdl.  Everything here runs inside a forked child (see rtc.runner)."""
import numpy as np

from . import mdl

RTOL, ATOL = 1e-9, 1e-11


def close(a, b, rtol=RTOL, atol=ATOL):
    return bool(np.allclose(np.asarray(a, dtype=float), np.asarray(b, dtype=float), rtol=rtol, atol=atol))


SEQUENCE_MODE = False      # set by driver._SeqFn: several cases in one process, caches cleared the way the API does by default
_SEQ_TEMPLATES = []


def end_of_sequence_item():
    """What a user does between two models in one session: pyrates.clear(model) for every model built (public API)."""
    from pyrates import clear, clear_frontend_caches
    for t in _SEQ_TEMPLATES:
        try:
            clear(t)
        except Exception:
            pass
    del _SEQ_TEMPLATES[:]
    clear_frontend_caches()


def compile_model(model, vectorize=False, backend="default", inputs=None, style=0, tpl=None, step_size=1e-3, **kw):
    from pyrates import CircuitTemplate  # noqa: F401  (ensures the tree under test is the imported one)
    tpl = tpl if tpl is not None else mdl.build_templates(model, style=style)
    kwargs = dict(func_name="vf", step_size=step_size, backend=backend, vectorize=vectorize, verbose=False,
                  clear=False, in_place=True, float_precision="float64", file_name="vf_mod")
    if SEQUENCE_MODE:
        _SEQ_TEMPLATES.append(tpl)       # cleared through the public pyrates.clear(...) once the case is finished
    kwargs.update(kw)
    if inputs:
        kwargs["inputs"] = inputs
    func, args, names, smap = tpl.get_run_func(**kwargs)
    return dict(func=func, args=args, names=names, smap=smap, tpl=tpl, backend=backend)


def positions(comp, model, var_paths=None):
    """{frontend state variable: position in y} through the API the user has: the returned map when it names the
    variable, otherwise get_variable_positions (vectorised circuits)."""
    out = {}
    smap = comp["smap"]
    tpl = comp["tpl"]
    for v in (var_paths or mdl.state_vars(model)):
        if v in smap and not isinstance(smap[v], tuple):
            out[v] = int(smap[v])
            continue
        # get_variable_positions answers with an index RELATIVE to the backend variable on a template that has not
        # cached a state layout (that is how run() uses it); get_run_func caches one in _state_var_indices, after
        # which the same call mixes absolute and relative answers.  Ask the question the way run() does.
        saved = tpl._state_var_indices
        tpl._state_var_indices = {}
        try:
            idx_map, var_map = tpl.get_variable_positions({"k": v})
        finally:
            tpl._state_var_indices = saved
        bk = var_map["k"]
        rng = smap[bk]
        idx = idx_map["k"]
        idx = int(np.asarray(idx).squeeze()) if np.size(idx) == 1 else None
        if isinstance(rng, tuple):
            out[v] = int(rng[0] + (idx or 0))
        else:
            out[v] = int(rng)
    return out


def eval_field(comp, y, t=0.0, arg_over=None):
    """Call the compiled vector field the way its backend's own solver does."""
    args = list(comp["args"])
    if arg_over:
        for i, v in arg_over.items():
            args[i] = v
    backend = comp.get("backend", "default")
    if backend == "torch":
        import torch
        y_t = torch.as_tensor(np.array(y, dtype=float), dtype=args[1].dtype if hasattr(args[1], "dtype") else torch.float64)
        a2 = [torch.as_tensor(np.asarray(a)) if not isinstance(a, torch.Tensor) and not callable(a) else a for a in args[2:]]
        dy = comp["func"](t, y_t, *a2)
        return np.array(dy.detach().cpu().numpy() if hasattr(dy, "detach") else dy, dtype=float, copy=True)
    if backend == "jax":
        import jax.numpy as jnp
        dy = comp["func"](t, jnp.asarray(np.array(y, dtype=float)), *args[2:])
        return np.array(dy, dtype=float, copy=True)
    if backend == "fortran":
        yv = np.array(y, dtype=np.asarray(args[1]).dtype)
        out = comp["func"](t, yv, *args[2:])
        dy = args[2] if out is None else out
        return np.array(dy, dtype=float, copy=True)
    dy = comp["func"](t, np.array(y, dtype=float), *args[2:])
    return np.array(dy, dtype=float, copy=True)


def check_vector_field(model, comp, rng, n_states=3, n_param_draws=1, vectorized=False, t=0.0):
    """Clauses C01-B(i)-(iii).  Returns list of failure dicts."""
    fails = []
    svars = mdl.state_vars(model)
    try:
        pos = positions(comp, model)
    except Exception as exn:
        return [dict(clause="layout: every declared state variable has a position", observed=f"{type(exn).__name__}: {exn}")]
    n = len(np.asarray(comp["args"][1]).reshape(-1))
    # (ii) layout: defined on every state variable, injective, inside the vector
    if len(set(pos.values())) != len(svars) or any(not (0 <= p < n) for p in pos.values()) or n != len(svars):
        fails.append(dict(clause="layout: distinct positions for all declared state variables",
                          observed=dict(positions=pos, state_vector_length=n), expected=f"{len(svars)} distinct positions"))
        return fails
    # (iii) returned argument values are the declared ones
    y0 = np.asarray(comp["args"][1], dtype=float).reshape(-1)
    init = mdl.initial_state(model)
    for v in svars:
        if not close(y0[pos[v]], init[v]):
            fails.append(dict(clause="args: initial state equals the declared value", var=v,
                              observed=float(y0[pos[v]]), expected=init[v]))
    names = comp["names"]
    const_args = {}
    if not vectorized:
        nodes, _ = mdl.flatten(model)
        for i, nm in enumerate(names):
            parts = nm.split("/")
            if len(parts) >= 3 and "/".join(parts[:-2]) in nodes and parts[-2] in nodes["/".join(parts[:-2])][0]["ops"]:
                try:
                    dv = mdl.declared_value(model, nm)
                except KeyError:
                    continue
                const_args[i] = nm
                if not close(np.asarray(comp["args"][i]).squeeze(), dv):
                    fails.append(dict(clause="args: parameter value equals the declared value", var=nm,
                                      observed=np.asarray(comp["args"][i]).tolist(), expected=dv))
    # (i) vector field at random states (and parameter draws)
    for d in range(n_param_draws + 1):
        over, params = {}, {}
        if d > 0:
            for i, nm in const_args.items():
                *_, o, v = nm.split("/")
                val = float(np.round(rng.uniform(0.5, 2.0), 3))
                over[i] = np.asarray(val, dtype=np.asarray(comp["args"][i]).dtype).reshape(np.shape(comp["args"][i]))
                params[nm] = val
        for _ in range(n_states):
            yv = np.round(rng.uniform(-1.0, 1.0, size=n), 3)
            ydict = {v: float(yv[pos[v]]) for v in svars}
            try:
                want, _vals = mdl.spec_rhs(model, ydict, params, t=t)
            except Exception as exn:
                return fails + [dict(clause="HARNESS", observed=f"spec_rhs failed: {type(exn).__name__}: {exn}")]
            try:
                got = eval_field(comp, yv, t=t, arg_over=over)
            except Exception as exn:
                fails.append(dict(clause="vector field: callable at every state", observed=f"{type(exn).__name__}: {exn}"))
                return fails
            for v in svars:
                if not close(got[pos[v]], want[v], 1e-8, 1e-10):
                    fails.append(dict(clause="vector field: derivative equals the equation", var=v, state=ydict, params=params,
                                      observed=float(got[pos[v]]), expected=float(want[v])))
            if fails:
                return fails
    return fails


def run_model(model, T, dt, dts=None, solver="euler", vectorize=False, backend="default", outputs=None, inputs=None,
              cutoff=0.0, style=0, tpl=None, **kw):
    """CircuitTemplate.run on the MDL model; outputs default: one key per state variable ('v<i>' -> path)."""
    tpl = tpl if tpl is not None else mdl.build_templates(model, style=style)
    svars = mdl.state_vars(model)
    if outputs is None:
        outputs = {f"v{i}": p for i, p in enumerate(svars)}
    kwargs = dict(simulation_time=T, step_size=dt, solver=solver, outputs=outputs, vectorize=vectorize, backend=backend,
                  verbose=False, clear=bool(SEQUENCE_MODE), in_place=True, float_precision="float64", cutoff=cutoff)
    if dts is not None:
        kwargs["sampling_step_size"] = dts
    if inputs:
        kwargs["inputs"] = inputs
    kwargs.update(kw)
    df = tpl.run(**kwargs)
    return df, outputs, tpl


def check_fixed_step_run(model, T, dt, dts, solver, vectorize, cutoff=0.0, only_vars=None):
    """C03-B: rows, index, first row, values == spec iterates, cutoff."""
    fails = []
    try:
        df, outputs, _ = run_model(model, T, dt, dts, solver, vectorize, cutoff=cutoff)
    except Exception as exn:
        return [dict(clause="run returns a result for a well-formed request", observed=f"{type(exn).__name__}: {exn}")]
    step = dts if dts else dt
    rows = int(round(T / step))
    times, ref = mdl.spec_fixed_step(model, T, dt, step, solver)
    keep = [k for k in range(rows) if times[k] >= cutoff - 1e-12 * max(1.0, abs(cutoff))]
    # on-grid cut-offs: the boundary row may fall on either side (floating point), accept both
    alt = [k for k in range(rows) if times[k] > cutoff + 1e-9]
    if len(df.index) not in (len(keep), len(alt)):
        return [dict(clause="run: number of rows == round(T/sampling step) minus rows before the cutoff",
                     observed=int(len(df.index)), expected=len(keep))]
    use = keep if len(df.index) == len(keep) else alt
    if len(use) and not np.allclose(np.asarray(df.index, dtype=float), times[use], rtol=1e-9, atol=1e-12):
        fails.append(dict(clause="run: index holds the times k*sampling step", observed=list(map(float, df.index[:4])),
                          expected=list(map(float, times[use][:4]))))
    if len(df.index) == 0:
        return fails          # every row lies before the cut-off: nothing to compare
    for key, path in outputs.items():
        if only_vars is not None and path not in only_vars:
            continue
        got = np.asarray(df[key], dtype=float).reshape(len(df.index), -1)[:, 0]
        want = ref[path][use] if len(use) else np.zeros(0)
        if len(want) < len(use):
            fails.append(dict(clause="HARNESS", observed="reference shorter than the record"))
            continue
        if not np.allclose(got, want, rtol=1e-7, atol=1e-10):
            bad = int(np.argmax(np.abs(got - want) > 1e-10 + 1e-7 * np.abs(want)))
            fails.append(dict(clause=f"run: row k holds the {solver} iterate at time k*sampling step", var=path, row=bad,
                              observed=float(got[bad]), expected=float(want[bad])))
    return fails


def check_adaptive_run(model, T, dt, dts, vectorize, method="RK45", rtol=1e-8, atol=1e-10):
    """C03-B adaptive clause: scipy solution at the sample times within tolerance of a tight reference on spec_rhs."""
    from scipy.integrate import solve_ivp
    try:
        df, outputs, _ = run_model(model, T, dt, dts, "scipy", vectorize, method=method, rtol=rtol, atol=atol)
    except Exception as exn:
        return [dict(clause="run returns a result for a well-formed request", observed=f"{type(exn).__name__}: {exn}")]
    svars = mdl.state_vars(model)
    y0 = mdl.initial_state(model)

    def f(t, y):
        dy, _ = mdl.spec_rhs(model, dict(zip(svars, y)), t=t)
        return [dy[v] for v in svars]
    step = dts if dts else dt
    rows = int(round(T / step))
    times = np.arange(rows) * (T / rows)
    ref = solve_ivp(f, (0.0, T), [y0[v] for v in svars], t_eval=times, rtol=1e-11, atol=1e-13, method="DOP853")
    fails = []
    if len(df.index) != rows:
        return [dict(clause="run: number of rows == round(T/sampling step)", observed=int(len(df.index)), expected=rows)]
    if not np.allclose(np.asarray(df.index, dtype=float), times, rtol=1e-9, atol=1e-12):
        fails.append(dict(clause="run: index holds the times k*sampling step", observed=list(map(float, df.index[:4])),
                          expected=list(map(float, times[:4]))))
    for key, path in outputs.items():
        got = np.asarray(df[key], dtype=float).reshape(rows, -1)[:, 0]
        want = ref.y[svars.index(path)]
        if not np.allclose(got, want, rtol=2e-5, atol=2e-7):
            bad = int(np.argmax(np.abs(got - want)))
            fails.append(dict(clause="run: adaptive solution within tolerance of the true solution", var=path, row=bad,
                              observed=float(got[bad]), expected=float(want[bad])))
    return fails


def expand_path(model, path):
    """All state-variable paths addressed by `path` ('all' wildcards at any node level)."""
    parts = path.split("/")
    *np_, o, v = parts
    nodes, _ = mdl.flatten(model)
    out = []
    for npath, (node, ops) in nodes.items():
        segs = npath.split("/")
        if len(segs) != len(np_):
            continue
        if all(a == "all" or a == b for a, b in zip(np_, segs)) and o in node["ops"] and v in ops[o]["vars"]:
            out.append(f"{npath}/{o}/{v}")
    return out


def check_outputs(model, request, form, vectorize, T=0.5, dt=0.05, pre_runs=()):
    """C06-B.  request: dict key->path (form 'dict') or list of paths (form 'list').
    pre_runs: vectorize settings of earlier run() calls on the SAME template instance (their results are discarded)."""
    fails = []
    outputs = dict(request) if form == "dict" else list(request)
    try:
        tpl = None
        kw = dict(clear=True) if pre_runs else {}       # sequences use the API default (caches cleared after every run)
        for pv in pre_runs:
            _, _, tpl = run_model(model, T, dt, None, "euler", pv, outputs=dict(outputs) if form == "dict" else list(outputs), tpl=tpl, **kw)
        df, _, _ = run_model(model, T, dt, None, "euler", vectorize, outputs=outputs, tpl=tpl, **kw)
    except Exception as exn:
        return [dict(clause="run returns a result for a well-formed output request", observed=f"{type(exn).__name__}: {exn}")]
    _, ref = mdl.spec_fixed_step(model, T, dt, dt, "euler")
    expected = {}       # column label -> variable path
    if form == "dict":
        for key, path in request.items():
            targets = expand_path(model, path)
            if "all" in path.split("/") and len(targets) > 1:
                for t in targets:
                    *ns, o, v = t.split("/")
                    expected[(key,) + tuple(ns) + (f"{o}/{v}",)] = t
            else:
                for t in targets:
                    expected[key] = t
    else:
        for path in request:
            for t in expand_path(model, path):
                expected[t] = t
    cols = list(df.columns)

    def norm(c):
        # a plain key next to wildcard keys ends up as tuple(key) padded with NaN in the MultiIndex: accept that spelling
        if isinstance(c, tuple):
            parts = [x for x in c if not (isinstance(x, float) and x != x)]
            if all(isinstance(x, str) and len(x) == 1 for x in parts) and "".join(parts) in expected:
                return "".join(parts)
            return tuple(c)
        return c
    got_labels = [norm(c) for c in cols]
    if len(got_labels) != len(set(got_labels)):
        fails.append(dict(clause="outputs: each requested variable has exactly one column", observed=[str(c) for c in got_labels]))
    missing = [str(k) for k in expected if k not in got_labels]
    extra = [str(c) for c in got_labels if c not in expected]
    if missing or extra:
        fails.append(dict(clause="outputs: the columns are exactly the requested variables", observed=dict(missing=missing, extra=extra),
                          expected=[str(k) for k in expected]))
        return fails
    for label, path in expected.items():
        got = np.asarray(df.iloc[:, got_labels.index(label)], dtype=float).reshape(len(df.index), -1)[:, 0]
        want = ref[path]
        if got.shape != want.shape or not np.allclose(got, want, rtol=1e-7, atol=1e-10):
            # which variable does this column actually carry?
            carries = [p for p, w in ref.items() if w.shape == got.shape and np.allclose(got, w, rtol=1e-7, atol=1e-10)]
            fails.append(dict(clause="outputs: the column carries the trajectory of the variable named in its label", var=path,
                              label=str(label), observed=dict(carries=carries, last=float(got[-1]) if len(got) else None),
                              expected=float(want[-1]) if len(want) else None))
    return fails


def mdl_override(model, path, value):
    """MDL counterpart of an override addressed to `path` ('all' wildcards; array values one per addressed node in path order)."""
    import json
    m = json.loads(json.dumps(model))        # breaks any sharing between sub-models
    *np_, o, v = path.split("/")
    targets = []

    def walk(mm, prefix):
        for label, node in mm.get("nodes", {}).items():
            segs = prefix + [label]
            if len(segs) == len(np_) and all(a == "all" or a == b for a, b in zip(np_, segs)) and o in node["ops"] \
                    and v in mm["ops"][o]["vars"]:
                targets.append(node)
        for lab, sub in mm.get("circuits", {}).items():
            walk(sub, prefix + [lab])
    walk(m, [])
    is_arr = hasattr(value, "__len__") and len(value) == len(targets)
    for i, node in enumerate(targets):
        node.setdefault("over", {})[f"{o}/{v}"] = float(value[i]) if is_arr else float(value)
    return m, len(targets)


def check_overrides(model, ops, vectorize, seed=0, share_nodes=True):
    """C07-B: apply a sequence of override operations through the real API and to the MDL, then C01 clauses on the result."""
    tpl = mdl.build_templates(model, share_nodes=share_nodes)
    expected = model
    kw = {}
    try:
        for op in ops:
            if op[0] == "update_var":
                val = np.asarray(op[2], dtype=float) if isinstance(op[2], list) else op[2]
                tpl.update_var(node_vars={op[1]: val})
                expected, _ = mdl_override(expected, op[1], op[2])
            elif op[0] == "edge":
                tpl.update_var(edge_vars=[(op[1], op[2], {"weight": op[3]})])
                import copy
                expected = copy.deepcopy(expected)
                hit = [e for e in expected["edges"] if e["src"] == op[1] and e["tgt"] == op[2]]
                hit[0]["w"] = op[3]
            elif op[0] == "node_values":
                kw.setdefault("node_values", {})[op[1]] = np.asarray(op[2], dtype=float) if isinstance(op[2], list) else op[2]
                expected, _ = mdl_override(expected, op[1], op[2])
            else:
                raise ValueError(op)
        comp = compile_model(expected, vectorize=vectorize, tpl=tpl, **kw)
    except Exception as exn:
        return [dict(clause="override operations and compilation succeed on a well-formed request", observed=f"{type(exn).__name__}: {exn}")]
    rng = np.random.default_rng(seed)
    fails = check_vector_field(expected, comp, rng, n_states=2, n_param_draws=0, vectorized=vectorize)
    if vectorize and not fails:
        # parameter values of merged nodes: read them through the returned arguments by frontend name where possible
        pass
    return fails


def snapshot_template(tpl):
    """Deep, comparable description of a CircuitTemplate: equations, variable values, per-node overrides, connectivity."""
    def op_snap(op):
        return dict(name=op.name, equations=list(op.equations), variables={k: repr(v) for k, v in op.variables.items()})

    def node_snap(nt):
        ops = {}
        for op, var in nt.operators.items():
            ops[op.name] = dict(op=op_snap(op), variations={k: repr(v) for k, v in (var or {}).items()})
        return dict(name=nt.name, operators=ops)

    def edge_snap(e):
        src, tgt, tmpl, attrs = e[:4]
        return [src, tgt, node_snap(tmpl) if tmpl is not None else None,
                {k: repr(v) for k, v in sorted(attrs.items())}]
    out = dict(name=tpl.name, nodes={k: node_snap(v) for k, v in tpl.nodes.items()},
               edges=[edge_snap(e) for e in tpl.edges],
               circuits={k: snapshot_template(v) for k, v in tpl.circuits.items()})
    return out


READ_ONLY_OPS = ["get_nodes", "get_edges", "get_edge", "collect_edges", "get_node_template", "getitem", "to_yaml", "deepcopy",
                 "update_template", "get_run_func", "get_jacobian_func", "run", "derive_op_plain", "derive_op_vars", "derive_node",
                 "run_inputs", "derive_op_vars_dict", "compile_sibling_with_override", "derive_circuit_edit_edge", "derive_circuit_from_edgeless"]


def do_read_only(tpl, model, op):
    import copy
    nodes, edges = mdl.flatten(model)
    first = next(iter(nodes))
    if op == "get_nodes":
        tpl.get_nodes(["all"] * len(first.split("/")))
    elif op == "get_edges":
        tpl.get_edges("all", "all")
        if edges:
            sv, tv = edges[0]["src"].split("/"), edges[0]["tgt"].split("/")
            tpl.get_edges("/".join(["all"] * (len(sv) - 2) + sv[-2:]), "/".join(["all"] * (len(tv) - 2) + tv[-2:]))
    elif op == "get_edge":
        if tpl.edges:
            tpl.get_edge(tpl.edges[0][0], tpl.edges[0][1])
    elif op == "collect_edges":
        tpl.collect_edges()
    elif op == "get_node_template":
        tpl.get_node_template(first)
    elif op == "getitem":
        tpl[first.split("/")[0]]
    elif op == "to_yaml":
        tpl.to_yaml("dump_tpl")
    elif op == "deepcopy":
        copy.deepcopy(tpl)
    elif op == "update_template":
        tpl.update_template(name="derived")
    elif op == "get_run_func":
        tpl.get_run_func("f_ro", step_size=1e-3, backend="default", vectorize=False, verbose=False, clear=True, in_place=False,
                         float_precision="float64", file_name="ro_mod")
    elif op == "get_jacobian_func":
        tpl.get_jacobian_func("j_ro", step_size=1e-3, backend="default", vectorize=False, verbose=False, clear=True, in_place=False,
                              float_precision="float64", file_name="ro_jac")
    elif op == "run":
        tpl.run(simulation_time=0.2, step_size=0.05, solver="euler", outputs={"o": mdl.state_vars(model)[0]}, vectorize=False,
                verbose=False, clear=True, in_place=False, float_precision="float64")
    elif op == "derive_circuit_edit_edge":
        # a circuit DERIVED with update_template(edges=[one more edge]); an inherited edge is then changed on the variant only
        if tpl.edges:
            e0 = tpl.edges[0]
            variant = tpl.update_template(name="variant", edges=[(e0[0], e0[1], None, {"weight": 0.123})])
            variant.update_var(edge_vars=[(e0[0], e0[1], {"weight": 7.0})])
    elif op == "derive_circuit_from_edgeless":
        # deriving a circuit from one WITHOUT edges must not give the base any edge
        from pyrates import CircuitTemplate
        if tpl.nodes:
            base = CircuitTemplate(name="edgeless", nodes=dict(tpl.nodes))
            labs = list(tpl.nodes)
            nt = tpl.nodes[labs[0]]
            op0 = next(iter(nt.operators))
            svs = [k for k, v in op0.variables.items() if (isinstance(v, str) and v.startswith(("output", "variable"))) or (isinstance(v, dict) and v.get("vtype") in ("output", "variable", "state_var"))]
            ins = [k for k, v in op0.variables.items() if (isinstance(v, str) and v.startswith("input")) or (isinstance(v, dict) and v.get("vtype") == "input")]
            if svs and ins and len(labs) > 1:
                base.update_template(name="with_edge", edges=[(f"{labs[0]}/{op0.name}/{svs[0]}", f"{labs[1]}/{op0.name}/{ins[0]}", None, {"weight": 2.0})])
                if base.edges:
                    raise AssertionError(f"deriving a circuit added {len(base.edges)} edge(s) to its edgeless base")
    elif op == "compile_sibling_with_override":
        # ANOTHER circuit built from the same OperatorTemplate object, whose node overrides a value, is compiled (caches kept, the
        # default of get_run_func): neither template is touched and the first one's results must not change
        from pyrates import CircuitTemplate, NodeTemplate
        nt = tpl.get_node_template(first)
        op0 = next(iter(nt.operators))
        consts = [k for k, v in op0.variables.items() if not isinstance(v, str) and not (isinstance(v, dict) and v.get("vtype") != "constant")]
        sib = CircuitTemplate(name="sibling", nodes={"s1": NodeTemplate(name="sibling_node", operators={op0: {consts[-1]: 7.5}}, path=None)})
        sib.get_run_func("f_sib", step_size=1e-3, backend="default", vectorize=False, verbose=False, clear=False, in_place=False,
                         float_precision="float64", file_name="sib_mod")
    elif op in ("derive_op_plain", "derive_op_vars", "derive_node", "derive_op_vars_dict"):
        # loading / building a DERIVED template must not touch its base
        nt = tpl.get_node_template(first)
        for cand in nodes:                      # prefer a node template that carries per-node overrides
            nt_c = tpl.get_node_template(cand)
            if any(v for v in nt_c.operators.values()):
                nt = nt_c
                break
        op0 = next(iter(nt.operators))
        consts = [k for k, v in op0.variables.items() if not isinstance(v, str) and not (isinstance(v, dict) and v.get("vtype") != "constant")]
        if op == "derive_op_plain":
            op0.update_template(name="derived_plain", equations={"replace": {consts[0]: "0.5"}})
        elif op == "derive_op_vars":
            op0.update_template(name="derived_vars", equations={"replace": {consts[0]: "0.5"}},
                                variables={consts[-1]: 9.0} if len(consts) > 1 else {next(iter(op0.variables)): "output(0.1)"})
        elif op == "derive_op_vars_dict":
            # the update given in the explicit dictionary form of a variable definition
            op0.update_template(name="derived_vars_dict",
                                variables={consts[-1]: {"vtype": "constant", "value": 9.0, "dtype": "float", "shape": (1,)}})
        else:
            nt.update_template(name="derived_node", operators={op0: {consts[-1]: 7.5}})
    elif op == "run_inputs":
        node, ops_ = nodes[first]
        o = node["ops"][0]
        ivs = [v for v, (vt, _) in ops_[o]["vars"].items() if vt == "input"]
        tpl.run(simulation_time=0.2, step_size=0.05, solver="euler", outputs={"o": mdl.state_vars(model)[0]}, vectorize=False,
                verbose=False, clear=True, in_place=False, float_precision="float64",
                inputs={f"{first}/{o}/{ivs[0]}": np.linspace(0.0, 1.0, 4)})
    else:
        raise ValueError(op)


def check_read_only(model, ops, seed=0, dict_vars=False):
    """C14-B: a sequence of read-only / copy-making operations leaves the template and its vector field unchanged."""
    tpl = mdl.build_templates(model, dict_vars=dict_vars)
    before = snapshot_template(tpl)
    fails = []
    for op in ops:
        try:
            do_read_only(tpl, model, op)
        except Exception as exn:
            fails.append(dict(clause=f"read-only operation `{op}` succeeds", observed=f"{type(exn).__name__}: {exn}", op=op))
            return fails
        after = snapshot_template(tpl)
        if after != before:
            diff = _first_diff(before, after)
            fails.append(dict(clause="template unchanged by a read-only operation", op=op, observed=diff))
            return fails
    # same dynamics afterwards: run(in_place=False) twice, identical and equal to the spec trajectory of the model
    try:
        svars = mdl.state_vars(model)
        outs = {f"v{i}": p for i, p in enumerate(svars)}
        kw = dict(simulation_time=0.3, step_size=0.05, solver="euler", outputs=outs, vectorize=False, verbose=False, clear=True,
                  in_place=False, float_precision="float64")
        r1 = tpl.run(**kw)
        r2 = tpl.run(**kw)
        if r1.shape != r2.shape or not np.array_equal(r1.values, r2.values):
            fails.append(dict(clause="run(in_place=False) twice returns identical results", observed=[r1.values[-1].tolist(), r2.values[-1].tolist()]))
        _, ref = mdl.spec_fixed_step(model, 0.3, 0.05, 0.05, "euler")
        for k, p in outs.items():
            got = np.asarray(r1[k], dtype=float).reshape(len(r1.index), -1)[:, 0]
            if got.shape != ref[p].shape or not np.allclose(got, ref[p], rtol=1e-7, atol=1e-10):
                fails.append(dict(clause="dynamics of the template unchanged after read-only operations", var=p,
                                  observed=float(got[-1]), expected=float(ref[p][-1])))
                break
    except Exception as exn:
        fails.append(dict(clause="running the same template object after read-only operations succeeds",
                          observed=f"{type(exn).__name__}: {exn}"))
    return fails


def _first_diff(a, b, path=""):
    if type(a) is not type(b):
        return f"{path}: {a!r} -> {b!r}"
    if isinstance(a, dict):
        for k in sorted(set(a) | set(b), key=str):
            if k not in a or k not in b:
                return f"{path}/{k}: {'added' if k in b else 'removed'} ({str(b.get(k, a.get(k)))[:120]})"
            d = _first_diff(a[k], b[k], f"{path}/{k}")
            if d:
                return d
        return None
    if isinstance(a, list):
        if len(a) != len(b):
            return f"{path}: length {len(a)} -> {len(b)} ({str(b[len(a):] if len(b) > len(a) else a[len(b):])[:160]})"
        for i, (x, y) in enumerate(zip(a, b)):
            d = _first_diff(x, y, f"{path}[{i}]")
            if d:
                return d
        return None
    return None if a == b else f"{path}: {a!r} -> {b!r}"


def expand_input_targets(model, path):
    return expand_path(model, path)


def check_inputs(model, inputs, vectorize, solver="euler", T=1.0, dt=0.05, only_vars=None):
    """C08-B.  inputs: {target path (wildcards allowed): array (N,), (N,1) or (N,n)}."""
    arrs = {k: np.asarray(v, dtype=float) for k, v in inputs.items()}
    per_var = {}
    for path, arr in arrs.items():
        targets = expand_input_targets(model, path)
        a = arr
        if a.ndim == 2 and a.shape[1] == 1:
            a = a[:, 0]
        for i, tpath in enumerate(targets):
            col = a if a.ndim == 1 else a[:, i]
            per_var[tpath] = per_var.get(tpath, 0.0) + col
    try:
        df, outputs, _ = run_model(model, T, dt, None, solver, vectorize, inputs=arrs, **({"method": "RK45", "rtol": 1e-9, "atol": 1e-11} if solver == "scipy" else {}))
    except Exception as exn:
        return [dict(clause="run accepts a well-formed input request", observed=f"{type(exn).__name__}: {exn}")]
    fails = []
    rows = int(round(T / dt))
    if solver in ("euler", "heun"):
        _, ref = mdl.spec_fixed_step(model, T, dt, dt, solver, inputs=per_var)
    else:
        from scipy.integrate import solve_ivp
        svars = mdl.state_vars(model)
        y0 = mdl.initial_state(model)

        def f(t, y):
            ext = {p: float(np.interp(t, np.linspace(0.0, T, len(a)), a)) for p, a in per_var.items()}
            dy, _ = mdl.spec_rhs(model, dict(zip(svars, y)), t=t, ext=ext)
            return [dy[v] for v in svars]
        times = np.arange(rows) * (T / rows)
        sol = solve_ivp(f, (0.0, T), [y0[v] for v in svars], t_eval=times, rtol=1e-11, atol=1e-13, method="DOP853", max_step=dt)
        ref = {v: sol.y[i] for i, v in enumerate(svars)}
    tol = dict(rtol=1e-7, atol=1e-10) if solver != "scipy" else dict(rtol=2e-4, atol=2e-6)
    for key, path in outputs.items():
        if only_vars is not None and path not in only_vars:
            continue
        got = np.asarray(df[key], dtype=float).reshape(len(df.index), -1)[:, 0]
        want = ref[path]
        if got.shape != want.shape or not np.allclose(got, want, **tol):
            bad = int(np.argmax(np.abs(got - want))) if got.shape == want.shape else -1
            fails.append(dict(clause=f"inputs: trajectory equals the spec with the input applied at the right time and unit ({solver})",
                              var=path, row=bad, observed=float(got[bad]) if bad >= 0 else list(got.shape),
                              expected=float(want[bad]) if bad >= 0 else list(want.shape)))
    return fails


def population_to_explicit(ps):
    """Population spec -> explicit MDL (n separately declared nodes, one scalar edge per non-zero matrix entry)."""
    ops = ps["ops"]
    nodes, edges, edge_ops = {}, [], {}
    for pname, p in ps["pops"].items():
        for i in range(p["n"]):
            over = {}
            for key, val in p.get("params", {}).items():
                over[key] = float(val[i]) if isinstance(val, (list, tuple)) and len(val) == p["n"] else float(val)
            nodes[f"{pname}_{i}"] = dict(ops=list(p["ops"]), over=over) if over else dict(ops=list(p["ops"]))
    for c in ps["conns"]:
        sp, so, sv = c["src"].split("/")
        tp, to, tv = c["tgt"].split("/")
        ns, nt = ps["pops"][sp]["n"], ps["pops"][tp]["n"]
        W = c["W"]
        ce = c.get("edge")          # coupling edge template: dict(name, eqs, vars, map={input var: 'source' | 'pop/op/var'})
        if ce:
            edge_ops[ce["name"]] = dict(eqs=ce["eqs"], vars=ce["vars"])
        for i in range(nt):
            for j in range(ns):
                w = float(W[i][j]) if isinstance(W, (list, tuple)) else float(W)
                if w != 0.0:
                    e = dict(src=f"{sp}_{j}/{so}/{sv}", tgt=f"{tp}_{i}/{to}/{tv}", w=w, d=c.get("d"), s=c.get("s"))
                    if ce:
                        # evaluated per (target, source) pair: 'source' inputs read unit j of the source, the others unit i of the target
                        e["tpl"] = ce["name"]
                        e["post"] = {ev: f"{tp}_{i}/{m.split('/')[1]}/{m.split('/')[2]}" for ev, m in ce["map"].items() if m != "source"}
                    edges.append(e)
    out = dict(ops=ops, nodes=nodes, edges=edges)
    if edge_ops:
        out["edge_ops"] = edge_ops
    return out


def build_population_circuit(ps):
    from pyrates import OperatorTemplate, NodeTemplate, CircuitTemplate
    from pyrates.frontend.template.population import PopulationTemplate, Connectivity
    ops = {}
    for name, op in ps["ops"].items():
        eqs = [mdl.eq_str(l, k, t) for l, k, t in op["eqs"]]
        variables = {v: mdl.var_decl(vt, d) for v, (vt, d) in op["vars"].items()}
        ops[name] = OperatorTemplate(name=name, equations=eqs, variables=variables, path=None)
    pops = {}
    for pname, p in ps["pops"].items():
        nt = NodeTemplate(name=f"nt_{pname}", operators=[ops[o] for o in p["ops"]], path=None)
        params = {k: (np.asarray(v, dtype=float) if isinstance(v, (list, tuple)) else v) for k, v in p.get("params", {}).items()}
        pops[pname] = PopulationTemplate(name=pname, node=nt, n=p["n"], params=params or None)
    conns = []
    for c in ps["conns"]:
        kw = {}
        if c.get("d") is not None:
            kw["delays"] = c["d"]
        if c.get("s") is not None:
            kw["spread"] = c["s"]
        W = np.asarray(c["W"], dtype=float) if isinstance(c["W"], (list, tuple)) else float(c["W"])
        ce = c.get("edge")
        if ce:
            from pyrates import EdgeTemplate
            if ce.get("ops_split"):
                # the same coupling written as several chained operators, in the DECLARATION order given (not necessarily evaluation order)
                eops = [OperatorTemplate(name=o_["name"], equations=[mdl.eq_str(l, k, t) for l, k, t in o_["eqs"]],
                                         variables={v: mdl.var_decl(vt, d) for v, (vt, d) in o_["vars"].items()}, path=None) for o_ in ce["ops_split"]]
            else:
                eops = [OperatorTemplate(name=ce["name"], equations=[mdl.eq_str(l, k, t) for l, k, t in ce["eqs"]],
                                         variables={v: mdl.var_decl(vt, d) for v, (vt, d) in ce["vars"].items()}, path=None)]
            kw["edge"] = EdgeTemplate(name=f"et_{ce['name']}", operators=eops, path=None)
            kw["edge_var_map"] = dict(ce["map"])
        conns.append(Connectivity(source=c["src"], target=c["tgt"], weights=W, **kw))
    return CircuitTemplate(name="popnet", populations=pops, connections=conns)


def check_population(ps, T=0.5, dt=0.05, solver="euler", explicit_route=False):
    """C16-B: the Population/Connectivity circuit equals the explicit node-and-edge network, unit by unit.
    explicit_route: additionally the explicit network is built and run THROUGH PyRates (scalar edges, vectorize=False) and must give
    the same trajectories as the population circuit (the same delay / spread meaning on both kinds of edges)."""
    explicit = population_to_explicit(ps)
    adaptive = solver == "scipy"
    if adaptive:
        # reference for an adaptive solver: Heun iterates of the explicit network on a 50 times finer grid, sampled every dt
        _, ref = mdl.spec_fixed_step(explicit, T, dt / 50.0, dt, "heun")
    else:
        _, ref = mdl.spec_fixed_step(explicit, T, dt, dt, solver)
    fails = []
    try:
        tpl = build_population_circuit(ps)
        outs = {}
        for pname, p in ps["pops"].items():
            for o in p["ops"]:
                for l, k, _ in ps["ops"][o]["eqs"]:
                    if k == "de":
                        outs[f"{pname}.{o}.{l}"] = f"{pname}/{o}/{l}"
        df = tpl.run(simulation_time=T, step_size=dt, solver=solver, outputs=outs, verbose=False, clear=bool(SEQUENCE_MODE), in_place=True,
                     float_precision="float64", **(dict(method="RK45", rtol=1e-9, atol=1e-11) if adaptive else {}))
    except Exception as exn:
        return [dict(clause="the population circuit compiles and runs", observed=f"{type(exn).__name__}: {exn}")]
    tol = dict(rtol=1e-4, atol=1e-6) if adaptive else dict(rtol=1e-7, atol=1e-10)
    def norm(c):
        if isinstance(c, tuple):
            parts = [x for x in c if not (x is None or (isinstance(x, float) and x != x))]
            if len(parts) > 2 and all(isinstance(x, str) and len(x) == 1 for x in parts):
                return "".join(parts)
            return tuple(parts)
        return c
    labels = [norm(c) for c in df.columns]
    for key, path in outs.items():
        pname, o, v = path.split("/")
        n = ps["pops"][pname]["n"]
        for i in range(n):
            want_label = (key, i) if n > 1 else key
            if want_label not in labels and n == 1 and (key, 0) in labels:
                want_label = (key, 0)
            if want_label not in labels:
                fails.append(dict(clause="population output: one column per unit", var=f"{path}[{i}]", observed=[str(c) for c in labels][:8]))
                return fails
            col = df.iloc[:, labels.index(want_label)]
            got = np.asarray(col, dtype=float).reshape(len(df.index), -1)[:, 0]
            want = ref[f"{pname}_{i}/{o}/{v}"]
            if got.shape != want.shape or not np.allclose(got, want, **tol):
                bad = int(np.argmax(np.abs(got - want))) if got.shape == want.shape else -1
                fails.append(dict(clause="population unit equals the explicit network's node", var=f"{pname}_{i}/{o}/{v}", row=bad,
                                  observed=float(got[bad]) if bad >= 0 else list(got.shape), expected=float(want[bad]) if bad >= 0 else list(want.shape)))
    if explicit_route and not fails and not adaptive:
        try:
            clear_all_caches()
            df2, outs2, _ = run_model(explicit, T, dt, None, solver, False)
        except Exception as exn:
            return [dict(clause="the explicit node-and-edge network compiles and runs", observed=f"{type(exn).__name__}: {exn}")]
        for key2, path2 in outs2.items():
            got2 = np.asarray(df2[key2], dtype=float).reshape(len(df2.index), -1)[:, 0]
            want2 = ref[path2]
            if got2.shape != want2.shape or not np.allclose(got2, want2, **tol):
                bad = int(np.argmax(np.abs(got2 - want2))) if got2.shape == want2.shape else -1
                fails.append(dict(clause="the explicit network with one scalar edge per matrix entry (built through PyRates) has the same dynamics as the "
                                         "population circuit", var=path2, row=bad, observed=float(got2[bad]) if bad >= 0 else list(got2.shape),
                                  expected=float(want2[bad]) if bad >= 0 else list(want2.shape)))
                break
    return fails


def clear_all_caches():
    from pyrates.frontend.template.operator import OperatorTemplate
    from pyrates.ir.node import clear_ir_caches
    from pyrates.ir.circuit import in_edge_indices, in_edge_vars
    from pyrates.frontend.template import template_cache
    OperatorTemplate.cache.clear()
    clear_ir_caches()
    in_edge_indices.clear()
    in_edge_vars.clear()
    template_cache.clear()


def delays_of(model):
    out = []

    def walk(t):
        if isinstance(t, list):
            if t and t[0] == "past":
                out.append(float(t[2]))
            for x in t:
                walk(x)
    for op in model.get("ops", {}).values():
        for _, _, tr in op["eqs"]:
            walk(tr)
    nodes, edges = mdl.flatten(model)
    out += [float(e["d"]) for e in edges if e.get("d") is not None]
    return out


def check_jacobian(model, seed=0, sparse=False, backend="default", n_states=2):
    """C12-B: J from get_jacobian_func == central differences of the get_run_func field, same ordering."""
    rng = np.random.default_rng(seed)
    kw = dict(step_size=1e-3, backend=backend, vectorize=False, verbose=False, clear=True, in_place=False, float_precision="float64")
    try:
        tj = mdl.build_templates(model)
        jf, jargs, jnames, jmap = tj.get_jacobian_func("jac_fn", sparse=sparse, file_name="jac_mod", **kw)
    except Exception as exn:
        return [dict(clause="get_jacobian_func returns a function for a scalar model", observed=f"{type(exn).__name__}: {exn}")]
    clear_all_caches()
    try:
        tr = mdl.build_templates(model)
        rf, rargs, rnames, rmap = tr.get_run_func("run_fn", file_name="run_mod", **kw)
    except Exception as exn:
        return [dict(clause="HARNESS", observed=f"get_run_func failed: {type(exn).__name__}: {exn}")]
    fails = []
    if dict(jmap) != dict(rmap):
        return [dict(clause="jacobian: same state ordering as get_run_func", observed=dict(jmap), expected=dict(rmap))]
    delayed = "hist" in rnames
    n = len(np.asarray(rargs[1]).reshape(-1))
    for _ in range(n_states):
        y = np.round(rng.uniform(-1, 1, size=n), 3)
        t0 = 0.0
        if not delayed:
            def f(yy):
                return np.array(rf(t0, np.array(yy, dtype=float), *rargs[2:]), dtype=float, copy=True).ravel()
            try:
                J = jf(t0, y.copy(), *jargs[2:])
            except Exception as exn:
                return fails + [dict(clause="jacobian function is callable at every state", observed=f"{type(exn).__name__}: {exn}")]
            J = np.asarray(J.todense() if hasattr(J, "todense") else J, dtype=float)
            FD = np.zeros((n, n))
            h = 1e-6
            for j in range(n):
                yp, ym = y.copy(), y.copy()
                yp[j] += h
                ym[j] -= h
                FD[:, j] = (f(yp) - f(ym)) / (2 * h)
            if J.shape != FD.shape or not np.allclose(J, FD, rtol=1e-5, atol=1e-7):
                bad = np.unravel_index(int(np.argmax(np.abs(J - FD))), FD.shape) if J.shape == FD.shape else None
                fails.append(dict(clause="jacobian: J == d f / d y (central differences of the get_run_func field)",
                                  entry=[int(b) for b in bad] if bad else None,
                                  observed=float(J[bad]) if bad else list(J.shape), expected=float(FD[bad]) if bad else list(FD.shape)))
                return fails
        else:
            hvec = np.round(rng.uniform(-1, 1, size=n), 3)
            hi = list(rnames).index("hist")

            def fld(yy, hh):
                args = list(rargs)
                args[hi] = lambda tq: hh
                return np.array(rf(t0, np.array(yy, dtype=float), *args[2:]), dtype=float, copy=True).ravel()
            jargs2 = list(jargs)
            if "hist" in jnames:
                jargs2[list(jnames).index("hist")] = lambda tq: hvec
            try:
                res = jf(t0, y.copy(), *jargs2[2:])
            except Exception as exn:
                return fails + [dict(clause="jacobian function is callable at every state (delayed model)", observed=f"{type(exn).__name__}: {exn}")]
            J0, Jt = res
            J0 = np.asarray(J0.todense() if hasattr(J0, "todense") else J0, dtype=float)
            h = 1e-6
            FD0, FDh = np.zeros((n, n)), np.zeros((n, n))
            for j in range(n):
                yp, ym = y.copy(), y.copy()
                yp[j] += h
                ym[j] -= h
                FD0[:, j] = (fld(yp, hvec) - fld(ym, hvec)) / (2 * h)
                hp, hm = hvec.copy(), hvec.copy()
                hp[j] += h
                hm[j] -= h
                FDh[:, j] = (fld(y, hp) - fld(y, hm)) / (2 * h)
            if not np.allclose(J0, FD0, rtol=1e-5, atol=1e-7):
                bad = np.unravel_index(int(np.argmax(np.abs(J0 - FD0))), FD0.shape)
                fails.append(dict(clause="jacobian (delayed model): J0 == d f / d y(t)", entry=[int(b) for b in bad],
                                  observed=float(J0[bad]), expected=float(FD0[bad])))
            Js = sum(np.asarray(m.todense() if hasattr(m, "todense") else m, dtype=float) for m in Jt) if len(Jt) else np.zeros((n, n))
            if not np.allclose(Js, FDh, rtol=1e-5, atol=1e-7):
                bad = np.unravel_index(int(np.argmax(np.abs(Js - FDh))), FDh.shape)
                fails.append(dict(clause="jacobian (delayed model): sum of history matrices == d f / d y(t - tau) (same history vector for every delay)",
                                  entry=[int(b) for b in bad], observed=float(Js[bad]), expected=float(FDh[bad])))
            # the Jacobian evaluated with a REAL history object (DDEHistory holding a non-constant recorded trajectory) equals the one
            # evaluated with a plain callable that returns the same values as fresh arrays (several delays are looked up before use)
            if not fails and "hist" in jnames and len(set(delays_of(model))) > 1:
                try:
                    from pyrates.backend.base.base_backend import DDEHistory
                    D = DDEHistory(np.array(hvec, dtype=float), t0=-2.0)
                    for kk in range(1, 41):
                        tk = -2.0 + 0.05 * kk
                        D.update(tk, np.array([hvec[i] + 0.4 * np.sin(1.3 * tk + i) for i in range(n)], dtype=float))
                    ja = list(jargs)
                    ja[list(jnames).index("hist")] = D
                    jb = list(jargs)
                    jb[list(jnames).index("hist")] = lambda tq: np.array(D(tq), dtype=float, copy=True)
                    ra = jf(t0, y.copy(), *ja[2:])
                    rb = jf(t0, y.copy(), *jb[2:])
                    dense = lambda m_: np.asarray(m_.todense() if hasattr(m_, "todense") else m_, dtype=float)
                    pa = [dense(ra[0])] + [dense(m_) for m_ in ra[1]]
                    pb = [dense(rb[0])] + [dense(m_) for m_ in rb[1]]
                    if len(pa) != len(pb) or any(not np.allclose(a_, b_, rtol=1e-9, atol=1e-12) for a_, b_ in zip(pa, pb)):
                        fails.append(dict(clause="jacobian (delayed model): the same matrices whether the history is a DDEHistory object or a callable "
                                                 "returning the same values", observed=[m_.tolist() for m_ in pa][:3], expected=[m_.tolist() for m_ in pb][:3]))
                except Exception as exn:
                    fails.append(dict(clause="jacobian function is callable with a DDEHistory object as history", observed=f"{type(exn).__name__}: {exn}"))
            # one matrix per DISTINCT delay: perturb the history only at t0 - tau_k; the returned matrices must be exactly these
            # (compared as a multiset: no assumption on their order)
            delays = sorted(set(delays_of(model)))
            if not fails and len(delays) > 1:
                def fld_k(yy, hh, tau):
                    args = list(rargs)
                    args[hi] = lambda tq: hh if abs(tq - (t0 - tau)) < 1e-9 else hvec
                    return np.array(rf(t0, np.array(yy, dtype=float), *args[2:]), dtype=float, copy=True).ravel()
                FDk = []
                for tau in delays:
                    M = np.zeros((n, n))
                    for j in range(n):
                        hp, hm = hvec.copy(), hvec.copy()
                        hp[j] += h
                        hm[j] -= h
                        M[:, j] = (fld_k(y, hp, tau) - fld_k(y, hm, tau)) / (2 * h)
                    FDk.append(M)
                got = [np.asarray(m.todense() if hasattr(m, "todense") else m, dtype=float) for m in Jt]
                left = list(range(len(FDk)))
                ok = len(got) == len(FDk)
                for g in got:
                    hit = [k for k in left if g.shape == FDk[k].shape and np.allclose(g, FDk[k], rtol=1e-5, atol=1e-7)]
                    if not hit:
                        ok = False
                        break
                    left.remove(hit[0])
                if not ok:
                    fails.append(dict(clause="jacobian (delayed model): one matrix per distinct delay, each == d f / d y(t - tau_k)",
                                      observed=[g.round(4).tolist() for g in got][:3], expected=[m.round(4).tolist() for m in FDk][:3]))
            if fails:
                return fails
    return fails


def check_frontends(model, route, vectorize, seed=0, style=0):
    """C15-B: the model defined through `route` has the spec's vector field.
    route: 'yaml' (YAML templates), 'roundtrip' (Python -> to_yaml -> from_yaml), 'yaml-roundtrip' (YAML -> to_yaml -> from_yaml)."""
    from pyrates import CircuitTemplate
    try:
        if route == "yaml":
            tpl = CircuitTemplate.from_yaml(mdl.write_yaml(model, style=style))
        elif route == "roundtrip":
            t0 = mdl.build_templates(model, style=style)
            t0.to_yaml("rt/dumped.yaml")
            tpl = CircuitTemplate.from_yaml(f"rt/dumped/{t0.name}")
        elif route == "yaml-roundtrip":
            t0 = CircuitTemplate.from_yaml(mdl.write_yaml(model, style=style))
            t0.to_yaml("rt2/dumped.yaml")
            tpl = CircuitTemplate.from_yaml(f"rt2/dumped/{t0.name}")
        elif route in ("python-list-update", "python-list-update-roundtrip"):
            # the Python route the documentation shows: node templates defined by a LIST of operators (no overrides), per-node values
            # set afterwards with update_var; (…-roundtrip: then written to YAML and loaded again)
            import json as _json
            bare = _json.loads(_json.dumps(model))
            overs = []

            def strip(mm, prefix):
                for lab, nd in mm.get("nodes", {}).items():
                    for k_, v_ in (nd.pop("over", None) or {}).items():
                        overs.append((f"{prefix}{lab}/{k_}", v_))
                for lab, sub in mm.get("circuits", {}).items():
                    strip(sub, f"{prefix}{lab}/")
            strip(bare, "")
            tpl = mdl.build_templates(bare, style=style, share_nodes=False)
            for path_, val_ in overs:
                tpl.update_var(node_vars={path_: val_})
            if route.endswith("roundtrip"):
                tpl.to_yaml("rt3/dumped.yaml")
                tpl = CircuitTemplate.from_yaml(f"rt3/dumped/{tpl.name}")
        else:
            raise ValueError(route)
        comp = compile_model(model, vectorize=vectorize, tpl=tpl)
    except Exception as exn:
        return [dict(clause=f"the model can be defined / written / re-loaded through route `{route}`", observed=f"{type(exn).__name__}: {exn}")]
    rng = np.random.default_rng(seed)
    fails = check_vector_field(model, comp, rng, n_states=2, n_param_draws=0, vectorized=vectorize)
    for f in fails:
        f["clause"] = f"[{route}] " + f["clause"]
    return fails


def check_grid_search(model, grid, param_map, outputs, vectorize=True, permute=False, as_frame=None, inputs=None, T=0.5, dt=0.05, as_path=False):
    """C17-B: every row of the parameter table <-> the time series of an individual run with those values.
    as_path: the circuit is handed over as the path of a YAML definition (string) instead of a template object."""
    import pandas as pd
    from pyrates.utility import grid_search
    tpl = mdl.write_yaml(model) if as_path else mdl.build_templates(model)
    g = grid
    if as_frame is not None:
        g = pd.DataFrame(grid)
        g.index = as_frame                      # a non-default index (sorted / shuffled / filtered table)
    try:
        res, table = grid_search(circuit_template=tpl, param_grid=g if as_frame is not None else dict(grid), param_map=param_map,
                                 step_size=dt, simulation_time=T, outputs=dict(outputs), inputs={k_: np.asarray(v_, dtype=float) for k_, v_ in inputs.items()} if inputs else None,
                                 permute_grid=permute, vectorize=vectorize, solver="euler", verbose=False, clear=True,
                                 float_precision="float64")
    except Exception as exn:
        return [dict(clause="grid_search returns a result for a well-formed request", observed=f"{type(exn).__name__}: {exn}")]
    fails = []
    n_rows = len(table.index)
    expected_rows = int(np.prod([len(v) for v in grid.values()])) if permute else len(next(iter(grid.values())))
    if n_rows != expected_rows:
        return [dict(clause="grid_search: one result per row of the (linearised / permuted) grid", observed=n_rows, expected=expected_rows)]
    seen_values = set()
    for i_row, cname in enumerate(table.index):
        row = {k: float(table.loc[cname, k]) for k in table.columns}
        seen_values.add(tuple(sorted(row.items())))
        m2 = model
        for key, val in row.items():
            pm = param_map[key]
            if "nodes" in pm:
                for nname in pm["nodes"]:
                    for v in pm["vars"]:
                        m2, _ = mdl_override(m2, f"{nname}/{v}", val)
            else:
                import json
                m2 = json.loads(json.dumps(m2))
                for edge in pm["edges"]:
                    hit = [e for e in m2["edges"] if e["src"] == edge[0] and e["tgt"] == edge[1]]
                    for attr in pm["vars"]:
                        hit[edge[2] if len(edge) > 2 else 0][{"weight": "w", "delay": "d", "spread": "s"}[attr]] = val
        per_var = None
        if inputs:
            per_var = {}
            for path, arr in inputs.items():
                for tp in expand_path(m2, path):
                    a_ = np.asarray(arr, dtype=float)
                    per_var[tp] = a_[:, i_row] if a_.ndim == 2 else a_         # a 2-D input: one column per grid row, in row order
        _, ref = mdl.spec_fixed_step(m2, T, dt, dt, "euler", inputs=per_var)
        for key, path in outputs.items():
            for target in expand_path(model, path):
                *ns, o, v = target.split("/")
                cols = [c for c in res.columns if isinstance(c, tuple) and c[0] == key and cname in c and f"{o}/{v}" in c
                        and all(n_ in c for n_ in ns)]
                if len(cols) != 1:
                    fails.append(dict(clause="grid_search: each result is labelled with the key the parameter table maps to its values",
                                      observed=[str(c) for c in res.columns][:6], expected=f"one column for ({key}, {cname}, {target})"))
                    return fails
                got = np.asarray(res[cols[0]], dtype=float).reshape(len(res.index), -1)[:, 0]
                want = ref[target]
                if got.shape != want.shape or not np.allclose(got, want, rtol=1e-6, atol=1e-9):
                    fails.append(dict(clause="grid_search: the series under a key equals the individual run with that row's values",
                                      var=target, circuit=str(cname), row_values=row,
                                      observed=float(got[-1]) if len(got) else None, expected=float(want[-1]) if len(want) else None))
                    return fails
    # the table holds exactly the grid's rows
    if permute:
        import itertools
        want_rows = {tuple(sorted(zip(grid.keys(), map(float, combo)))) for combo in itertools.product(*grid.values())}
    else:
        want_rows = {tuple(sorted((k, float(grid[k][i])) for k in grid)) for i in range(expected_rows)}
    if seen_values != want_rows:
        fails.append(dict(clause="grid_search: the parameter table holds exactly the rows of the grid", observed=sorted(seen_values)[:4], expected=sorted(want_rows)[:4]))
    return fails


def compile_two_stage(model, dt, vectorize=False):
    """The documented two-stage route: CircuitTemplate.apply(...) with its defaults (adaptive_steps left unset), then
    CircuitIR.get_run_func on the intermediate representation."""
    tpl = mdl.build_templates(model)
    if SEQUENCE_MODE:
        _SEQ_TEMPLATES.append(tpl)
    tpl.apply(step_size=dt, vectorize=vectorize, verbose=False, backend="default", float_precision="float64")
    ir = tpl.intermediate_representation
    func, args, names, smap_b = ir.get_run_func("vf2", file_name="vf2_mod")
    smap, fnames = {}, []
    for v, idx in smap_b.items():
        smap[ir.get_frontend_varname(v)] = idx
    for a in names:
        try:
            fnames.append(ir.get_frontend_varname(a))
        except Exception:
            fnames.append(a)
    return dict(func=func, args=args, names=tuple(fnames), smap=smap, tpl=tpl, backend="default")


def check_dde_field(model, solver, seed=0, dt=0.01, vectorize=False, two_stage=False):
    """C10-B1: the compiled function evaluates each delayed term as component x of hist(t - tau) (t in time units)."""
    rng = np.random.default_rng(seed)
    try:
        comp = compile_two_stage(model, dt, vectorize) if two_stage else compile_model(model, vectorize=vectorize, solver=solver, step_size=dt)
    except Exception as exn:
        return [dict(clause="get_run_func returns a function for a delayed model", observed=f"{type(exn).__name__}: {exn}")]
    names = list(comp["names"])
    if "hist" not in names:
        return [dict(clause="delayed model: the compiled function takes a history argument", observed=names[:6])]
    svars = mdl.state_vars(model)
    try:
        pos = positions(comp, model)
    except Exception as exn:
        return [dict(clause="layout: every declared state variable has a position", observed=f"{type(exn).__name__}: {exn}")]
    n = len(np.asarray(comp["args"][1]).reshape(-1))
    hi = names.index("hist")
    coef = np.round(rng.uniform(0.5, 1.5, size=n), 3)

    def H(tq):
        return np.array([np.sin(coef[i] * tq + i) for i in range(n)], dtype=float)
    fails = []
    for k in (3, 40, 125):
        t_units = k * dt if solver in ("euler", "heun") else 0.37 * k
        t_arg = k if solver in ("euler", "heun") else t_units
        yv = np.round(rng.uniform(-1, 1, size=n), 3)
        args = list(comp["args"])
        args[hi] = H
        try:
            got = np.array(comp["func"](t_arg, yv.copy(), *args[2:]), dtype=float, copy=True)
        except Exception as exn:
            return [dict(clause="delayed model: function callable with a user-supplied history", observed=f"{type(exn).__name__}: {exn}")]
        want, _ = mdl.spec_rhs(model, {v: float(yv[pos[v]]) for v in svars}, t=t_units,
                               hist=lambda tq, path: float(H(tq)[pos[path]]))
        for v in svars:
            if not close(got[pos[v]], want[v], 1e-7, 1e-9):
                fails.append(dict(clause=f"delayed terms read component x of hist(t - tau) with t in time units ({solver})", var=v, t=t_units,
                                  observed=float(got[pos[v]]), expected=float(want[v])))
        if fails:
            return fails
    return fails


def method_of_steps(model, T, h=1e-3):
    """Reference DDE solution (RK4, linear interpolation of the computed trajectory, constant pre-history)."""
    svars = mdl.state_vars(model)
    y0 = mdl.initial_state(model)
    ts = [0.0]
    ys = [np.array([y0[v] for v in svars])]

    def hist(tq, path):
        j = svars.index(path)
        if tq <= 0:
            return ys[0][j]
        if tq >= ts[-1]:
            return ys[-1][j]
        i = int(tq / h)
        i = min(i, len(ts) - 2)
        a = (tq - ts[i]) / h
        return ys[i][j] + a * (ys[i + 1][j] - ys[i][j])

    def f(t, y):
        dy, _ = mdl.spec_rhs(model, dict(zip(svars, y)), t=t, hist=hist)
        return np.array([dy[v] for v in svars])
    n = int(round(T / h))
    for i in range(n):
        t, y = ts[-1], ys[-1]
        k1 = f(t, y)
        k2 = f(t + h / 2, y + h / 2 * k1)
        k3 = f(t + h / 2, y + h / 2 * k2)
        k4 = f(t + h, y + h * k3)
        ys.append(y + h / 6 * (k1 + 2 * k2 + 2 * k3 + k4))
        ts.append((i + 1) * h)
    return np.array(ts), np.array(ys), svars


def check_dde_run(model, solver, T=2.0, dt=1e-3, dts=0.05, precision="float64", method=None):
    """C10-B2: run converges to the solution of the DDE with constant pre-history."""
    try:
        kw = dict(rtol=1e-8, atol=1e-10) if solver == "scipy" else {}
        if method:
            kw["method"] = method      # an explicitly chosen scheme must not change which history the delayed terms read
        df, outputs, _ = run_model(model, T, dt, dts, solver, False, **kw)
    except Exception as exn:
        return [dict(clause="run returns a result for a delayed model", observed=f"{type(exn).__name__}: {exn}")]
    ts, ys, svars = method_of_steps(model, T, h=1e-3)
    fails = []
    tol = 2e-3 if solver == "scipy" else 2e-2
    times = np.asarray(df.index, dtype=float)
    for key, path in outputs.items():
        got = np.asarray(df[key], dtype=float).reshape(len(df.index), -1)[:, 0]
        want = np.interp(times, ts, ys[:, svars.index(path)])
        scale = max(1.0, float(np.max(np.abs(want))))
        if got.shape != want.shape or float(np.max(np.abs(got - want))) > tol * scale:
            bad = int(np.argmax(np.abs(got - want)))
            fails.append(dict(clause=f"run of a delayed model converges to the method-of-steps solution ({solver})", var=path,
                              t=float(times[bad]), observed=float(got[bad]), expected=float(want[bad])))
    return fails


def rename_var(tree, old, new):
    if tree[0] == "var":
        return ["var", new] if tree[1] == old else tree
    if tree[0] == "num":
        return tree
    if tree[0] == "pow":
        return ["pow", rename_var(tree[1], old, new), tree[2]]
    if tree[0] == "call":
        return ["call", tree[1]] + [rename_var(a, old, new) for a in tree[2:]]
    if tree[0] == "past":
        return tree
    return [tree[0]] + [rename_var(a, old, new) for a in tree[1:]]


def check_expr_eval(tree, values, style=0, backend="default"):
    """C05-B1: direct evaluation of the parsed expression (ExpressionParser + ComputeGraph.eval_node) == tree evaluator."""
    from pyrates.backend.parser import ExpressionParser
    from pyrates.backend.computegraph import ComputeGraph
    tree = rename_var(tree, "x", "xq")          # a bare expression is assigned to the default left-hand side `x`
    vals = {("xq" if k == "x" else k): v for k, v in values.items()}
    expr = mdl.to_str(tree, style)
    want = mdl.ev(tree, vals)
    try:
        cg = ComputeGraph(backend=backend, **({} if backend == "default" else {"float_precision": "float64"}))
        args = {k: {"vtype": "constant", "value": np.float64(v), "dtype": "float64", "shape": ()} for k, v in vals.items()}
        ExpressionParser(expr_str=expr, args=args, cg=cg).parse_expr()
        got = cg.eval_node(cg.var_updates["non-DEs"]["x"])
    except Exception as exn:
        return [dict(clause="expression parses and evaluates (direct evaluation path)", expr=expr, observed=f"{type(exn).__name__}: {exn}")]
    if not close(np.asarray(got, dtype=float).squeeze(), want, 1e-9, 1e-11):
        return [dict(clause="direct evaluation of the parsed expression equals the arithmetic value", expr=expr,
                     observed=float(np.asarray(got).squeeze()), expected=float(want))]
    # ... for ALL argument values: change the values in place and evaluate the same parsed expression again
    try:
        vals2 = {k: round(v * 0.5 + 0.37, 4) for k, v in vals.items()}
        for k, v in vals2.items():
            try:
                cg.get_var(k).set_value(np.asarray(np.float64(v)))
            except KeyError:
                vals2[k] = vals[k]            # variable does not occur in the expression
        want2 = mdl.ev(tree, vals2)
        got2 = cg.eval_node(cg.var_updates["non-DEs"]["x"])
        if not close(np.asarray(got2, dtype=float).squeeze(), want2, 1e-9, 1e-11):
            return [dict(clause="direct evaluation follows the current argument values (second evaluation after set_value)", expr=expr,
                         observed=float(np.asarray(got2).squeeze()), expected=float(want2))]
    except Exception as exn:
        return [dict(clause="second direct evaluation after changing argument values succeeds", expr=expr, observed=f"{type(exn).__name__}: {exn}")]
    return []
