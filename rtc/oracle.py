"""Contract wrappers around the real public API (get_run_func / run / get_jacobian_func) with postconditions stated
against the spec functions of rtc.mdl.  Everything here runs inside a forked child (see rtc.runner)."""
import numpy as np

from . import mdl

RTOL, ATOL = 1e-9, 1e-11


def close(a, b, rtol=RTOL, atol=ATOL):
    return bool(np.allclose(np.asarray(a, dtype=float), np.asarray(b, dtype=float), rtol=rtol, atol=atol))


def compile_model(model, vectorize=False, backend="default", inputs=None, style=0, tpl=None, step_size=1e-3, **kw):
    from pyrates import CircuitTemplate  # noqa: F401  (ensures the tree under test is the imported one)
    tpl = tpl if tpl is not None else mdl.build_templates(model, style=style)
    kwargs = dict(func_name="vf", step_size=step_size, backend=backend, vectorize=vectorize, verbose=False,
                  clear=False, in_place=True, float_precision="float64", file_name="vf_mod")
    kwargs.update(kw)
    if inputs:
        kwargs["inputs"] = inputs
    func, args, names, smap = tpl.get_run_func(**kwargs)
    return dict(func=func, args=args, names=names, smap=smap, tpl=tpl)


def positions(comp, model, var_paths=None):
    """{frontend state variable: position in y} through the API the user has: the returned map when it names the
    variable, otherwise get_variable_positions (vectorised circuits)."""
    out = {}
    smap = comp["smap"]
    tpl = comp["tpl"]
    for v in (var_paths or mdl.state_vars(model)):
        if v in smap and not isinstance(smap[v], tuple):
            out[v] = int(smap[v])
            continue
        # get_variable_positions answers with an index RELATIVE to the backend variable on a template that has not
        # cached a state layout (that is how run() uses it); get_run_func caches one in _state_var_indices, after
        # which the same call mixes absolute and relative answers.  Ask the question the way run() does.
        saved = tpl._state_var_indices
        tpl._state_var_indices = {}
        try:
            idx_map, var_map = tpl.get_variable_positions({"k": v})
        finally:
            tpl._state_var_indices = saved
        bk = var_map["k"]
        rng = smap[bk]
        idx = idx_map["k"]
        idx = int(np.asarray(idx).squeeze()) if np.size(idx) == 1 else None
        if isinstance(rng, tuple):
            out[v] = int(rng[0] + (idx or 0))
        else:
            out[v] = int(rng)
    return out


def eval_field(comp, y, t=0.0, arg_over=None):
    args = list(comp["args"])
    if arg_over:
        for i, v in arg_over.items():
            args[i] = v
    dy = comp["func"](t, np.array(y, dtype=float), *args[2:])
    return np.array(dy, dtype=float, copy=True)


def check_vector_field(model, comp, rng, n_states=3, n_param_draws=1, vectorized=False, t=0.0):
    """Clauses C01-B(i)-(iii).  Returns list of failure dicts."""
    fails = []
    svars = mdl.state_vars(model)
    try:
        pos = positions(comp, model)
    except Exception as exn:
        return [dict(clause="layout: every declared state variable has a position", observed=f"{type(exn).__name__}: {exn}")]
    n = len(np.asarray(comp["args"][1]).reshape(-1))
    # (ii) layout: defined on every state variable, injective, inside the vector
    if len(set(pos.values())) != len(svars) or any(not (0 <= p < n) for p in pos.values()) or n != len(svars):
        fails.append(dict(clause="layout: distinct positions for all declared state variables",
                          observed=dict(positions=pos, state_vector_length=n), expected=f"{len(svars)} distinct positions"))
        return fails
    # (iii) returned argument values are the declared ones
    y0 = np.asarray(comp["args"][1], dtype=float).reshape(-1)
    init = mdl.initial_state(model)
    for v in svars:
        if not close(y0[pos[v]], init[v]):
            fails.append(dict(clause="args: initial state equals the declared value", var=v,
                              observed=float(y0[pos[v]]), expected=init[v]))
    names = comp["names"]
    const_args = {}
    if not vectorized:
        nodes, _ = mdl.flatten(model)
        for i, nm in enumerate(names):
            parts = nm.split("/")
            if len(parts) >= 3 and "/".join(parts[:-2]) in nodes and parts[-2] in nodes["/".join(parts[:-2])][0]["ops"]:
                try:
                    dv = mdl.declared_value(model, nm)
                except KeyError:
                    continue
                const_args[i] = nm
                if not close(np.asarray(comp["args"][i]).squeeze(), dv):
                    fails.append(dict(clause="args: parameter value equals the declared value", var=nm,
                                      observed=np.asarray(comp["args"][i]).tolist(), expected=dv))
    # (i) vector field at random states (and parameter draws)
    for d in range(n_param_draws + 1):
        over, params = {}, {}
        if d > 0:
            for i, nm in const_args.items():
                *_, o, v = nm.split("/")
                val = float(np.round(rng.uniform(0.5, 2.0), 3))
                over[i] = np.asarray(val, dtype=np.asarray(comp["args"][i]).dtype).reshape(np.shape(comp["args"][i]))
                params[nm] = val
        for _ in range(n_states):
            yv = np.round(rng.uniform(-1.0, 1.0, size=n), 3)
            ydict = {v: float(yv[pos[v]]) for v in svars}
            try:
                want, _vals = mdl.spec_rhs(model, ydict, params, t=t)
            except Exception as exn:
                return fails + [dict(clause="HARNESS", observed=f"spec_rhs failed: {type(exn).__name__}: {exn}")]
            try:
                got = eval_field(comp, yv, t=t, arg_over=over)
            except Exception as exn:
                fails.append(dict(clause="vector field: callable at every state", observed=f"{type(exn).__name__}: {exn}"))
                return fails
            for v in svars:
                if not close(got[pos[v]], want[v], 1e-8, 1e-10):
                    fails.append(dict(clause="vector field: derivative equals the equation", var=v, state=ydict, params=params,
                                      observed=float(got[pos[v]]), expected=float(want[v])))
            if fails:
                return fails
    return fails
