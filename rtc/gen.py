"""Generators of model families (MDL values), chosen from the quantifier texts of the properties.

Every model is well-formed: one output per operator, acyclic operator graph per node, legal non-reserved names.
Each generator returns a list of (tag, features, model)."""
import itertools
import random

from .mdl import N, V

NAME_POOL = ["a", "r", "rr", "r_in", "r_in0", "m_in2", "x_v1", "weight", "u", "x", "q"]


def lin(terms):
    """sum of coefficient*var terms -> tree"""
    tree = None
    for c, v in terms:
        t = ["*", N(c), V(v)] if c != 1.0 else V(v)
        tree = t if tree is None else ["+", tree, t]
    return tree


def op_li(name, x="a", ins=("u",), tau=2.0, x0=0.3, in_defaults=None, in_coefs=None, extra=None, output=True):
    """leaky integrator:  x' = -x/tau + sum_i c_i*in_i  (+ extra tree)"""
    in_defaults = in_defaults or {}
    in_coefs = in_coefs or {}
    tree = ["neg", ["/", V(x), V("tau")]]
    for i, u in enumerate(ins):
        c = in_coefs.get(u, 1.0 + 0.5 * i)
        tree = ["+", tree, ["*", N(c), V(u)] if c != 1.0 else V(u)]
    if extra is not None:
        tree = ["+", tree, extra]
    vars_ = {x: ["output" if output else "state", x0], "tau": ["const", tau]}
    for i, u in enumerate(ins):
        vars_[u] = ["input", in_defaults.get(u, 0.25 * (i + 1))]
    return dict(name=name, eqs=[[x, "de", tree]], vars=vars_)


def op_alg(name, out="m", src="a", k=1.5, fn="tanh", c=0.25, src_default=0.1):
    """algebraic read-out:  out = k*fn(src) + c   (src is an input variable)"""
    inner = ["call", fn, V(src)] if fn else V(src)
    tree = ["+", ["*", V("k"), inner], V("c")]
    return dict(name=name, eqs=[[out, "alg", tree]],
                vars={out: ["output", 0.0], src: ["input", src_default], "k": ["const", k], "c": ["const", c]})


def op_two_state(name, x="a", z="z", u="u", out_alg="m"):
    """two state variables plus an algebraic output depending on both"""
    return dict(name=name,
                eqs=[[x, "de", ["+", ["neg", V(x)], ["*", V("g"), V(z)]]],
                     [z, "de", ["+", ["-", ["neg", ["*", N(0.5), V(z)]], V(x)], V(u)]],
                     [out_alg, "alg", ["+", ["*", N(2.0), V(x)], ["*", V("h"), V(z)]]]],
                vars={x: ["state", 0.2], z: ["state", -0.4], out_alg: ["output", 0.0], u: ["input", 0.3],
                      "g": ["const", 0.7], "h": ["const", -1.2]})


def edge(src, tgt, w, d=None, s=None):
    return dict(src=src, tgt=tgt, w=w, d=d, s=s)


def model(ops, nodes, edges=(), circuits=None, edge_ops=()):
    m = dict(ops={o["name"]: o for o in ops}, nodes=nodes, edges=list(edges))
    if edge_ops:
        m["edge_ops"] = {o["name"]: o for o in edge_ops}
    if circuits:
        m["circuits"] = circuits
    return m


# --------------------------------------------------------------------------------------------- C01 families
def c01_structured():
    out = []
    # F1: one node, chains of 1..3 operators, declaration-order permutations
    o1 = op_li("op1", x="a", ins=("u",))
    o2 = op_alg("op2", out="u", src="q", fn="tanh")          # feeds op1.u from same node
    o3 = op_li("op3", x="q", ins=("w",), tau=1.5, x0=-0.2)   # feeds op2.q
    for perm in itertools.permutations(["op1", "op2", "op3"]):
        out.append((f"F1-chain-{''.join(p[-1] for p in perm)}", dict(chain=3, order=list(perm)),
                    model([o1, o2, o3], {"p1": dict(ops=list(perm))})))
    out.append(("F1-single", dict(chain=1), model([o1], {"p1": dict(ops=["op1"])})))
    # F2: two nodes, edges incl. parallel edges between the same variable pair
    base = op_li("op", x="r", ins=("r_in",), tau=2.0, x0=0.4)
    for ws in ([1.5], [1.5, 2.5], [1.5, 2.5, -0.75]):
        es = [edge("p1/op/r", "p2/op/r_in", w) for w in ws] + [edge("p2/op/r", "p1/op/r_in", 0.5)]
        out.append((f"F2-parallel-{len(ws)}", dict(parallel_edges=len(ws) > 1, n_parallel=len(ws)),
                    model([base], {"p1": dict(ops=["op"]), "p2": dict(ops=["op"], over={"op/tau": 3.0})}, es)))
    # F3: operator with two input variables, one multiply driven; both declaration orders of the inputs
    for first, second in (("u", "w"), ("w", "u")):
        tgt = op_li("tgt", x="a", ins=(first, second), tau=2.0)
        srcA = op_alg("srcA", out="u", src="b1", fn=None, k=2.0, c=1.0)
        srcB = op_alg("srcB", out="u", src="b2", fn=None, k=-1.0, c=0.5)
        out.append((f"F3-multi-input-{first}{second}", dict(multi_input=True, multiply_driven="u", first_input=first),
                    model([tgt, srcA, srcB], {"p1": dict(ops=["srcA", "srcB", "tgt"])})))
        # multiply driven by an operator AND an edge
        src = op_li("src", x="r", ins=("r_in",), x0=0.6)
        out.append((f"F3-op-plus-edge-{first}{second}", dict(multi_input=True, multiply_driven="u", first_input=first, fan_in_mixed=True),
                    model([tgt, srcA, src], {"p1": dict(ops=["srcA", "tgt"]), "p2": dict(ops=["src"])},
                          [edge("p2/src/r", "p1/tgt/u", 1.25)])))
    # F4: two different variables of one node projecting to the same target variable
    two = op_two_state("op2s", x="a", z="c", u="u", out_alg="m")
    tgt = op_li("tgt", x="v", ins=("u",), tau=1.0, x0=0.1)
    out.append(("F4-two-vars-one-node", dict(two_src_vars_one_node=True),
                model([two, tgt], {"p1": dict(ops=["op2s"]), "p2": dict(ops=["tgt"])},
                      [edge("p1/op2s/a", "p2/tgt/u", 2.0), edge("p1/op2s/c", "p2/tgt/u", 3.0)])))
    out.append(("F4-control-two-nodes", dict(),
                model([two, tgt], {"p1": dict(ops=["op2s"]), "p3": dict(ops=["op2s"], over={"op2s/g": 0.9}), "p2": dict(ops=["tgt"])},
                      [edge("p1/op2s/a", "p2/tgt/u", 2.0), edge("p3/op2s/c", "p2/tgt/u", 3.0)])))
    # F5: names that look generated / contain one another
    for xa, xb in (("x", "x_v1"), ("r", "rr"), ("weight", "u"), ("r_in0", "r_in"), ("m_in2", "a")):
        oa = op_li("opa", x=xa, ins=("i1",), tau=2.0, x0=0.3)
        ob = op_li("opb", x=xb, ins=("i1",), tau=3.0, x0=-0.5)
        out.append((f"F5-names-{xa}-{xb}", dict(generated_looking_names=(xa, xb)),
                    model([oa, ob], {"p1": dict(ops=["opa"]), "p2": dict(ops=["opb"]), "p3": dict(ops=["opa"], over={"opa/tau": 1.0})},
                          [edge(f"p1/opa/{xa}", "p2/opb/i1", 1.5), edge(f"p2/opb/{xb}", "p3/opa/i1", -0.5),
                           edge(f"p3/opa/{xa}", "p1/opa/i1", 0.75)])))
    # F5b: a multiply driven input whose name equals the name of one of its source variables
    so = op_li("so", x="u", ins=("i1",), tau=1.0, x0=0.67)
    to = op_li("to", x="g", ins=("u",), tau=3.0, x0=-0.2)
    out.append(("F5b-src-name-equals-target-input", dict(src_name_equals_input=True),
                model([so, to], {"n0": dict(ops=["to"]), "n1": dict(ops=["so"]), "n2": dict(ops=["so"], over={"so/tau": 2.5})},
                      [edge("n1/so/u", "n0/to/u", -0.66), edge("n2/so/u", "n0/to/u", 1.22)])))
    # F6: fan-out and fan-in, several input variables each driven by edges
    t2 = op_li("t2", x="a", ins=("u", "w"), tau=2.0)
    s1 = op_li("s1", x="r", ins=("r_in",), x0=0.6)
    out.append(("F6-fanin-two-inputs", dict(fan_in=True),
                model([t2, s1], {"p1": dict(ops=["s1"]), "p2": dict(ops=["s1"], over={"s1/tau": 0.5}), "p3": dict(ops=["t2"])},
                      [edge("p1/s1/r", "p3/t2/u", 1.0), edge("p2/s1/r", "p3/t2/u", 2.0), edge("p1/s1/r", "p3/t2/w", -1.0),
                       edge("p3/t2/a", "p1/s1/r_in", 0.3), edge("p3/t2/a", "p2/s1/r_in", 0.6)])))
    # F8: larger single-type populations: fan-in rings (>= 10 edges), all-to-all, sparse one-to-one permutations
    pop = op_li("op", x="r", ins=("r_in",), tau=2.0, x0=0.4, in_defaults={"r_in": 0.0})
    for nn_, pattern in ((6, "ring2"), (4, "dense"), (11, "perm"), (12, "sparse-fanin")):
        nodes_ = {f"n{i}": dict(ops=["op"], over={"op/tau": 1.0 + 0.25 * i}) for i in range(nn_)}
        es_ = []
        if pattern == "ring2":
            for i in range(nn_):
                es_.append(edge(f"n{(i - 1) % nn_}/op/r", f"n{i}/op/r_in", 0.5 + 0.1 * i))
                es_.append(edge(f"n{(i + 2) % nn_}/op/r", f"n{i}/op/r_in", -0.3 - 0.05 * i))
        elif pattern == "dense":
            for i in range(nn_):
                for j in range(nn_):
                    es_.append(edge(f"n{j}/op/r", f"n{i}/op/r_in", round(0.1 * (i + 1) - 0.07 * (j + 2), 3)))
        elif pattern == "perm":
            perm = [0, 3, 1, 2, 5, 4, 7, 6, 9, 8, 10]       # keeps first and last, non-identity inside
            for i in range(nn_):
                es_.append(edge(f"n{perm[i]}/op/r", f"n{i}/op/r_in", 1.0 + 0.1 * i))
        else:
            for i in range(nn_):
                es_.append(edge(f"n{(i * 5 + 1) % nn_}/op/r", f"n{i}/op/r_in", 0.2 * (i + 1)))
            es_.append(edge("n0/op/r", "n3/op/r_in", -1.0))
        out.append((f"F8-{pattern}-{nn_}", dict(population=nn_, pattern=pattern, n_edges=len(es_)), model([pop], nodes_, es_)))
    # F7: hierarchy
    inner = model([base], {"p1": dict(ops=["op"]), "p2": dict(ops=["op"], over={"op/tau": 3.0})},
                  [edge("p1/op/r", "p2/op/r_in", 1.5)])
    inner2 = model([base], {"p1": dict(ops=["op"], over={"op/tau": 0.7}), "p2": dict(ops=["op"])},
                   [edge("p2/op/r", "p1/op/r_in", -2.0)])
    out.append(("F7-hierarchy-1", dict(hierarchy=1),
                dict(ops={}, nodes={}, edges=[edge("c1/p2/op/r", "c2/p1/op/r_in", 0.8), edge("c2/p1/op/r", "c1/p1/op/r_in", 1.1)],
                     circuits={"c1": inner, "c2": inner2})))
    outer = dict(ops={}, nodes={}, edges=[edge("c1/p2/op/r", "c2/p1/op/r_in", 0.8)], circuits={"c1": inner, "c2": inner2})
    out.append(("F7-hierarchy-2", dict(hierarchy=2),
                dict(ops={}, nodes={}, edges=[edge("d1/c1/p1/op/r", "d2/c2/p2/op/r_in", 0.4)],
                     circuits={"d1": outer, "d2": outer})))
    import json as _json
    leaf1 = model([base], {"p0": dict(ops=["op"]), "p1": dict(ops=["op"], over={"op/tau": 3.0})}, [edge("p0/op/r", "p1/op/r_in", 1.5)])
    leaf2 = model([base], {"p0": dict(ops=["op"], over={"op/tau": 0.7}), "p1": dict(ops=["op"])}, [edge("p1/op/r", "p0/op/r_in", -2.0)])
    mid_a = dict(ops={}, nodes={}, edges=[], circuits={"l0": leaf1, "l1": _json.loads(_json.dumps(leaf2))})          # NO own edges
    mid_b = dict(ops={}, nodes={}, edges=[edge("l0/p1/op/r", "l1/p0/op/r_in", 0.6)],
                 circuits={"l0": _json.loads(_json.dumps(leaf1)), "l1": _json.loads(_json.dumps(leaf2))})
    out.append(("F7b-hierarchy-3-mid-level-without-edges", dict(hierarchy=3),
                dict(ops={}, nodes={}, edges=[edge("m0/l0/p0/op/r", "m1/l1/p1/op/r_in", 0.4)], circuits={"m0": mid_b, "m1": mid_a})))
    # F9: TWIN operators — two operators of one node type with the same equations and variable names, different names and values
    # (structurally identical for the vectorisation cache); two resp. three nodes of that type, edges into either twin
    exc = op_li("exc", x="v", ins=("u",), tau=2.0, x0=0.3, in_defaults={"u": 0.1})
    inh = op_li("inh", x="v", ins=("u",), tau=5.0, x0=-0.4, in_defaults={"u": 0.2})
    tw = {"n1": dict(ops=["exc", "inh"]), "n2": dict(ops=["exc", "inh"], over={"exc/tau": 3.0, "inh/v": 0.7})}
    out.append(("F9-twin-operators-2", dict(twins=True),
                model([exc, inh], tw, [edge("n1/exc/v", "n2/inh/u", 1.5), edge("n2/exc/v", "n1/inh/u", 0.8), edge("n2/inh/v", "n1/exc/u", -0.5)])))
    #   (each target variable is fed from ONE source variable of the type: two source variables into one target is KF-C01-two-source-vars-of-one-node)
    # a second node type whose operators are RENAMED copies of the first type's (same structure, other names and values)
    syn_e = dict(op_li("syn_e", x="v", ins=("u",), tau=1.5, x0=0.2, in_defaults={"u": 0.1}))
    syn_i = dict(op_li("syn_i", x="v", ins=("u",), tau=4.0, x0=-0.1, in_defaults={"u": 0.2}))
    twr = {"n1": dict(ops=["exc", "inh"]), "m1": dict(ops=["syn_e", "syn_i"], over={"syn_e/tau": 3.0, "syn_i/v": 0.7}),
           "n2": dict(ops=["exc", "inh"], over={"inh/tau": 0.9}), "m2": dict(ops=["syn_e", "syn_i"], over={"syn_i/tau": 6.0, "syn_e/v": -0.6})}
    out.append(("F9-twin-operators-renamed-types", dict(twins=True),
                model([exc, inh, syn_e, syn_i], twr, [edge("n1/exc/v", "m1/syn_i/u", 1.5), edge("m2/syn_e/v", "n2/inh/u", -0.5),
                                                       edge("m1/syn_i/v", "n1/exc/u", 0.8)])))
    #   (the four nodes are merged into one vector node; every merged target variable is fed from ONE merged source variable, see above)
    tw3 = dict(tw, n3=dict(ops=["exc", "inh"], over={"inh/tau": 0.9}))
    out.append(("F9-twin-operators-3-no-edge-on-one-twin", dict(twins=True),
                model([exc, inh], tw3, [edge("n1/exc/v", "n2/exc/u", 1.5), edge("n3/exc/v", "n1/exc/u", -0.5)])))
    # F10: independent operators of one node whose NAMES are prefixes of one another and which share parameter names
    # (pop / pop_slow / pop_s), the longer names declared later and earlier; no edges between them
    po = op_li("pop", x="u", ins=("i1",), tau=2.0, x0=0.3, in_defaults={"i1": 0.1}, extra=["*", V("k"), V("a")])
    po["vars"].update(k=["const", 1.5], a=["const", 0.4])
    ps_ = op_li("pop_slow", x="w", ins=("i2",), tau=9.0, x0=-0.2, in_defaults={"i2": 0.3}, extra=["*", V("k"), V("a")])
    ps_["vars"].update(k=["const", -2.5], a=["const", 1.7])
    p3 = op_li("pop_s", x="z", ins=("i3",), tau=0.5, x0=0.6, in_defaults={"i3": -0.1}, extra=["*", V("k"), V("a")])
    p3["vars"].update(k=["const", 0.25], a=["const", -0.9])
    for order, tagx in ((("pop", "pop_slow", "pop_s"), "short-first"), (("pop_slow", "pop_s", "pop"), "short-last")):
        out.append((f"F10-operator-names-prefix-of-each-other-{tagx}", dict(op_prefix=True),
                    model([po, ps_, p3], {"n1": dict(ops=list(order)), "n2": dict(ops=list(order), over={"pop/tau": 3.0, "pop_slow/k": 0.5})},
                          [edge("n1/pop/u", "n2/pop_s/i3", 0.7)])))
    return out


STATE_NAMES = ["a", "r", "rr", "x", "q", "v", "zz", "m_s"]
INPUT_NAMES = ["u", "w", "r_in", "inp", "i_ext", "drive"]


def c01_random(seed, n):
    """Seeded random circuits: 2-5 nodes of 1-2 node types, 0-7 edges (repeats, self-connections and fan-in allowed).
    Names are drawn so that no variable is called `weight`, none ends in _in<k>/_v<k> and no input variable shares
    its name with a state variable: those triggers belong to listed known findings and have their own witnesses."""
    rng = random.Random(seed)
    out = []
    for j in range(n):
        x, w = rng.sample(STATE_NAMES, 2)
        u, u2 = rng.sample(INPUT_NAMES, 2)
        src = op_li("so", x=x, ins=(u,), tau=rng.choice([0.5, 1.0, 2.0]), x0=round(rng.uniform(-1, 1), 2))
        tgt = op_li("to", x=w, ins=(u, u2), tau=rng.choice([1.5, 3.0]), x0=round(rng.uniform(-1, 1), 2))
        nn = rng.randint(2, 5)
        nodes = {}
        for i in range(nn):
            kind = rng.choice(["so", "to"])
            over = {f"{kind}/tau": rng.choice([0.8, 1.2, 2.5])} if rng.random() < 0.5 else {}
            nodes[f"n{i}"] = dict(ops=[kind], over=over) if over else dict(ops=[kind])
        es = []
        for _ in range(rng.randint(0, 7)):
            a, b = rng.choice(list(nodes)), rng.choice(list(nodes))
            ka, kb = nodes[a]["ops"][0], nodes[b]["ops"][0]
            sv = x if ka == "so" else w
            tv = u if kb == "so" else rng.choice([u, u2])
            es.append(edge(f"{a}/{ka}/{sv}", f"{b}/{kb}/{tv}", round(rng.uniform(-2, 2), 2)))
        pairs = [(e["src"], e["tgt"]) for e in es]
        tg = {}
        for e in es:
            tg.setdefault(e["tgt"], []).append(e["src"])
        feats = dict(parallel_edges=len(set(pairs)) < len(pairs), n_edges=len(es), n_nodes=nn,
                     fan_in=max([len(v) for v in tg.values()] or [0]))
        # trigger of known finding KF-C01-vectorized-partial-coverage: a merged group of >= 2 nodes where an input
        # variable is fed from >= 2 source groups on some members and by nothing on others
        pc = {}
        for kind, op_, xs in (("so", src, x), ("to", tgt, w)):
            members = [n_ for n_, nd in nodes.items() if nd["ops"][0] == kind]
            for iv in [v_ for v_, (vt, _) in op_["vars"].items() if vt == "input"]:
                feeding = [e for e in es if e["tgt"].rsplit("/", 2)[0] in members and e["tgt"].endswith("/" + iv)]
                groups = {nodes[e["src"].split("/")[0]]["ops"][0] for e in feeding}
                connected = {e["tgt"].split("/")[0] for e in feeding}
                if len(members) >= 2 and len(groups) >= 2 and 0 < len(connected) < len(members):
                    coef = {u: 1.0, u2: 1.5}[iv] if kind == "to" else 1.0
                    for n_ in members:
                        if n_ not in connected:
                            pc[f"{n_}/{kind}/{xs}"] = pc.get(f"{n_}/{kind}/{xs}", 0.0) + coef * op_["vars"][iv][1]
        feats["partial_cover"] = pc
        out.append((f"R{seed}-{j}", feats, model([src, tgt], nodes, es)))
    return out


# --------------------------------------------------------------------------------------------- delays (C09, C11, C04)
def delay_families(kind="discrete"):
    """kind 'discrete': edges with delay (no spread); 'gamma': edges with delay and spread."""
    out = []
    pop = op_li("op", x="r", ins=("r_in",), tau=2.0, x0=0.4, in_defaults={"r_in": 0.0})
    tgt = op_li("tg", x="v", ins=("u",), tau=1.0, x0=0.1, in_defaults={"u": 0.0})

    def E(src, tgt_, w, d, s=None):
        return edge(src, tgt_, w, d, s if kind == "gamma" else None)
    two = {"p1": dict(ops=["op"]), "p2": dict(ops=["op"], over={"op/tau": 3.0})}
    sp = 0.1 if kind == "gamma" else None
    out.append(("D1-two-nodes-two-delays", dict(delays=[0.3, 0.5]),
                model([pop], two, [E("p1/op/r", "p2/op/r_in", 1.5, 0.3, 0.15), E("p2/op/r", "p1/op/r_in", -0.5, 0.5, 0.2)])))
    out.append(("D2-mixed-delayed-undelayed-different-sources", dict(mixed=True),
                model([pop], dict(two, p3=dict(ops=["op"], over={"op/tau": 1.0})),
                      [E("p1/op/r", "p2/op/r_in", 1.5, 0.3, 0.15), edge("p3/op/r", "p1/op/r_in", 0.7),
                       E("p2/op/r", "p3/op/r_in", 0.9, 0.4, 0.2)])))
    out.append(("D3-shared-source-different-delays", dict(shared_source=True),
                model([pop, tgt], dict(two, t1=dict(ops=["tg"]), t2=dict(ops=["tg"], over={"tg/tau": 2.0})),
                      [E("p1/op/r", "t1/tg/u", 1.0, 0.2, 0.1), E("p1/op/r", "t2/tg/u", 2.0, 0.5, 0.1), edge("p2/op/r", "p1/op/r_in", 0.3)])))
    out.append(("D4-shared-target-different-delays", dict(shared_target=True),
                model([pop, tgt], dict(two, t1=dict(ops=["tg"])),
                      [E("p1/op/r", "t1/tg/u", 1.0, 0.2, 0.1), E("p2/op/r", "t1/tg/u", 2.0, 0.4, 0.2)])))
    out.append(("D5-undelayed-edge-sharing-source-with-delayed", dict(undelayed_shares_source=True),
                model([pop, tgt], dict(two, t1=dict(ops=["tg"]), t2=dict(ops=["tg"], over={"tg/tau": 2.0})),
                      [E("p1/op/r", "t1/tg/u", 1.0, 0.3, 0.15), edge("p1/op/r", "t2/tg/u", 2.0), edge("p2/op/r", "p1/op/r_in", 0.3)])))
    if kind == "discrete":
        # one source, a long delay registered first and a one-step delay last; lags < 2 steps are outside the property,
        # so only the variables that do not depend on the short edge are compared
        out.append(("D8-long-delay-then-one-step-delay-same-source", dict(only_vars=["p1/op/r", "p2/op/r", "t1/tg/v"]),
                    model([pop, tgt], dict(two, t1=dict(ops=["tg"]), t2=dict(ops=["tg"], over={"tg/tau": 2.0})),
                          [edge("p1/op/r", "t1/tg/u", 1.0, 0.3), edge("p1/op/r", "t2/tg/u", 2.0, 0.1), edge("p2/op/r", "p1/op/r_in", 0.3, 0.4)])))
    nn_ = 4
    nodes_ = {f"n{i}": dict(ops=["op"], over={"op/tau": 1.0 + 0.5 * i}) for i in range(nn_)}
    es_ = [E(f"n{(i + 1) % nn_}/op/r", f"n{i}/op/r_in", 0.5 + 0.25 * i, 0.2 + 0.1 * (i % 2), 0.1) for i in range(nn_)]
    out.append(("D6-ring-4-two-delay-values", dict(population=4), model([pop], nodes_, es_)))
    es2 = [E(f"n{(3 * i + 1) % nn_}/op/r", f"n{i}/op/r_in", 0.5 + 0.25 * i, 0.3, 0.1) for i in range(nn_)]
    out.append(("D7-permuted-uniform-delay", dict(population=4, uniform=True), model([pop], nodes_, es2)))
    # one source node TYPE (two nodes) projecting to three target groups (its own type and two others) with different delays
    tb = op_li("tb", x="w", ins=("u",), tau=1.5, x0=-0.1, in_defaults={"u": 0.0})
    tc = op_li("tc", x="z", ins=("u",), tau=0.8, x0=0.2, in_defaults={"u": 0.0})
    nodes9 = {"a0": dict(ops=["op"]), "a1": dict(ops=["op"], over={"op/tau": 3.0}), "b0": dict(ops=["tb"]), "b1": dict(ops=["tb"], over={"tb/tau": 2.5}),
              "c0": dict(ops=["tc"]), "c1": dict(ops=["tc"], over={"tc/tau": 0.5})}
    es9 = [E("a0/op/r", "a1/op/r_in", 0.5, 0.2, 0.1), E("a1/op/r", "a0/op/r_in", -0.4, 0.2, 0.1),
           E("a0/op/r", "b0/tb/u", 1.0, 0.3, 0.1), E("a1/op/r", "b1/tb/u", 0.8, 0.3, 0.1),
           E("a0/op/r", "c1/tc/u", 1.5, 0.4, 0.2), E("a1/op/r", "c0/tc/u", -1.2, 0.4, 0.2)]
    out.append(("D9-one-source-type-three-target-groups", dict(groups=3), model([pop, tb, tc], nodes9, es9)))
    if kind == "gamma":
        out.append(("G1-same-order-different-rate", dict(),
                    model([pop, tgt], dict(two, t1=dict(ops=["tg"]), t2=dict(ops=["tg"], over={"tg/tau": 2.0}), t3=dict(ops=["tg"], over={"tg/tau": 0.5})),
                          [edge("p1/op/r", "t1/tg/u", 1.0, 0.2, 0.1), edge("p1/op/r", "t2/tg/u", 1.0, 0.2, 0.1),
                           edge("p1/op/r", "t3/tg/u", 2.0, 0.3, 0.15), edge("p2/op/r", "p1/op/r_in", 0.3)])))
        out.append(("G2-same-delay-different-spread", dict(),
                    model([pop, tgt], dict(two, t1=dict(ops=["tg"]), t2=dict(ops=["tg"], over={"tg/tau": 2.0})),
                          [edge("p1/op/r", "t1/tg/u", 1.0, 0.4, 0.4), edge("p1/op/r", "t2/tg/u", 1.0, 0.4, 0.1)])))
        out.append(("G3-rounding-orders", dict(),
                    model([pop, tgt], dict(two, t1=dict(ops=["tg"]), t2=dict(ops=["tg"], over={"tg/tau": 2.0})),
                          [edge("p1/op/r", "t1/tg/u", 1.0, 0.5, 0.3), edge("p2/op/r", "t2/tg/u", 1.0, 0.3, 0.1)])))
        # (delay, spread) pairs that are NOT multiples of the step size: order and rate come from the values as given
        out.append(("G4-off-grid-delay-and-spread", dict(),
                    model([pop, tgt], dict(two, t1=dict(ops=["tg"]), t2=dict(ops=["tg"], over={"tg/tau": 2.0})),
                          [edge("p1/op/r", "t1/tg/u", 1.0, 0.127, 0.044), edge("p2/op/r", "t2/tg/u", 1.0, 0.283, 0.117)])))
        # spread larger than the delay: (d/s)^2 rounds to 0 - the kernel still has to have mean delay d (one stage of rate 1/d)
        out.append(("G5-spread-larger-than-delay", dict(),
                    model([pop, tgt], dict(two, t1=dict(ops=["tg"]), t2=dict(ops=["tg"], over={"tg/tau": 2.0})),
                          [edge("p1/op/r", "t1/tg/u", 1.0, 0.3, 0.5), edge("p2/op/r", "t2/tg/u", 1.5, 0.2, 0.3),
                           edge("p2/op/r", "p1/op/r_in", 0.3, 0.4, 0.2)])))
        # one kernel group whose sources repeat and leave a gap of the same size (units 0, 0, 2): the grouped source must be read
        # element by element, not as the slice that spans first..last
        nodes8 = {f"n{i}": dict(ops=["op"], over={"op/tau": 0.5 + 0.25 * i}) for i in range(4)}
        es8 = [edge("n0/op/r", "n1/op/r_in", 0.5, 0.4, 0.2), edge("n0/op/r", "n2/op/r_in", -0.3, 0.4, 0.2), edge("n2/op/r", "n3/op/r_in", 0.7, 0.4, 0.2),
               edge("n3/op/r", "n0/op/r_in", 0.2, 0.3, 0.1), edge("n1/op/r", "n0/op/r_in", -0.4, 0.6, 0.2)]
        out.append(("G8-group-with-repeated-source-and-gap", dict(population=4), model([pop], nodes8, es8)))
    return out


def parallel_delay_model(kind="discrete"):
    """Two PARALLEL edges between one pair of variables with different delays (and spreads)."""
    pop = op_li("op", x="r", ins=("r_in",), tau=2.0, x0=0.4, in_defaults={"r_in": 0.0})
    two = {"p1": dict(ops=["op"]), "p2": dict(ops=["op"], over={"op/tau": 3.0})}
    g = kind == "gamma"
    return ("D10-parallel-edges-two-delays", dict(parallel_delays=True),
            model([pop], two, [edge("p1/op/r", "p2/op/r_in", 1.5, 0.3, 0.1 if g else None), edge("p1/op/r", "p2/op/r_in", -0.5, 0.5, 0.2 if g else None)]))


def mixed_kernel_model():
    """One merged group of edges in which only SOME edges carry a spread (the others a plain delay, of at least two steps)."""
    pop = op_li("op", x="r", ins=("r_in",), tau=2.0, x0=0.4, in_defaults={"r_in": 0.0})
    two = {"p1": dict(ops=["op"]), "p2": dict(ops=["op"], over={"op/tau": 3.0})}
    return ("G6-delay-only-and-delay-plus-spread-in-one-group", dict(mixed_kernel=True),
            model([pop], two, [edge("p1/op/r", "p2/op/r_in", 1.5, 0.02, None), edge("p2/op/r", "p1/op/r_in", -0.5, 0.3, 0.15)]))


def c04_extra():
    """Vectorisation-specific families: tiny weights (SI units), per-node parameters, two node types with cross fan-in."""
    out = []
    pop = op_li("op", x="r", ins=("r_in",), tau=2.0, x0=0.4, in_defaults={"r_in": 0.0})
    nn_ = 11
    nodes_ = {f"n{i}": dict(ops=["op"], over={"op/tau": 1.0 + 0.25 * i}) for i in range(nn_)}
    es_ = [edge(f"n{(i + 1) % nn_}/op/r", f"n{i}/op/r_in", (1.0 + 0.5 * i) * 1e-9) for i in range(nn_)]
    out.append(("V1-tiny-weights-11", dict(tiny=True), model([pop], nodes_, es_)))
    es2 = [edge(f"n{(i + 1) % nn_}/op/r", f"n{i}/op/r_in", 2.0) for i in range(nn_)]
    out.append(("V2-equal-weights-11", dict(), model([pop], nodes_, es2)))
    es3 = [edge(f"n{(i + 1) % nn_}/op/r", f"n{i}/op/r_in", 1.0) for i in range(nn_)]
    out.append(("V3-unit-weights-11", dict(), model([pop], nodes_, es3)))
    # weights normalised by their maximum: the largest is exactly 1.0, the others are not
    es7 = [edge(f"n{(i + 1) % nn_}/op/r", f"n{i}/op/r_in", round((i + 1) / nn_, 4)) for i in range(nn_)]
    out.append(("V7-max-normalised-weights-11", dict(), model([pop], nodes_, es7)))
    es8 = [edge(f"n{(i + 1) % nn_}/op/r", f"n{i}/op/r_in", 1.0 if i % 3 else 1.0 - 0.05 * i) for i in range(nn_)]
    out.append(("V8-mostly-unit-weights-11", dict(), model([pop], nodes_, es8)))
    # one source unit fanning out to several units of a merged target, edges listed in non-ascending target order
    nodes9 = {f"n{i}": dict(ops=["op"], over={"op/tau": 1.0 + 0.25 * i}) for i in range(5)}
    es9 = [edge("n0/op/r", f"n{j}/op/r_in", w) for j, w in ((3, 0.5), (1, -1.5), (4, 2.0), (2, 0.25))]
    out.append(("V9-single-source-fanout-unsorted-targets", dict(), model([pop], nodes9, es9)))
    a = op_li("ea", x="r", ins=("r_in",), tau=2.0, x0=0.4, in_defaults={"r_in": 0.0})
    b = op_li("ib", x="v", ins=("u", "w"), tau=1.0, x0=-0.2, in_defaults={"u": 0.0, "w": 0.0})
    nodes4 = {"e0": dict(ops=["ea"]), "e1": dict(ops=["ea"], over={"ea/tau": 3.0}), "e2": dict(ops=["ea"], over={"ea/tau": 0.7}),
              "i0": dict(ops=["ib"]), "i1": dict(ops=["ib"], over={"ib/tau": 0.5})}
    es4 = [edge("e0/ea/r", "i0/ib/u", 1.0), edge("e1/ea/r", "i0/ib/u", 0.5), edge("e2/ea/r", "i1/ib/u", -1.5), edge("e0/ea/r", "i1/ib/w", 2.0),
           edge("i0/ib/v", "e0/ea/r_in", -1.0), edge("i1/ib/v", "e1/ea/r_in", -0.5), edge("i0/ib/v", "e2/ea/r_in", 0.25),
           edge("e1/ea/r", "e1/ea/r_in", 0.3), edge("i1/ib/v", "i0/ib/w", 0.8)]
    out.append(("V4-two-types-cross-fanin-selfconn", dict(two_types=True), model([a, b], nodes4, es4)))
    # edge templates (algebraic edge operators), one template used by several edge groups
    eop = dict(name="eop", eqs=[["s_out", "alg", ["*", V("gain"), ["call", "tanh", V("pre")]]]],
               vars={"s_out": ["output", 0.0], "pre": ["input", 0.0], "gain": ["const", 1.7]})
    es5 = []
    for e_ in es4:
        e5 = dict(e_)
        e5["tpl"] = "eop"
        es5.append(e5)
    out.append(("V5-edge-template-three-groups", dict(edge_template=True), model([a, b], nodes4, es5, edge_ops=[eop])))
    # diffusive coupling through an edge template with a SECOND input bound to a node variable by its path (the target's own state)
    dop = dict(name="dop", eqs=[["s_out", "alg", ["-", V("x_s"), V("x_t")]]], vars={"s_out": ["output", 0.0], "x_s": ["input", 0.0], "x_t": ["input", 0.0]})
    lin = op_li("lin", x="x", ins=("s_in",), tau=1.0, x0=0.2, in_defaults={"s_in": 0.0}, extra=V("k"))
    lin["vars"]["k"] = ["const", 1.0]
    for order, tagx in ((("a", "b", "c"), "target-last"), (("c", "a", "b"), "target-first"), (("a", "c", "b"), "target-middle")):
        nd = {}
        for j, lab in enumerate(order):
            nd[lab] = dict(ops=["lin"], over={"lin/k": 0.5 + 0.75 * "abc".index(lab), "lin/x": 0.1 * (1 + "abc".index(lab))})
        out.append((f"V10-edge-template-second-input-by-path-{tagx}", dict(edge_template=True, path_input=True),
                    model([lin], nd, [dict(edge("a/lin/x", "c/lin/s_in", 1.0), tpl="dop", post={"x_t": "c/lin/x"}),
                                      dict(edge("c/lin/x", "b/lin/s_in", 0.5), tpl="dop", post={"x_t": "b/lin/x"})], edge_ops=[dop])))
    # four and five edges sharing ONE edge template, every input of the edge operator mapped explicitly ('source' / a path)
    nd4 = {lab: dict(ops=["lin"], over={"lin/k": 0.5 + 0.75 * j, "lin/x": 0.1 * (1 + j)}) for j, lab in enumerate("abcd")}
    ring = [("d", "a", 0.6), ("a", "c", 1.0), ("c", "b", -0.5), ("b", "d", 1.5)]
    out.append(("V11-edge-template-four-edges-explicit-inputs", dict(edge_template=True, path_input=True),
                model([lin], nd4, [dict(edge(f"{s_}/lin/x", f"{t_}/lin/s_in", w_), tpl="dop", post={"x_s": "source", "x_t": f"{t_}/lin/x"})
                                   for s_, t_, w_ in ring], edge_ops=[dop])))
    out.append(("V12-edge-template-five-edges-explicit-source", dict(edge_template=True, path_input=True),
                model([lin], nd4, [dict(edge(f"{s_}/lin/x", f"{t_}/lin/s_in", w_), tpl="eop", post={"pre": "source"}, eover={"gain": 0.5 + 0.5 * i})
                                   for i, (s_, t_, w_) in enumerate(ring + [("a", "b", 0.3)])], edge_ops=[eop])))
    es6 = [dict(e_, tpl="eop") if i % 2 == 0 else e_ for i, e_ in enumerate(es4)]
    out.append(("V6-edge-template-mixed-with-plain", dict(edge_template=True), model([a, b], nodes4, es6, edge_ops=[eop])))
    return out


def c06_families():
    """Circuits whose nodes all differ in a parameter (so any swapped column is visible)."""
    out = []
    a = op_li("opA", x="x", ins=("i1",), tau=1.0, x0=0.5, in_defaults={"i1": 0.3})
    c = op_alg("opC", out="i1", src="z", fn="tanh", k=0.5, c=0.1, src_default=0.2)
    b = op_li("opB", x="v", ins=("u",), tau=2.0, x0=-0.3, in_defaults={"u": 0.1})
    labels = ["n1", "m1", "n2", "m2"]
    for pi_, perm in enumerate(itertools.permutations(range(4))):
        if pi_ % 5 != 0:
            continue
        nodes = {}
        for j in perm:
            lab = labels[j]
            if lab.startswith("n"):
                nodes[lab] = dict(ops=["opA"], over={"opA/tau": 1.0 + j})
            else:
                nodes[lab] = dict(ops=["opA", "opC"], over={"opA/tau": 1.5 + j})
        es = [edge("n1/opA/x", "m1/opC/z", 0.7), edge("m2/opA/x", "n2/opA/i1", -0.4)]
        out.append((f"O1-two-node-types-perm{pi_}", dict(perm=list(perm)), model([a, c], nodes, es)))
    nodes3 = {"pc": dict(ops=["opB"], over={"opB/tau": 1.0}), "ein": dict(ops=["opB"], over={"opB/tau": 2.0}),
              "iin": dict(ops=["opB"], over={"opB/tau": 3.0})}
    es3 = [edge("pc/opB/v", "ein/opB/u", 1.0), edge("ein/opB/v", "iin/opB/u", 0.5), edge("iin/opB/v", "pc/opB/u", -1.0)]
    out.append(("O2-jrc-like-nonalphabetic", dict(), model([b], nodes3, es3)))
    inner1 = model([b], {"p1": dict(ops=["opB"], over={"opB/tau": 1.0}), "p2": dict(ops=["opB"], over={"opB/tau": 2.0})},
                   [edge("p1/opB/v", "p2/opB/u", 1.0)])
    inner2 = model([b], {"p1": dict(ops=["opB"], over={"opB/tau": 3.0}), "p2": dict(ops=["opB"], over={"opB/tau": 4.0})},
                   [edge("p2/opB/v", "p1/opB/u", -1.0)])
    out.append(("O3-hierarchy", dict(hierarchy=1),
                dict(ops={}, nodes={}, edges=[edge("c1/p2/opB/v", "c2/p1/opB/u", 0.8)], circuits={"c1": inner1, "c2": inner2})))
    # twin operators (same structure, different names / values) on every node of one type
    st = {t: m for t, f, m in c01_structured()}
    out.append(("O4-twin-operators", dict(twins=True), st["F9-twin-operators-2"]))
    out.append(("O5-twin-operators-3", dict(twins=True), st["F9-twin-operators-3-no-edge-on-one-twin"]))
    out.append(("O6-twin-operators-renamed-types", dict(twins=True), st["F9-twin-operators-renamed-types"]))
    # larger single-type populations with one-to-one edges: permuted sources (first and last kept), and a 12-ring whose edges are
    # DECLARED in a shuffled order that starts at unit 0 and ends at unit 11
    for t_, f_, m_ in c04_extra():
        if t_.startswith("V10"):
            out.append((t_.replace("V10-", "O9-"), dict(f_), m_))
        # one edge template shared by several vectorised edge groups (three groups; four / five edges with explicit input maps)
        if t_.startswith(("V5-", "V11-", "V12-")):
            out.append((t_.replace("V5-", "O10-").replace("V11-", "O11-").replace("V12-", "O12-"), dict(f_), m_))
    # delayed edges (discrete) on a merged group: permuted sources with one delay for all, and two delay values
    for t_, f_, m_ in delay_families("discrete"):
        if t_.startswith(("D7-", "D6-")):
            out.append((t_.replace("D7-", "O13-delayed-").replace("D6-", "O14-delayed-"), dict(f_, delayed=True, dt=0.1), m_))
    out.append(("O7-perm-11", dict(population=11), st["F8-perm-11"]))
    nodes_r = {f"n{i}": dict(ops=["opB"], over={"opB/tau": 1.0 + 0.25 * i}) for i in range(12)}
    order = [0, 7, 3, 9, 1, 5, 10, 2, 8, 4, 6, 11]
    es_r = [edge(f"n{(i - 1) % 12}/opB/v", f"n{i}/opB/u", 0.3 + 0.1 * i) for i in order]
    out.append(("O8-ring-12-shuffled-edge-declaration", dict(population=12), model([b], nodes_r, es_r)))
    return out


def c06_requests(tag, m):
    """(form, request) pairs for a C06 model."""
    from .mdl import flatten
    nodes, _ = flatten(m)
    reqs = []
    paths = []
    for npath, (node, ops) in nodes.items():
        for o in node["ops"]:
            for l, k, _ in ops[o]["eqs"]:
                if k == "de":
                    paths.append(f"{npath}/{o}/{l}")
    depth = len(next(iter(nodes)).split("/"))
    o0 = paths[0].split("/")[-2:]
    wild = "/".join(["all"] * depth + o0)
    reqs.append(("dict", {f"k{i}": p for i, p in enumerate(paths)}))
    reqs.append(("dict", {"w": wild}))
    reqs.append(("dict", {"zz": wild, "aa": paths[-1]}))
    reqs.append(("list", [paths[-1]]))
    reqs.append(("list", [paths[1], paths[0]]))
    reqs.append(("list", [wild]))
    if depth > 1:
        first = next(iter(nodes)).split("/")[0]
        reqs.append(("dict", {"sub": "/".join([first] + ["all"] * (depth - 1) + o0)}))
        reqs.append(("dict", {"lvl": "/".join(["all"] + next(iter(nodes)).split("/")[1:] + o0)}))
    return reqs


def c07_cases():
    """(tag, features, model, ops): circuits in which NodeTemplate / OperatorTemplate objects are shared between nodes."""
    out = []
    a = op_li("opA", x="x", ins=("i1",), tau=1.0, x0=0.8, in_defaults={"i1": 0.3}, extra=["*", V("k"), V("x")])
    a["vars"]["k"] = ["const", 2.0]
    nodes = {"A": dict(ops=["opA"]), "A2": dict(ops=["opA"]), "A3": dict(ops=["opA"])}          # ONE shared NodeTemplate
    es = [edge("A/opA/x", "A2/opA/i1", 0.5), edge("A2/opA/x", "A3/opA/i1", -0.25), edge("A3/opA/x", "A/opA/i1", 1.5)]
    m = model([a], nodes, es)
    out.append(("U1-single-node-const", dict(), m, [["update_var", "A2/opA/k", 5.0]]))
    out.append(("U2-first-node-const", dict(), m, [["update_var", "A/opA/k", 1.0]]))
    out.append(("U3-initial-value", dict(), m, [["update_var", "A3/opA/x", 0.5]]))
    out.append(("U4-array-over-all", dict(), m, [["update_var", "all/opA/k", [2.0, 3.0, 4.0]]]))
    out.append(("U5-array-initial-values", dict(), m, [["update_var", "all/opA/x", [0.1, 0.2, 0.3]]]))
    out.append(("U6-two-calls-same-var", dict(), m, [["update_var", "A2/opA/k", 5.0], ["update_var", "A2/opA/k", 7.0]]))
    out.append(("U7-then-other-node", dict(), m, [["update_var", "A/opA/k", 1.5], ["update_var", "A3/opA/tau", 4.0], ["update_var", "A/opA/x", -0.2]]))
    out.append(("U8-edge-weight", dict(), m, [["edge", "A2/opA/x", "A3/opA/i1", 3.0]]))
    out.append(("U9-update-then-node-values", dict(), m, [["update_var", "A2/opA/k", 5.0], ["update_var", "A/opA/k", 1.0], ["update_var", "A3/opA/k", 6.0],
                                                          ["node_values", "A2/opA/k", 9.0]]))
    out.append(("U10-node-values-shared-template", dict(node_values_shared=True), m, [["node_values", "A/opA/tau", 5.0]]))
    # two templates interleaved T1,T2,T1,T2 and a per-node array
    b = op_li("opB", x="v", ins=("u",), tau=2.0, x0=-0.3, in_defaults={"u": 0.1}, extra=["*", V("k"), V("v")])
    b["vars"]["k"] = ["const", -1.0]
    c_ = op_alg("opC", out="u", src="z", fn="tanh", k=0.5, c=0.1, src_default=0.2)
    nodes2 = {"n1": dict(ops=["opB"]), "m1": dict(ops=["opB", "opC"]), "n2": dict(ops=["opB"]), "m2": dict(ops=["opB", "opC"])}
    m2 = model([b, c_], nodes2, [edge("n1/opB/v", "m1/opC/z", 0.7), edge("m2/opB/v", "n2/opB/u", -0.4)])
    out.append(("U11-interleaved-templates-array", dict(), m2, [["update_var", "all/opB/k", [1.0, 2.0, 3.0, 4.0]]]))
    out.append(("U12-interleaved-initial-values", dict(), m2, [["update_var", "all/opB/v", [0.1, 0.2, 0.3, 0.4]]]))
    # hierarchy whose sub-circuits reuse the same templates
    inner = model([b], {"p1": dict(ops=["opB"]), "p2": dict(ops=["opB"])}, [edge("p1/opB/v", "p2/opB/u", 1.0)])
    hm = dict(ops={}, nodes={}, edges=[edge("c1/p2/opB/v", "c2/p1/opB/u", 0.8)], circuits={"c1": inner, "c2": inner})
    out.append(("U13-hierarchy-single", dict(hierarchy=1), hm, [["update_var", "c2/p1/opB/k", 3.0]]))
    out.append(("U14-hierarchy-array", dict(hierarchy=1), hm, [["update_var", "all/all/opB/k", [1.0, 2.0, 3.0, 4.0]]]))
    # twin operators: an override addressed to ONE of two structurally identical operators of a node type
    tw = {t: mm for t, f, mm in c01_structured()}["F9-twin-operators-3-no-edge-on-one-twin"]
    out.append(("U23-twin-operators-one-twin", dict(twins=True), tw, [["update_var", "n2/inh/tau", 7.0], ["update_var", "n3/exc/v", 0.9]]))
    out.append(("U24-twin-operators-array", dict(twins=True), tw, [["update_var", "all/inh/tau", [1.0, 2.0, 3.0]], ["update_var", "n1/exc/tau", 0.5]]))
    twr = {t: mm for t, f, mm in c01_structured()}["F9-twin-operators-renamed-types"]
    out.append(("U25-twin-renamed-types", dict(twins=True), twr, [["update_var", "m2/syn_i/tau", 7.0], ["update_var", "m1/syn_e/v", 0.9],
                                                                  ["update_var", "n2/inh/v", -0.3]]))
    # node_values dictionaries: a wide scalar entry FIRST, narrower entries after it (dict order is the order of application)
    out.append(("U15-node-values-all-then-single", dict(), m, [["node_values", "all/opA/k", 3.0], ["node_values", "A/opA/tau", 0.7]]))
    out.append(("U16-node-values-all-then-array", dict(), m, [["node_values", "all/opA/k", 3.0], ["node_values", "all/opA/x", [0.1, 0.2, 0.3]]]))
    out.append(("U17-node-values-single-then-all", dict(), m, [["node_values", "A2/opA/tau", 0.7], ["node_values", "all/opA/k", 3.0]]))
    out.append(("U18-node-values-hierarchy", dict(hierarchy=1), hm, [["node_values", "all/all/opB/k", 0.3], ["node_values", "c2/p1/opB/v", 0.9],
                                                                     ["node_values", "c1/p2/opB/tau", 7.0]]))
    # DISTINCT NodeTemplate objects that were derived from one another / built from one overrides dictionary
    nodes3 = {"A": dict(ops=["opA"], over={"opA/k": 4.0}), "A2": dict(ops=["opA"], over={"opA/k": 4.0}), "A3": dict(ops=["opA"], over={"opA/k": 4.0})}
    m3 = model([a], nodes3, es)
    for share in ("derived", "common-dict"):
        out.append((f"U19-{share}-single-const", dict(share=share), m3, [["update_var", "A/opA/k", 9.0], ["update_var", "A/opA/x", 0.9]]))
        out.append((f"U20-{share}-array", dict(share=share), m3, [["update_var", "all/opA/tau", [1.0, 2.0, 3.0]]]))
        out.append((f"U21-{share}-last-node-initial-value", dict(share=share), m3, [["update_var", "A3/opA/x", 0.2]]))
        out.append((f"U22-{share}-node-values", dict(share=share), m3, [["node_values", "A2/opA/k", 7.0]]))
    return out


def c08_cases(seed=0):
    """(tag, features, model, inputs) — non-constant random inputs so that any misalignment is visible."""
    import numpy as np
    rng = np.random.default_rng(seed)
    N = 20

    def sig(n=N, cols=None):
        a = np.round(rng.uniform(-1, 1, size=(n,) if cols is None else (n, cols)), 3)
        return a.tolist()
    out = []
    integ = op_li("op", x="x", ins=("u",), tau=4.0, x0=0.0, in_defaults={"u": 0.0})
    single = model([integ], {"p": dict(ops=["op"])})
    out.append(("I1-single-1d", dict(), single, {"p/op/u": sig()}))
    out.append(("I2-single-N1", dict(), single, {"p/op/u": sig(cols=1)}))
    three = model([integ], {f"p{i}": dict(ops=["op"], over={"op/tau": 2.0 + i}) for i in range(3)},
                  [edge("p0/op/x", "p1/op/u", 0.5)])
    out.append(("I3-broadcast-1d-to-all", dict(), three, {"all/op/u": sig()}))
    out.append(("I4-one-column-per-node", dict(vec_only=True), three, {"all/op/u": sig(cols=3)}))
    out.append(("I5-single-node-of-three-plus-edge", dict(), three, {"p1/op/u": sig()}))
    two_in = op_li("op2", x="x", ins=("u", "w"), tau=4.0, x0=0.1, in_defaults={"u": 0.0, "w": 0.0})
    m2 = model([two_in], {"a": dict(ops=["op2"]), "b": dict(ops=["op2"], over={"op2/tau": 1.0})}, [edge("a/op2/x", "b/op2/w", 1.5)])
    out.append(("I6-two-inputs-two-variables", dict(), m2, {"a/op2/u": sig(), "b/op2/w": sig()}))
    out.append(("I7-two-inputs-same-variable", dict(), m2, {"b/op2/u": sig(), "all/op2/u": sig()}))
    inner = model([integ], {"p1": dict(ops=["op"]), "p2": dict(ops=["op"], over={"op/tau": 1.0})}, [edge("p1/op/x", "p2/op/u", 1.0)])
    import json
    hm = dict(ops={}, nodes={}, edges=[edge("c1/p2/op/x", "c2/p1/op/u", 0.8)], circuits={"c1": inner, "c2": json.loads(json.dumps(inner))})
    out.append(("I8-hierarchy-single", dict(hierarchy=1), hm, {"c2/p2/op/u": sig()}))
    out.append(("I9-hierarchy-wildcard", dict(hierarchy=1), hm, {"all/p1/op/u": sig()}))
    out.append(("I10-coarse-input-adaptive-grid", dict(coarse=True), single, {"p/op/u": sig(n=9)}))
    # two node types (both carry the driven operator, one has a second operator) declared INTERLEAVED: column i drives node i
    aux = op_li("aux", x="q", ins=("w",), tau=1.5, x0=0.1, in_defaults={"w": 0.2})
    inter = {"a1": dict(ops=["op"], over={"op/tau": 2.0}), "b1": dict(ops=["op", "aux"], over={"op/tau": 3.0}),
             "a2": dict(ops=["op"], over={"op/tau": 4.0}), "b2": dict(ops=["op", "aux"], over={"op/tau": 5.0})}
    out.append(("I15-column-per-node-interleaved-types", dict(vec_only=True), model([integ, aux], inter, [edge("a1/op/x", "b2/aux/w", 0.5)]),
                {"all/op/u": sig(cols=4)}))
    out.append(("I16-broadcast-interleaved-types", dict(), model([integ, aux], inter, [edge("a1/op/x", "b2/aux/w", 0.5)]), {"all/op/u": sig()}))
    # hierarchy whose circuits and nodes are NOT declared in alphabetical order: one column per node in DECLARATION order
    inner_u = model([integ], {"pc": dict(ops=["op"]), "ein": dict(ops=["op"], over={"op/tau": 1.0})}, [edge("pc/op/x", "ein/op/u", 1.0)])
    hu = dict(ops={}, nodes={}, edges=[edge("right/ein/op/x", "left/pc/op/u", 0.8)],
              circuits={"right": inner_u, "left": json.loads(json.dumps(inner_u))})
    out.append(("I11-hierarchy-unsorted-names-column-per-node", dict(hierarchy=1, vec_only=True), hu, {"all/all/op/u": sig(cols=4)}))
    out.append(("I12-hierarchy-unsorted-names-level-wildcard", dict(hierarchy=1, vec_only=True), hu, {"left/all/op/u": sig(cols=2)}))
    out.append(("I13-hierarchy-unsorted-names-broadcast", dict(hierarchy=1), hu, {"all/ein/op/u": sig()}))
    return out


def c16_cases(seed=0):
    """(tag, features, population spec)."""
    import numpy as np
    rng = np.random.default_rng(seed)
    out = []
    pop = op_li("op", x="r", ins=("r_in",), tau=2.0, x0=0.4, in_defaults={"r_in": 0.0})
    tg = op_li("tg", x="v", ins=("u", "w"), tau=1.0, x0=0.1, in_defaults={"u": 0.0, "w": 0.0})
    ops = {"op": pop, "tg": tg}

    def W(nt, ns, sparse=0.4, signed=True):
        a = np.round(rng.uniform(-1 if signed else 0.1, 1, size=(nt, ns)), 2)
        mask = rng.uniform(size=(nt, ns)) < sparse
        a[mask] = 0.0
        if not a.any():
            a[0, 0] = 0.5
        return a.tolist()

    def het(n, lo, hi):
        return np.round(rng.uniform(lo, hi, size=n), 2).tolist()
    for n in (1, 2, 3, 5):
        ps = dict(ops=ops, pops={"a": dict(ops=["op"], n=n, params={"op/tau": het(n, 1.0, 3.0), "op/r": het(n, -0.5, 0.5)})},
                  conns=[dict(src="a/op/r", tgt="a/op/r_in", W=W(n, n))])
        out.append((f"P1-single-pop-n{n}-signed-sparse", dict(n=n), ps))
    ps = dict(ops=ops, pops={"a": dict(ops=["op"], n=3, params={"op/tau": het(3, 1.0, 3.0), "op/r": het(3, -0.5, 0.5)}),
                             "b": dict(ops=["tg"], n=2, params={"tg/v": het(2, -0.5, 0.5), "tg/tau": 1.5})},
              conns=[dict(src="a/op/r", tgt="b/tg/u", W=[[0.5, -1.0, 0.0], [-0.3, 0.0, 0.8]]),
                     dict(src="b/tg/v", tgt="a/op/r_in", W=W(3, 2)), dict(src="a/op/r", tgt="b/tg/w", W=W(2, 3, 0.2))])
    out.append(("P2-two-pops-nonsquare-signed", dict(nonsquare=True), ps))
    ps = dict(ops=ops, pops={"a": dict(ops=["op"], n=4, params={"op/r": het(4, -0.5, 0.5)}),
                             "b": dict(ops=["tg"], n=3, params={"tg/v": het(3, -0.5, 0.5)})},
              conns=[dict(src="a/op/r", tgt="b/tg/u", W=0.7), dict(src="b/tg/v", tgt="a/op/r_in", W=-0.25)])
    out.append(("P3-scalar-weights-global-coupling", dict(scalar=True), ps))
    ps = dict(ops=ops, pops={"hub": dict(ops=["op"], n=1, params={"op/tau": 0.5, "op/r": 0.5}),
                             "b": dict(ops=["tg"], n=3, params={"tg/v": het(3, -0.5, 0.5)})},
              conns=[dict(src="hub/op/r", tgt="hub/op/r_in", W=[[0.3]]), dict(src="hub/op/r", tgt="b/tg/u", W=[[1.0], [-0.5], [0.25]])])
    out.append(("P4-one-unit-hub-with-params", dict(n1_params=True), ps))
    for d, tagd in ((0.3, "0.3"), (0.2, "0.2")):
        ps = dict(ops=ops, pops={"a": dict(ops=["op"], n=3, params={"op/tau": het(3, 1.0, 3.0), "op/r": het(3, -0.5, 0.5)})},
                  conns=[dict(src="a/op/r", tgt="a/op/r_in", W=W(3, 3), d=d)])
        out.append((f"P5-discrete-delay-{tagd}", dict(delay=d, dt=0.1), ps))
    # an explicit spread of zero means "no distribution": the same discrete delay as without a spread (matrix and scalar weights)
    ps = dict(ops=ops, pops={"a": dict(ops=["op"], n=3, params={"op/tau": het(3, 1.0, 3.0), "op/r": het(3, -0.5, 0.5)}),
                             "b": dict(ops=["tg"], n=2, params={"tg/v": het(2, -0.5, 0.5)})},
              conns=[dict(src="a/op/r", tgt="b/tg/u", W=W(2, 3, 0.0), d=0.3, s=0.0), dict(src="b/tg/v", tgt="a/op/r_in", W=0.6, d=0.2, s=0.0)])
    out.append(("P5c-discrete-delay-explicit-zero-spread", dict(delay=0.3, dt=0.1, zero_spread=True), ps))
    ps = dict(ops=ops, pops={"a": dict(ops=["op"], n=3, params={"op/tau": het(3, 1.0, 3.0), "op/r": het(3, -0.5, 0.5)}),
                             "b": dict(ops=["tg"], n=3, params={"tg/v": het(3, -0.5, 0.5)})},
              conns=[dict(src="a/op/r", tgt="b/tg/u", W=W(3, 3), d=0.3), dict(src="a/op/r", tgt="b/tg/w", W=W(3, 3)),
                     dict(src="b/tg/v", tgt="a/op/r_in", W=0.4)])
    out.append(("P5b-delayed-and-undelayed-from-one-source", dict(delay=0.3, dt=0.1), ps))
    for d, s_ in ((0.3, 0.1), (0.5, 0.3), (0.4, 0.2), (0.3, 0.5)):
        ps = dict(ops=ops, pops={"a": dict(ops=["op"], n=3, params={"op/tau": het(3, 1.0, 3.0), "op/r": het(3, -0.5, 0.5)})},
                  conns=[dict(src="a/op/r", tgt="a/op/r_in", W=W(3, 3), d=d, s=s_)])
        out.append((f"P6-gamma-delay-{d}-{s_}", dict(delay=d, spread=s_, dt=0.01), ps))
    # coupling edge templates, evaluated per (target, source) pair
    sin_e = dict(name="cs", eqs=[["s", "alg", ["call", "sin", ["-", V("x_pre"), V("x_post")]]]],
                 vars={"s": ["output", 0.0], "x_pre": ["input", 0.0], "x_post": ["input", 0.0]})
    tanh_e = dict(name="ct", eqs=[["s", "alg", ["*", N(2.0), ["call", "tanh", V("x_pre")]]]], vars={"s": ["output", 0.0], "x_pre": ["input", 0.0]})
    sinp_e = dict(name="cp", eqs=[["s", "alg", ["call", "sin", V("x_pre")]]], vars={"s": ["output", 0.0], "x_pre": ["input", 0.0]})
    ps = dict(ops=ops, pops={"a": dict(ops=["op"], n=3, params={"op/tau": het(3, 1.0, 3.0), "op/r": het(3, -0.5, 0.5)})},
              conns=[dict(src="a/op/r", tgt="a/op/r_in", W=W(3, 3, 0.2), edge=dict(sin_e, map={"x_pre": "source", "x_post": "a/op/r"}))])
    out.append(("P7-coupling-edge-pre-and-post", dict(coupling=True), ps))
    ps = dict(ops=ops, pops={"a": dict(ops=["op"], n=3, params={"op/tau": het(3, 1.0, 3.0), "op/r": het(3, -0.5, 0.5)}),
                             "b": dict(ops=["tg"], n=2, params={"tg/v": het(2, -0.5, 0.5)})},
              conns=[dict(src="b/tg/v", tgt="a/op/r_in", W=W(3, 2, 0.0), edge=dict(tanh_e, map={"x_pre": "source"})),
                     dict(src="a/op/r", tgt="b/tg/u", W=W(2, 3, 0.0), edge=dict(sinp_e, map={"x_pre": "source"}))])
    out.append(("P8-two-different-coupling-edges", dict(coupling=True), ps))
    # coupling edges with a UNIFORM weight matrix (all-to-all K/N) and on a 1x1 matrix: still evaluated per (target, source) pair
    ps = dict(ops=ops, pops={"a": dict(ops=["op"], n=4, params={"op/tau": het(4, 1.0, 3.0), "op/r": het(4, -0.5, 0.5)})},
              conns=[dict(src="a/op/r", tgt="a/op/r_in", W=[[0.25] * 4 for _ in range(4)], edge=dict(sin_e, map={"x_pre": "source", "x_post": "a/op/r"}))])
    out.append(("P7e-coupling-edge-uniform-matrix", dict(coupling=True), ps))
    ps = dict(ops=ops, pops={"a": dict(ops=["op"], n=3, params={"op/tau": het(3, 1.0, 3.0), "op/r": het(3, -0.5, 0.5)})},
              conns=[dict(src="a/op/r", tgt="a/op/r_in", W=[[1.0] * 3 for _ in range(3)], edge=dict(tanh_e, map={"x_pre": "source"}))])
    out.append(("P7f-coupling-edge-all-ones-mask", dict(coupling=True), ps))
    # a coupling edge whose operator has TWO algebraic equations (the second uses the first in a product)
    two_eq = dict(name="c2", eqs=[["z", "alg", ["+", V("x_pre"), N(1.0)]], ["s", "alg", ["*", V("z"), N(2.0)]]],
                  vars={"s": ["output", 0.0], "z": ["state", 0.0], "x_pre": ["input", 0.0]})
    ps = dict(ops=ops, pops={"a": dict(ops=["op"], n=3, params={"op/tau": het(3, 1.0, 3.0), "op/r": het(3, -0.5, 0.5)})},
              conns=[dict(src="a/op/r", tgt="a/op/r_in", W=W(3, 3, 0.2), edge=dict(two_eq, map={"x_pre": "source"}))])
    out.append(("P7b-coupling-edge-two-equations", dict(coupling=True), ps))
    # the coupling written as TWO chained edge operators, declared output-operator first / in evaluation order
    chain = dict(name="c2o", eqs=[["dx", "alg", ["-", V("x_s"), V("x_t")]], ["s", "alg", ["*", V("kk"), ["call", "sin", V("dx")]]]],
                 vars={"s": ["output", 0.0], "dx": ["state", 0.0], "x_s": ["input", 0.0], "x_t": ["input", 0.0], "kk": ["const", 0.8]})
    d_op = dict(name="d_op", eqs=[chain["eqs"][0]], vars={"dx": ["output", 0.0], "x_s": ["input", 0.0], "x_t": ["input", 0.0]})
    g_op = dict(name="g_op", eqs=[chain["eqs"][1]], vars={"s": ["output", 0.0], "dx": ["input", 0.0], "kk": ["const", 0.8]})
    for order, tagx in (([g_op, d_op], "output-operator-first"), ([d_op, g_op], "evaluation-order")):
        ps = dict(ops=ops, pops={"a": dict(ops=["op"], n=3, params={"op/tau": het(3, 1.0, 3.0), "op/r": het(3, -0.5, 0.5)}),
                                 "b": dict(ops=["tg"], n=2, params={"tg/v": het(2, -0.5, 0.5)})},
                  conns=[dict(src="a/op/r", tgt="b/tg/u", W=W(2, 3, 0.0), edge=dict(chain, ops_split=order, map={"x_s": "source", "x_t": "b/tg/v"}))])
        out.append((f"P7g-coupling-edge-two-chained-operators-{tagx}", dict(coupling=True, chained=True), ps))
    # coupling edge between two populations whose post-synaptic variable has the SAME name as the source variable
    ps = dict(ops=ops, pops={"a": dict(ops=["op"], n=3, params={"op/r": het(3, -0.5, 0.5)}),
                             "c": dict(ops=["op"], n=3, params={"op/r": het(3, -0.5, 0.5), "op/tau": 3.0})},
              conns=[dict(src="a/op/r", tgt="c/op/r_in", W=W(3, 3, 0.2), edge=dict(sin_e, map={"x_pre": "source", "x_post": "c/op/r"}))])
    out.append(("P7c-coupling-edge-post-variable-named-like-source", dict(coupling=True), ps))
    # coupling edge operator with a constant
    gain_e = dict(name="cg", eqs=[["s", "alg", ["*", V("gain"), ["call", "tanh", V("x_pre")]]]],
                  vars={"s": ["output", 0.0], "x_pre": ["input", 0.0], "gain": ["const", 1.7]})
    ps = dict(ops=ops, pops={"a": dict(ops=["op"], n=3, params={"op/tau": het(3, 1.0, 3.0), "op/r": het(3, -0.5, 0.5)})},
              conns=[dict(src="a/op/r", tgt="a/op/r_in", W=W(3, 3, 0.2), edge=dict(gain_e, map={"x_pre": "source"}))])
    out.append(("P7d-coupling-edge-with-constant", dict(coupling=True), ps))
    # listed findings (loud): a coupling edge from a single-unit source; two Connectivity objects with the same source and target
    ps = dict(ops=ops, pops={"h": dict(ops=["op"], n=1, params={"op/r": 0.5}), "b": dict(ops=["tg"], n=3, params={"tg/v": het(3, -0.5, 0.5)})},
              conns=[dict(src="h/op/r", tgt="b/tg/u", W=[[1.0], [-0.5], [0.25]], edge=dict(tanh_e, map={"x_pre": "source"}))])
    out.append(("P12-coupling-edge-from-single-unit-source", dict(coupling=True, single_source_coupling=True), ps))
    ps = dict(ops=ops, pops={"a": dict(ops=["op"], n=3, params={"op/r": het(3, -0.5, 0.5)}), "b": dict(ops=["tg"], n=2, params={"tg/v": het(2, -0.5, 0.5)})},
              conns=[dict(src="a/op/r", tgt="b/tg/u", W=W(2, 3, 0.0)), dict(src="a/op/r", tgt="b/tg/u", W=W(2, 3, 0.0))])
    out.append(("P13-two-connectivities-same-source-same-target", dict(two_conns_same_pair=True), ps))
    # a coupling edge template WITH a gamma-kernel delay: the coupling function reads the delayed source
    ps = dict(ops=ops, pops={"a": dict(ops=["op"], n=3, params={"op/tau": het(3, 1.0, 3.0), "op/r": het(3, -0.5, 0.5)})},
              conns=[dict(src="a/op/r", tgt="a/op/r_in", W=W(3, 3, 0.2), d=0.1, s=0.05, edge=dict(tanh_e, map={"x_pre": "source"}))])
    out.append(("P6c-coupling-edge-with-gamma-delay", dict(coupling=True, delay=0.1, spread=0.05, dt=0.01), ps))
    # several Connectivity objects (from different source populations) converging on one target variable: scalar + matrix
    ps = dict(ops=ops, pops={"a": dict(ops=["op"], n=3, params={"op/tau": het(3, 1.0, 3.0), "op/r": het(3, -0.5, 0.5)}),
                             "b": dict(ops=["tg"], n=2, params={"tg/v": het(2, -0.5, 0.5)})},
              conns=[dict(src="a/op/r", tgt="a/op/r_in", W=-0.6), dict(src="b/tg/v", tgt="a/op/r_in", W=W(3, 2, 0.0)),
                     dict(src="a/op/r", tgt="b/tg/u", W=1.0), dict(src="b/tg/v", tgt="b/tg/u", W=W(2, 2, 0.0))])
    out.append(("P9-scalar-and-matrix-onto-one-target", dict(scalar=True, converge=True), ps))
    ps = dict(ops=ops, pops={"a": dict(ops=["op"], n=3, params={"op/r": het(3, -0.5, 0.5)}),
                             "b": dict(ops=["tg"], n=1, params={"tg/v": 0.3})},
              conns=[dict(src="a/op/r", tgt="b/tg/u", W=[[0.5, -1.0, 0.25]]), dict(src="b/tg/v", tgt="a/op/r_in", W=[[0.4], [0.0], [-0.7]])])
    out.append(("P10-single-unit-target", dict(n1_target=True), ps))
    return out


def dde_models():
    """Models with past(x, tau) terms (C10, C12)."""
    out = []
    # delayed variable FIRST in the state vector
    d1 = dict(name="d1", eqs=[["x", "de", ["*", N(-1.0), ["past", "x", 0.5]]]], vars={"x": ["output", 1.0]})
    out.append(("H1-scalar-one-delay", dict(delays=[0.5]), model([d1], {"p": dict(ops=["d1"])})))
    # delayed variable SECOND; positive coefficient inside a sum
    d2 = dict(name="d2", eqs=[["x", "de", ["+", ["neg", V("x")], ["*", V("a"), V("z")]]],
                              ["z", "de", ["+", V("x"), ["*", N(2.0), ["past", "z", 0.5]]]]],
              vars={"x": ["output", 0.3], "z": ["state", -0.2], "a": ["const", 0.7]})
    out.append(("H2-delayed-variable-second", dict(delays=[0.5], second=True), model([d2], {"p": dict(ops=["d2"])})))
    # two delays on two variables
    d3 = dict(name="d3", eqs=[["x", "de", ["+", ["neg", V("x")], ["*", N(0.5), ["past", "z", 0.3]]]],
                              ["z", "de", ["+", ["neg", V("z")], ["*", N(1.5), ["past", "x", 0.7]]]]],
              vars={"x": ["output", 0.3], "z": ["state", -0.2]})
    out.append(("H3-two-delays-two-variables", dict(delays=[0.3, 0.7]), model([d3], {"p": dict(ops=["d3"])})))
    # one variable read at two delays
    d4 = dict(name="d4", eqs=[["x", "de", ["+", ["+", ["neg", V("x")], ["*", N(0.5), ["past", "x", 0.3]]], ["*", N(0.25), ["past", "x", 0.8]]]]],
              vars={"x": ["output", 0.6]})
    out.append(("H4-one-variable-two-delays", dict(delays=[0.3, 0.8]), model([d4], {"p": dict(ops=["d4"])})))
    # two DIFFERENT delays less than one step apart (they round to the same multiple of every step size used here): each keeps its own lag
    d20 = dict(name="d20", eqs=[["x", "de", ["+", ["+", ["neg", V("x")], ["*", N(0.5), ["past", "x", 0.3]]], ["*", N(0.25), ["past", "x", 0.3004]]]]],
               vars={"x": ["output", 0.6]})
    out.append(("H20-two-delays-less-than-a-step-apart", dict(delays=[0.3, 0.3004]), model([d20], {"p": dict(ops=["d20"])})))
    d8 = dict(name="d8", eqs=[["x", "de", ["+", ["neg", V("x")], ["*", N(0.5), ["past", "x", 0.3]]]],
                              ["z", "de", ["+", ["neg", V("z")], ["*", N(1.5), ["past", "x", 0.7]]]]],
              vars={"x": ["output", 0.3], "z": ["state", -0.2]})
    out.append(("H8-one-variable-two-delays-two-equations", dict(delays=[0.3, 0.7]), model([d8], {"p": dict(ops=["d8"])})))
    # instantaneous entry that still contains a delayed factor
    d5 = dict(name="d5", eqs=[["x", "de", ["+", ["neg", V("x")], ["*", V("x"), ["past", "x", 0.4]]]]], vars={"x": ["output", 0.6]})
    out.append(("H5-product-with-delayed-factor", dict(delays=[0.4]), model([d5], {"p": dict(ops=["d5"])})))
    # delayed EDGES under an adaptive solver (DDE branch of the edge buffer), several delays from one source
    pop = op_li("op", x="r", ins=("r_in",), tau=2.0, x0=0.4, in_defaults={"r_in": 0.0})
    tg = op_li("tg", x="v", ins=("u",), tau=1.0, x0=0.1, in_defaults={"u": 0.0})
    out.append(("H6-delayed-edges-two-delays-one-source", dict(edges=True),
                model([pop, tg], {"p1": dict(ops=["op"]), "p2": dict(ops=["op"], over={"op/tau": 3.0}), "t1": dict(ops=["tg"]),
                                  "t2": dict(ops=["tg"], over={"tg/tau": 2.0})},
                      [edge("p1/op/r", "t1/tg/u", 1.0, 0.3), edge("p1/op/r", "t2/tg/u", 2.0, 0.7), edge("p2/op/r", "p1/op/r_in", -0.5, 0.5),
                       edge("t1/tg/v", "p2/op/r_in", 0.8)])))
    # a delayed edge and an UNDELAYED sibling edge leaving the same source variable (the undelayed one must read the present)
    out.append(("H9-delayed-and-undelayed-siblings", dict(edges=True),
                model([pop, tg], {"p1": dict(ops=["op"]), "p2": dict(ops=["op"], over={"op/tau": 3.0}), "t1": dict(ops=["tg"]),
                                  "t2": dict(ops=["tg"], over={"tg/tau": 2.0})},
                      [edge("p1/op/r", "t1/tg/u", 1.0, 0.3), edge("p1/op/r", "t2/tg/u", 2.0), edge("p2/op/r", "p1/op/r_in", -0.5, 0.5),
                       edge("t1/tg/v", "p2/op/r_in", 0.8)])))
    # a sibling whose delay is shorter than the step size handed to the compiler (adaptive solvers keep the true delay)
    out.append(("H10-sibling-delay-below-step-size", dict(edges=True),
                model([pop, tg], {"p1": dict(ops=["op"]), "p2": dict(ops=["op"], over={"op/tau": 3.0}), "t1": dict(ops=["tg"]),
                                  "t2": dict(ops=["tg"], over={"tg/tau": 2.0})},
                      [edge("p1/op/r", "t1/tg/u", 1.0, 0.3), edge("p1/op/r", "t2/tg/u", 2.0, 0.004), edge("p2/op/r", "p1/op/r_in", -0.5, 0.5),
                       edge("t1/tg/v", "p2/op/r_in", 0.8)])))
    # an edge delay of exactly 1.0 time units (the value the implementation uses internally as "no delay" placeholder, as an integer)
    out.append(("H11-edge-delay-exactly-one", dict(edges=True),
                model([pop, tg], {"p1": dict(ops=["op"]), "t1": dict(ops=["tg"])}, [edge("p1/op/r", "t1/tg/u", 1.5, 1.0), edge("t1/tg/v", "p1/op/r_in", -0.5)])))
    out.append(("H12-edge-delay-integer-one", dict(edges=True, int_delay_one=True),
                model([pop, tg], {"p1": dict(ops=["op"]), "t1": dict(ops=["tg"])}, [edge("p1/op/r", "t1/tg/u", 1.5, 1), edge("t1/tg/v", "p1/op/r_in", -0.5)])))
    # two delays on one variable, both delayed terms NON-linear in the delayed state (history Jacobians depend on the delayed values)
    d17 = dict(name="d17", eqs=[["x", "de", ["+", ["+", ["neg", V("x")], ["*", N(0.5), ["pow", ["past", "x", 0.3], 2]]],
                                                 ["*", N(0.25), ["pow", ["past", "x", 0.8], 3]]]]], vars={"x": ["output", 0.6]})
    out.append(("H17-two-delays-nonlinear-in-the-delayed-state", dict(delays=[0.3, 0.8]), model([d17], {"p": dict(ops=["d17"])})))
    # TWO delayed states inside ONE non-linearity; the one met first in the equation (w) comes after the other (u) alphabetically
    d18 = dict(name="d18", eqs=[["u", "de", ["+", ["neg", ["/", V("u"), V("tau")]],
                                             ["*", V("k"), ["call", "sigmoid", ["+", ["*", V("a"), ["past", "w", 1.25]], ["*", V("c"), ["past", "u", 0.5]]]]]]],
                                ["w", "de", ["+", ["neg", V("w")], ["*", V("b"), ["call", "tanh", V("u")]]]]],
               vars={"u": ["output", 0.3], "w": ["state", -0.2], "tau": ["const", 2.0], "k": ["const", 1.5], "a": ["const", 0.8], "c": ["const", -0.6],
                     "b": ["const", 0.7]})
    out.append(("H18-two-delayed-states-in-one-nonlinearity", dict(delays=[0.5, 1.25]), model([d18], {"p": dict(ops=["d18"])})))
    d19 = dict(name="d19", eqs=[["u", "de", ["+", ["neg", V("u")], ["*", ["past", "z", 0.75], ["past", "a", 0.25]]]],
                                ["z", "de", ["-", V("a"), V("z")]], ["a", "de", ["-", V("u"), V("a")]]],
               vars={"u": ["output", 0.3], "z": ["state", -0.2], "a": ["state", 0.5]})
    out.append(("H19-product-of-two-delayed-states", dict(delays=[0.25, 0.75]), model([d19], {"p": dict(ops=["d19"])})))
    # negative coefficient in front of a delayed term inside a sum (printing of ` - 2.0*past(...)`)
    d7 = dict(name="d7", eqs=[["x", "de", ["-", V("z"), V("x")]],
                              ["z", "de", ["-", V("x"), ["*", N(2.0), ["past", "z", 0.5]]]]],
              vars={"x": ["output", 0.3], "z": ["state", -0.2]})
    out.append(("H7-negative-coefficient-delayed-term", dict(delays=[0.5]), model([d7], {"p": dict(ops=["d7"])})))
    return out


def c12_models():
    """Scalar models for the Jacobian check."""
    out = []
    st = {t: m for t, f, m in c01_structured()}
    out.append(("J1-linear-two-nodes", dict(), st["F2-parallel-1"]))
    out.append(("J2-tanh-algebraic-chain", dict(), st["F1-chain-123"]))
    out.append(("J3-fanin-two-inputs", dict(), st["F6-fanin-two-inputs"]))

    def nl(name, fn, x="x"):
        tree = ["+", ["neg", ["/", V(x), V("tau")]], ["*", V("k"), ["call", fn, ["*", V("g"), V("u")]]]]
        return dict(name=name, eqs=[[x, "de", tree]],
                    vars={x: ["output", 0.3], "tau": ["const", 2.0], "k": ["const", 1.5], "g": ["const", 0.8], "u": ["input", 0.2]})
    for fn in ("sigmoid", "sin", "tanh", "exp", "absv", "cos"):
        o = nl("nlo", fn)
        out.append((f"J4-{fn}", dict(fn=fn), model([o], {"p1": dict(ops=["nlo"]), "p2": dict(ops=["nlo"], over={"nlo/tau": 1.0})},
                                                    [edge("p1/nlo/x", "p2/nlo/u", 1.5), edge("p2/nlo/x", "p1/nlo/u", -0.7)])))
    for fn in ("sigmoid", "tanh", "exp"):
        bare = dict(name="bs", eqs=[["x", "de", ["+", ["neg", V("x")], ["*", V("k"), ["call", fn, V("z")]]]],
                                    ["z", "de", ["+", ["neg", V("z")], ["*", ["call", fn, V("x")], ["call", "tanh", V("z")]]]]],
                    vars={"x": ["output", 0.3], "z": ["state", -0.2], "k": ["const", 1.5]})
        out.append((f"J9-{fn}-of-a-bare-state-variable", dict(fn=fn), model([bare], {"p": dict(ops=["bs"])})))
    prod = dict(name="pr", eqs=[["x", "de", ["-", ["*", V("x"), V("z")], ["/", V("x"), ["+", N(2.0), ["pow", V("z"), 2]]]]],
                                ["z", "de", ["+", ["neg", V("z")], ["*", V("a"), ["pow", V("x"), 2]]]]],
                vars={"x": ["output", 0.3], "z": ["state", -0.2], "a": ["const", 0.7]})
    out.append(("J5-products-quotients", dict(), model([prod], {"p": dict(ops=["pr"])})))
    out.append(("J6-two-state-algebraic-output", dict(), st["F4-control-two-nodes"]))
    # a state with a state-independent right-hand side that is NOT last (pacemaker), feeding others
    pace = dict(name="pm", eqs=[["phi", "de", V("omega")]], vars={"phi": ["output", 0.1], "omega": ["const", 2.0]})
    rcv = op_li("rc", x="v", ins=("u",), tau=1.0, x0=0.1)
    out.append(("J7-pacemaker-first", dict(), model([pace, rcv], {"a": dict(ops=["pm"]), "b": dict(ops=["rc"]), "c": dict(ops=["rc"], over={"rc/tau": 3.0})},
                                                    [edge("a/pm/phi", "b/rc/u", 0.5), edge("b/rc/v", "c/rc/u", 1.0)])))
    # diamond of algebraic variables: c2 = f(c1), u' uses c2 and c1
    dia = dict(name="dm", eqs=[["c1", "alg", ["*", V("g"), ["call", "tanh", V("x")]]],
                               ["c2", "alg", ["*", N(2.0), ["pow", V("c1"), 2]]],
                               ["x", "de", ["+", ["+", ["neg", V("x")], ["*", V("k"), V("c2")]], V("c1")]]],
               vars={"x": ["output", 0.3], "c1": ["state", 0.0], "c2": ["state", 0.0], "g": ["const", 0.8], "k": ["const", 1.5]})
    out.append(("J8-diamond-algebraic", dict(), model([dia], {"p": dict(ops=["dm"])})))
    for t, f, m in dde_models():
        if t.startswith("H7"):
            continue        # cannot be compiled at all on the pinned tree (known finding KF-C10-negative-coefficient-delayed-term)
        if t.startswith(("H9", "H10", "H11", "H12")):
            continue        # fixed-step compilation of these uses a ring buffer that is read one call late (KF-C09): the compiled
            #                 function is stateful between calls, so finite differences of it are not a derivative
        out.append((t, dict(f, dde=True), m))
    return out


# --------------------------------------------------------------------------------------------- C05 expression trees
C05_FUNCS1 = ["sin", "cos", "tanh", "exp", "sigmoid", "absv", "arctan", "sinh", "cosh"]
C05_FUNCS2 = ["maxi", "mini"]


def _has_var(tree):
    from .mdl import free_vars
    return bool(free_vars(tree) - {"pi", "E"})


def random_tree(rng, depth, names, banned=frozenset()):
    """Random expression tree over names; divisions only by (c + sub^2), c >= 1 (no singularities); exp of bounded args.
    Triggers of listed known findings are avoided by construction (each has its own witness): a function nested inside its
    own argument, a PyRates-specific function of constants only, the constant E."""
    if depth == 0 or rng.random() < 0.2:
        r = rng.random()
        if r < 0.6:
            return V(rng.choice(names))
        if r < 0.7:
            return V("pi")
        return N(rng.choice([2.0, 0.5, 3.0, 1.5, 0.25, 10.0]))
    k = rng.choice(["+", "-", "*", "/", "neg", "pow", "call1", "call2", "+", "*", "-"])
    if k == "neg":
        return ["neg", random_tree(rng, depth - 1, names, banned)]
    if k == "pow":
        return ["pow", random_tree(rng, depth - 1, names, banned), rng.choice([2, 3])]
    if k == "/":
        return ["/", random_tree(rng, depth - 1, names, banned),
                ["+", N(rng.choice([1.0, 2.0])), ["pow", random_tree(rng, depth - 1, names, banned), 2]]]
    if k == "call1":
        free = [f for f in C05_FUNCS1 if f not in banned and not (f in ("exp", "sinh", "cosh") and "tanh" in banned)]
        if not free:
            return V(rng.choice(names))
        fn = rng.choice(free)
        inner_ban = banned | {fn} | ({"tanh"} if fn in ("exp", "sinh", "cosh") else set())
        arg = random_tree(rng, depth - 1, names, inner_ban)
        if not _has_var(arg):
            arg = ["+", arg, V(names[-1])]
        if fn in ("exp", "sinh", "cosh"):
            arg = ["call", "tanh", arg]          # keeps the argument bounded
        return ["call", fn, arg]
    if k == "call2":
        free = [f for f in C05_FUNCS2 if f not in banned]
        if not free:
            return V(rng.choice(names))
        fn = rng.choice(free)
        a1 = random_tree(rng, depth - 1, names, banned | {fn})
        a2 = random_tree(rng, depth - 1, names, banned | {fn})
        if not _has_var(a1) and not _has_var(a2):
            a1 = ["+", a1, V(names[-1])]
        return ["call", fn, a1, a2]
    return [k, random_tree(rng, depth - 1, names, banned), random_tree(rng, depth - 1, names, banned)]


def c05_witnesses():
    def mk(tree):
        return model([dict(name="eo", eqs=[["x", "de", tree]], vars={"x": ["output", 0.3], "r": ["const", 0.7]})], {"p": dict(ops=["eo"])})
    return [
        ("W-nested-same-function", dict(), mk(["call", "sin", ["call", "sin", V("x")]])),
        ("W-nested-same-function-maxi", dict(), mk(["call", "maxi", V("x"), ["call", "maxi", V("r"), ["+", V("x"), V("r")]]])),
        ("W-function-of-constants-only", dict(), mk(["+", ["call", "maxi", N(1.5), N(2.0)], V("x")])),
        ("W-function-of-constants-only-sigmoid", dict(), mk(["+", ["call", "sigmoid", N(2.0)], V("x")])),
        ("W-constant-E", dict(), mk(["*", V("E"), V("x")])),
    ]


def c05_structured():
    """Expression shapes that must evaluate correctly (not known-finding witnesses): sums of quotients whose terms print to the
    same length and contain one another, and pairs of functions one of whose names is a prefix of the other's."""
    def mk(tree):
        return model([dict(name="eo", eqs=[["x", "de", tree]],
                           vars={"x": ["output", 0.3], "a": ["const", 1.7], "b": ["const", 0.6], "tau": ["const", 2.5]})], {"p": dict(ops=["eo"])})
    x, a, b, tau = V("x"), V("a"), V("b"), V("tau")
    q = lambda n, d: ["/", n, d]
    f = lambda name, arg: ["call", name, arg]
    one = ["num", 1]          # INTEGER literal `1` (prints as `1`, so `1/x` and `a/x` have the same printed length)
    forms = [
        ("S1-one-over-x-plus-a-over-x", ["+", q(one, x), q(a, x)]),
        ("S2-a-over-x-plus-one-over-x", ["+", q(a, x), q(one, x)]),
        ("S3-one-over-tau-plus-x-over-tau", ["+", q(one, tau), q(x, tau)]),
        ("S4-quotients-with-compound-denominator", ["+", q(one, ["+", a, x]), q(b, ["+", a, x])]),
        ("S5-three-quotients", ["+", ["+", q(one, x), q(a, x)], q(b, x)]),
        ("S6-difference-of-quotients", ["-", q(a, x), q(one, x)]),
        ("S7-float-literal-quotients", ["+", q(N(1.0), x), q(a, x)]),
        ("S8-two-over-x-plus-b-over-x", ["+", q(["num", 2], x), q(b, x)]),
        ("K1-two-pi", ["*", ["num", 2], V("pi")]),
        ("K2-pi-half", ["/", V("pi"), ["num", 2]]),
        ("K3-pi", V("pi")),
        ("K4-two-pi-plus-x-minus-x", ["-", ["+", ["*", ["num", 2], V("pi")], x], x]),
        ("K5-float-two-pi", ["*", N(2.0), V("pi")]),
        ("L1-x-times-exp-of-integer", ["*", x, f("exp", ["num", -2])]),
        ("L2-x-over-exp-of-integer", q(x, f("exp", ["num", 2]))),
        ("L3-tanh-of-integer-plus-x", ["+", f("tanh", ["num", 2]), x]),
        ("L4-sin-cos-of-integers", ["+", ["*", f("sin", ["num", 1]), x], ["*", f("cos", ["num", 3]), a]]),
        ("L5-exp-of-float-literal", ["*", x, f("exp", N(-2.0))]),
        ("L6-log-of-integer", ["+", f("log", ["num", 2]), x]),
        ("T1-tanh-plus-tan", ["+", f("tanh", x), f("tan", x)]),
        ("T2-sinh-times-sin", ["*", f("sinh", x), f("sin", x)]),
        ("T3-cos-over-cosh", q(f("cos", ["*", a, x]), f("cosh", x))),
        ("T4-tan-of-tanh", f("tan", ["*", a, f("tanh", x)])),
        ("T5-tan-plus-tanh", ["+", f("tan", ["*", a, x]), f("tanh", x)]),
        ("T6-cosh-minus-cos", ["-", f("cosh", x), f("cos", ["*", a, x])]),
        ("T7-tanh-of-tan", f("tanh", ["*", a, f("tan", x)])),
        ("T8-sin-plus-sinh", ["+", f("sin", x), f("sinh", x)]),
    ]
    out = []
    for tag, tree in forms:
        used = {"x"} | {n for n in ("a", "b", "tau") if f'"{n}"' in __import__("json").dumps(tree)}
        m = mk(tree)
        m["ops"]["eo"]["vars"] = {k: v for k, v in m["ops"]["eo"]["vars"].items() if k in used}
        out.append((tag, dict(structured=True), m))
    return out


C05_NAME_SETS = [["a", "b", "x"], ["r", "rr", "x"], ["r_in", "r", "x"], ["x_v1", "x", "b"], ["weight", "x", "u"],
                 ["m_in2", "m", "x"], ["r_in0", "r_in", "x"], ["tau", "taux", "x"]]


def c05_models(seed, n, depth):
    """One-equation operators `x' = <tree>` (x is always the state variable, the other names are constants)."""
    rng = random.Random(seed)
    out = []
    for j in range(n):
        names = rng.choice(C05_NAME_SETS)
        state = names[-1] if "x" not in names else "x"
        tree = random_tree(rng, depth, names)
        if state not in str(tree):
            tree = ["+", tree, V(state)]
        vars_ = {state: ["output", round(rng.uniform(-1, 1), 2)]}
        for nm in names:
            if nm != state:
                vars_[nm] = ["const", round(rng.uniform(0.3, 1.7), 2)]
        used = {nm for nm in names if f'"{nm}"' in __import__("json").dumps(tree)}
        vars_ = {k_: v_ for k_, v_ in vars_.items() if k_ in used or k_ == state}
        op = dict(name="eo", eqs=[[state, "de", tree]], vars=vars_)
        out.append((f"X{seed}-{j}", dict(names=names, depth=depth), model([op], {"p": dict(ops=["eo"])})))
    return out
