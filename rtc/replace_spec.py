"""Spec of pyrates.backend.parser.replace (C15): every maximal identifier token equal to `term` is replaced, nothing else
changes.  An identifier token is a maximal run of [A-Za-z0-9_] (the term is such a run itself)."""
import itertools

IDCH = set("abcdefghijklmnopqrstuvwxyzABCDEFGHIJKLMNOPQRSTUVWXYZ0123456789_")


def spec_replace(eq, term, new):
    out, i, n = [], 0, len(eq)
    while i < n:
        if eq[i] in IDCH:
            j = i
            while j < n and eq[j] in IDCH:
                j += 1
            tok = eq[i:j]
            out.append(new if tok == term else tok)
            i = j
        else:
            out.append(eq[i])
            i += 1
    return "".join(out)


def pinned_replace(eq, term, replacement):
    """Frozen copy of the algorithm of the PINNED tree — used ONLY as the signature of known finding KF-C15-replace:
    a deviation from spec_replace is attributed to the known finding iff the real function returns exactly this."""
    allowed = '-+=*/^<>=!.%@[]():, '
    eq_new = ""
    idx = eq.find(term)
    while idx != -1:
        f = idx + len(term)
        replaced = False
        if ((f < len(eq) and eq[f] in allowed) and (idx == 0 or eq[idx - 1] in allowed)) or \
                (f == len(eq) and eq[idx - 1] in allowed):
            eq_new += f"{eq[:idx]}{replacement}"
            replaced = True
        if not replaced:
            eq_new += f"{eq[:f]}"
        eq = eq[f:]
        idx = eq.find(term)
    return eq_new + eq


ALPHABET = "rm_2+(' ="
TERMS = ["r", "rr", "m", "r_", "m2", "_r", "r2"]


def strings(max_len):
    for n in range(0, max_len + 1):
        for tup in itertools.product(ALPHABET, repeat=n):
            yield "".join(tup)
