"""C02 — backend-specific re-implementations proved against the SAME spec as the NumPy backend.

TorchBackend._solve_euler: the same postcondition as BaseBackend._solve_euler (euler_iter), so the two agree by
transitivity for every step count, cadence and state.
JaxBackend._solve_euler / _solve_heun: nested jax.lax.scan over local closures.  lax.scan is an assumed contract (documented
semantics, pyvc/abstractions.lax_scan) that is verified like a loop: `scans[<closure>]` gives the inductive invariant over
(counter, carry) and the clause over the emitted rows; the closure bodies are executed symbolically from the real source."""
from pyvc import abstractions as A
from contracts import c03 as S

F = "pyrates/backend/torch/torch_backend.py"
CLASSES = {}

ABS = dict(S.ABS)
ABS.update({"torch.empty": A.np_empty("row"), "torch.zeros": A.np_empty("row"), "*.numpy": A.identity, "*.clone": A.row_copy})


def torch_euler():
    c = S.solver("ode", "_solve_euler", "euler_iter", False)
    c = dict(c)
    c["name"] = "TorchBackend._solve_euler[ode]"
    c["prop"] = "C02"
    c["target"] = f"{F}::TorchBackend._solve_euler"
    c["abstractions"] = ABS
    inv = [i for i in c["loops"][0]["invariant"]]
    c["loops"] = {0: dict(c["loops"][0], invariant=inv)}
    return c


JF = "pyrates/backend/jax/jax_backend.py"
CLASSES["JaxBackend"] = dict(fields={})
JABS = dict(S.ABS)
JABS.update({"jnp.asarray": A.first_arg, "np.asarray": A.first_arg, "*.astype": A.astype_int, "jax.lax.scan": A.lax_scan})


def jax_solver(method, it):
    c = dict(S.solver("ode", method, it, False))
    c["name"] = f"JaxBackend.{method}[ode]"
    c["prop"] = "C02"
    c["target"] = f"{JF}::JaxBackend.{method}"
    c["params"] = dict({"self": "obj:JaxBackend"}, **c["params"])
    c["abstractions"] = JABS
    c["loops"] = {}
    pos = "J * store_step + j"
    if it == "euler_iter":
        inst = f"euler_iter({pos} + 1) == euler_iter({pos}) + dt * func({pos} + t0, euler_iter({pos}))"
    else:
        inst = (f"heun_iter({pos} + 1) == heun_iter({pos}) + dt / 2 * (func({pos} + t0, heun_iter({pos})) + "
                f"func({pos} + t0, heun_iter({pos}) + dt * func({pos} + t0, heun_iter({pos}))))")
    c["scans"] = {
        # outer scan: one iteration per stored row; carry = (step counter, state) at the START of block J
        "outer_step": dict(counter="J", carry="c", out_kind="row",
                           invariant=["c[0] == t0 + J * store_step", f"c[1] == {it}(J * store_step)"],
                           out=[f"ys[J] == {it}(J * store_step)"],
                           lemmas=["(J + 1) * store_step == J * store_step + store_step"]),
        # inner scan (inside block J): j single steps
        "inner_step": dict(counter="j", carry="c",
                           invariant=["c[0] == t_start + j", f"c[1] == {it}(J * store_step + j)"],
                           lemmas=["implies(J >= 0 and store_step >= 0, J * store_step >= 0)"],
                           axiom_instances=[inst]),
    }
    return c


# ---- index hook shared by all code-generating backends: an index into a 0-based, end-exclusive Python selection is emitted for a
# language whose first index is `start` (0: Python family, 1: Fortran / Julia / Matlab with inclusive ends):
#   scalar i      ->  i + start
#   range (a, b)  ->  (a + start):b        (a 1-based inclusive range a+1..b selects the same b - a elements as the 0-based a..b-1)
FB = "pyrates/backend/base/base_backend.py"
CLASSES["BaseBackend"] = dict(fields={"_start_idx": "int"})


def process_idx(kind):
    c = dict(name=f"BaseBackend._process_idx[{kind.split('(')[0]}]", prop="C02", target=f"{FB}::BaseBackend._process_idx",
             params={"self": "obj:BaseBackend", "idx": kind, "kwargs": "opaque"},
             requires=["self._start_idx >= 0"] + (["idx >= 0"] if kind == "int" else ["idx[0] >= 0", "idx[1] >= 0"]),
             modifies=[], returns="str", unknown_calls="opaque")
    if kind == "int":
        c["ensures"] = ["result == str(idx + self._start_idx)"]
    else:
        c["ensures"] = ["result == str(idx[0] + self._start_idx) + ':' + str(idx[1])"]
    return c


CONTRACTS = [torch_euler(), jax_solver("_solve_euler", "euler_iter"), jax_solver("_solve_heun", "heun_iter"),
             process_idx("int"), process_idx("tuple(int,int)")]
