"""C02 — backend-specific re-implementations proved against the SAME spec as the NumPy backend.

TorchBackend._solve_euler: the same postcondition as BaseBackend._solve_euler (euler_iter), so the two agree by
transitivity for every step count, cadence and state.  (The JAX loops are closures inside lax.scan: outside the
verified subset, bounded natively in checks/c02.py.)"""
from pyvc import abstractions as A
from contracts import c03 as S

F = "pyrates/backend/torch/torch_backend.py"
CLASSES = {}

ABS = dict(S.ABS)
ABS.update({"torch.empty": A.np_empty("row"), "torch.zeros": A.np_empty("row"), "*.numpy": A.identity, "*.clone": A.row_copy})


def torch_euler():
    c = S.solver("ode", "_solve_euler", "euler_iter", False)
    c = dict(c)
    c["name"] = "TorchBackend._solve_euler[ode]"
    c["prop"] = "C02"
    c["target"] = f"{F}::TorchBackend._solve_euler"
    c["abstractions"] = ABS
    inv = [i for i in c["loops"][0]["invariant"]]
    c["loops"] = {0: dict(c["loops"][0], invariant=inv)}
    return c


CONTRACTS = [torch_euler()]
