"""C19 — DDEHistory is the piecewise-linear interpolant of what it was given.

Contracts on the real class pyrates/backend/base/base_backend.py::DDEHistory (4 methods + constructor).
The postconditions are taken from the property statement; the class invariant and helper preconditions
from the code.
"""
from pyvc import abstractions as A

F = "pyrates/backend/base/base_backend.py"

CLASSES = {
    "DDEHistory": dict(
        fields={"_t": "seq[real]", "_y": "seq[row]", "_n": "int", "_growable": "bool"},
        ndarray_fields=["_y"],
        invariant=[
            "len(self._t) == self._n",
            "1 <= self._n",
            "self._n <= len(self._y)",
            "forall(0, self._n, lambda i: forall(i + 1, self._n, lambda j: self._t[i] < self._t[j]))",
        ],
        # native evaluation only: the adjacent-pairs form (equivalent, linear instead of quadratic time)
        invariant_native=[
            "len(self._t) == self._n", "1 <= self._n", "self._n <= len(self._y)",
            "forall(0, self._n - 1, lambda i: self._t[i] < self._t[i + 1])",
        ],
    )
}

ABS = {"np.empty": A.np_empty("row"), "np.zeros": A.np_empty("row"), "np.asarray": A.np_asarray,
       "bisect.bisect_right": A.bisect_right, "np.isclose": A.np_isclose, "np.array": A.row_copy, "np.copy": A.row_copy}

# pure spec function (inlined symbolically, executed natively)
LERP = "def lerp(t0, y0, t1, y1, t):\n    return y0 + (t - t0) / (t1 - t0) * (y1 - y0)\n"

VIEW_UNCHANGED = [
    "self._n == old(self._n)",
    "len(self._t) == old(len(self._t))",
    "forall(0, old(self._n), lambda k: self._t[k] == old(self._t)[k] and self._y[k] == old(self._y)[k])",
]

CONTRACTS = [
    dict(
        name="DDEHistory.__init__[growable]", prop="C19", target=f"{F}::DDEHistory.__init__",
        params={"self": "obj:DDEHistory", "y0": "row", "t0": "real", "max_steps": "none"},
        constructor=True, borrowed=["y0"],
        ensures=["self._n == 1", "self._t[0] == t0", "self._y[0] == y0", "self._growable",
                 "len(self._y) >= 1", "len(self._t) == 1"],
        abstractions=ABS,
    ),
    dict(
        name="DDEHistory.__init__[bounded]", prop="C19", target=f"{F}::DDEHistory.__init__",
        params={"self": "obj:DDEHistory", "y0": "row", "t0": "real", "max_steps": "int"},
        constructor=True, borrowed=["y0"],
        ensures=["self._n == 1", "self._t[0] == t0", "self._y[0] == y0", "not self._growable",
                 "len(self._y) == max(max_steps, 1)", "len(self._t) == 1"],
        abstractions=ABS,
    ),
    dict(
        name="DDEHistory._grow", prop="C19", target=f"{F}::DDEHistory._grow",
        params={"self": "obj:DDEHistory"},
        ensures=["len(self._y) > old(len(self._y))"] + VIEW_UNCHANGED,
        modifies=["self._y"],
        abstractions=ABS,
    ),
    dict(
        name="DDEHistory.update", prop="C19", target=f"{F}::DDEHistory.update",
        params={"self": "obj:DDEHistory", "t": "real", "y": "row"}, borrowed=["y"],
        requires=["t > self._t[self._n - 1]"],
        raises={"IndexError": "not self._growable and self._n >= len(self._y)"},
        on_raise=VIEW_UNCHANGED + ["len(self._y) == old(len(self._y))", "self._growable == old(self._growable)"],
        ensures=[
            "self._n == old(self._n) + 1",
            # the WHOLE view: every earlier record is untouched, the new one is last
            "forall(0, old(self._n), lambda k: self._t[k] == old(self._t)[k] and self._y[k] == old(self._y)[k])",
            "self._t[self._n - 1] == t",
            "self._y[self._n - 1] == y",
            "len(self._y) >= old(len(self._y))",
            "implies(not old(self._growable), len(self._y) == old(len(self._y)))",
        ],
        modifies=["self._t", "self._y", "self._n"],
        abstractions=ABS,
    ),
    dict(
        name="DDEHistory.__call__", prop="C19", target=f"{F}::DDEHistory.__call__",
        params={"self": "obj:DDEHistory", "t": "real"},
        returns="row",
        defs=[LERP],
        ensures=[
            "implies(t <= self._t[0], result == self._y[0])",
            "implies(t >= self._t[self._n - 1], result == self._y[self._n - 1])",
            "forall(0, self._n, lambda i: implies(t == self._t[i], result == self._y[i]))",
            "forall(0, self._n - 1, lambda i: implies(self._t[i] <= t and t < self._t[i + 1], "
            "result == lerp(self._t[i], self._y[i], self._t[i + 1], self._y[i + 1], t)))",
        ],
        modifies=[],
        abstractions=ABS,
    ),
    # the factory through which compiled DDE models obtain their history (static method): a growable history whose only record is
    # the initial state at t0 — the constructor is used through its contract
    dict(
        name="BaseBackend.get_hist_func", prop="C19", target=f"{F}::BaseBackend.get_hist_func",
        params={"y": "row", "t0": "real"},
        ensures=["result._n == 1", "result._t[0] == t0", "result._y[0] == y", "result._growable"],
        modifies=[], abstractions=ABS, returns_any=True,
    ),
]
CONTRACTS[-1]["constructors"] = {"DDEHistory": CONTRACTS[0]}
