"""Frame (ownership) contracts — C14 (read-only / copy-making operations), C07 (overrides do not reach shared templates),
C13 (the reset points clear every cache).  Checked by pyvc/frame.py on the current source of each function.

Vocabulary of a contract:
  modifies              roots (parameter names, `global:<name>`, declared regions) or access paths (`self._ir`) that may change
  regions               access path -> region name: objects reached through that path belong to the region, not to the parameter
                        (a circuit HOLDS its node templates, it does not own them: they may be shared with other circuits)
  callees               frame summaries of the functions it calls (modular: each summary is itself a contract in this file or is
                        listed as assumed in the evidence)
  const_params          parameter values the contract is stated for (e.g. in_place=False): tests on them are folded
  result_not_aliasing   roots the returned value must not alias
  must_call / must_contain   statements that have to be present (unconditionally at the top level / anywhere in the body)
"""
CIRC = "pyrates/frontend/template/circuit.py"
DICT = "pyrates/frontend/dict.py"
OPER = "pyrates/frontend/template/operator.py"
OPG = "pyrates/frontend/template/operator_graph.py"

# summaries shared by several contracts
S_ADD_TO_DICT = dict(mutates=[2, "full_dict"], returns="fresh")
S_FROM_X = dict(mutates=["return_dict", 1], returns="fresh")
S_FROM_OP = dict(mutates=["return_dict", 2], returns="fresh")
S_PURE_ALIAS = dict(mutates=[], returns="alias")
S_PURE_FRESH = dict(mutates=[], returns="fresh")
S_SHALLOW = dict(mutates=[], returns="shallow")

FRAMES = [
    # ------------------------------------------------------------------------------------------------ C14: to_yaml / save
    dict(name="dict.add_to_dict", props=["C14"], target=f"{DICT}::add_to_dict", modifies=["full_dict"],
         callees={"get_unique_label": dict(mutates=[1], returns="fresh")}),
    dict(name="dict.from_operator", props=["C14", "C07", "C01"], target=f"{DICT}::from_operator", modifies=["return_dict"],
         callees={"add_to_dict": S_ADD_TO_DICT}),
    dict(name="dict.from_node", props=["C14"], target=f"{DICT}::from_node", modifies=["return_dict"],
         callees={"add_to_dict": S_ADD_TO_DICT, "from_operator": S_FROM_OP}),
    dict(name="dict.from_edge", props=["C14"], target=f"{DICT}::from_edge", modifies=["return_dict"],
         callees={"from_node": S_FROM_X}),
    dict(name="dict.from_circuit", props=["C14"], target=f"{DICT}::from_circuit", modifies=["return_dict"],
         callees={"add_to_dict": S_ADD_TO_DICT, "from_node": S_FROM_X, "from_edge": S_FROM_X, "from_circuit": S_FROM_X}),
    # ------------------------------------------------------------------------------------------------ C14: getters
    dict(name="CircuitTemplate.collect_edges", props=["C14"], target=f"{CIRC}::CircuitTemplate.collect_edges", modifies=[],
         callees={"*.collect_edges": S_SHALLOW}),
    dict(name="CircuitTemplate.get_edges", props=["C14"], target=f"{CIRC}::CircuitTemplate.get_edges", modifies=[],
         callees={"self.collect_edges": S_SHALLOW, "*.collect_edges": S_SHALLOW, "self.get_nodes": S_PURE_FRESH, "self._get_nodes_with_var": S_PURE_FRESH}),
    dict(name="CircuitTemplate.get_edge", props=["C14"], target=f"{CIRC}::CircuitTemplate.get_edge", modifies=[],
         callees={"self.collect_edges": S_SHALLOW, "self.get_edges": S_SHALLOW}),
    dict(name="CircuitTemplate.get_node_template", props=["C14"], target=f"{CIRC}::CircuitTemplate.get_node_template", modifies=[],
         callees={"*.get_node_template": S_PURE_ALIAS}),
    # ------------------------------------------------------------------------------------------------ C14 / C13: copy makers
    dict(name="update_edges", props=["C14", "C13", "C07", "C15"], target=f"{CIRC}::update_edges", modifies=[], result_not_aliasing=["base_edges"]),
    dict(name="update_dict", props=["C14", "C07", "C15"], target=f"{CIRC}::update_dict", modifies=[], result_not_aliasing=["base_dict"]),
    dict(name="CircuitTemplate.update_template[in_place=False]", props=["C14", "C07", "C15"], target=f"{CIRC}::CircuitTemplate.update_template",
         modifies=[], const_params={"in_place": False},
         callees={"update_dict": S_SHALLOW, "update_edges": S_SHALLOW}),
    dict(name="OperatorTemplate.update_template", props=["C14", "C15"], target=f"{OPER}::OperatorTemplate.update_template",
         modifies=["equations"],      # the edit dictionary handed in loses its 'add' entry (equations.pop('add', [])): the caller's object, not the template
         callees={"_update_equation": S_PURE_FRESH, "_update_variables": S_SHALLOW}),
    dict(name="_update_variables", props=["C14", "C15"], target=f"{OPER}::_update_variables", modifies=[], result_not_aliasing=[]),
    # ------------------------------------------------------------------------------------------------ C14: compile / simulate a copy
    # run / get_run_func / get_jacobian_func with in_place=False work on a deep copy; the only things written to `self` are the three
    # bookkeeping fields (the state layout, the state values and the handle of the compiled network) — nodes, edges, circuits, templates
    # and every argument stay untouched.  (That these fields ARE written is the root of a listed known finding; the contract pins down
    # that nothing else is.)
] + [
    dict(name=f"CircuitTemplate.{nm}[in_place=False]", props=["C14"], target=f"{CIRC}::CircuitTemplate.{nm}",
         modifies=["self._state_var_indices", "self._state_var_values", "self._ir"], const_params={"in_place": False},
         callees={"is_integration_adaptive": S_PURE_FRESH, "*._add_input": S_PURE_FRESH, "*._validate_backend_args": S_PURE_FRESH,
                  "*.apply": dict(mutates=["self"], returns="fresh"), "*.get_var": dict(mutates=[], returns="receiver"),
                  "*.set_value": dict(mutates=["self"], returns="fresh"), "*.get_run_func": dict(mutates=["self"], returns="fresh"),
                  "*.get_jacobian_func": dict(mutates=["self"], returns="fresh"), "*.get_frontend_varname": S_PURE_FRESH,
                  "*.get_variable_positions": S_PURE_FRESH, "*.run": dict(mutates=["self"], returns="fresh"),
                  "np.diff": S_PURE_FRESH, "np.round": S_PURE_FRESH, "np.linspace": S_PURE_FRESH, "np.interp": S_PURE_FRESH, "np.stack": S_PURE_FRESH,
                  "np.asarray": S_PURE_FRESH, "np.squeeze": S_PURE_FRESH, "np.reshape": S_PURE_FRESH, "MultiIndex.from_tuples": S_PURE_FRESH})
    for nm in ("run", "get_run_func", "get_jacobian_func")
] + [
    # ------------------------------------------------------------------------------------------------ C07
    dict(name="OperatorGraphTemplate.apply", props=["C07", "C14", "C01"], target=f"{OPG}::OperatorGraphTemplate.apply", modifies=[],
         callees={"*.apply": dict(mutates=["values"], returns="alias"), "self.target_ir": dict(mutates=[], returns="shallow")}),
    dict(name="OperatorGraphTemplate.update_var", props=["C07"], target=f"{OPG}::OperatorGraphTemplate.update_var", modifies=["self"],
         callees={"self.get_op": S_PURE_ALIAS}),
    dict(name="CircuitTemplate.update_var", props=["C07", "C17", "C01"], target=f"{CIRC}::CircuitTemplate.update_var", modifies=["self"],
         regions={},
         callees={"self.get_nodes": S_PURE_FRESH,
                  "self.get_node_template": dict(mutates=[], returns="region:templates"),       # node templates may be shared between nodes / circuits
                  "*.update_var": dict(mutates=["self"], returns="fresh"),
                  "self.add_node_template": dict(mutates=["self"], returns="fresh"),
                  "self.get_edge": dict(mutates=[], returns="receiver")}),
    dict(name="OperatorTemplate.apply", props=["C07", "C13", "C01"], target=f"{OPER}::OperatorTemplate.apply",
         stores_not_flowing={"self.cache": ["values"]},      # what is cached under the operator's name never depends on the values of this call
         modifies=["values", "self.cache"],       # fills the caller's `values` with defaults (callers hand in a copy) and registers itself in the class-level cache
         callees={"_separate_variables": S_SHALLOW, "check_vname": S_PURE_FRESH, "self.target_ir": dict(mutates=[], returns="shallow")}),
    dict(name="_update_operators", props=["C14", "C15"], target=f"{OPG}::_update_operators", modifies=[], result_not_aliasing=["base_operators"]),
    dict(name="adapt_circuit", props=["C17", "C07", "C14"], target="pyrates/utility.py::adapt_circuit", modifies=[],
         callees={"CircuitTemplate.from_yaml": dict(mutates=[], returns="region:loaded-template-cache"),      # from_yaml hands out the loader's cached object
                  "*.get_edge": dict(mutates=[], returns="receiver"), "*.update_var": dict(mutates=["self"], returns="receiver"),
                  "*.keys": S_SHALLOW},
         result_not_aliasing=["circuit", "loaded-template-cache"]),
    # ------------------------------------------------------------------------------------------------ C19 / C10: who may write the history
    # The adaptive DDE solvers own neither the history object nor its buffers: the record changes ONLY through DDEHistory.update (whose
    # effect the C19 contracts pin down), called unconditionally for every accepted step the integrator reports.
] + [
    dict(name=f"{cls}._solve_scipy_dde", props=["C19", "C10", "C03", "C02"], target=f"{fl}::{cls}._solve_scipy_dde", modifies=["kwargs"],
         callees={"*.update": dict(mutates=["self"], returns="fresh", via_contract="DDEHistory.update (contracts/c19.py)"),
                  "kwargs.pop": dict(mutates=["self"], returns="fresh"),
                  "ode": S_PURE_FRESH, "*.set_integrator": S_PURE_FRESH, "solver.set_initial_value": S_PURE_FRESH, "solver.set_solout": S_PURE_FRESH,
                  "solver.successful": S_PURE_FRESH, "solver.integrate": S_PURE_FRESH, "np.zeros": S_PURE_FRESH, "np.asarray": S_PURE_FRESH,
                  "func": S_PURE_FRESH, "torch.as_tensor": S_PURE_FRESH, "*.numpy": S_PURE_FRESH, "self._torch_float_dtype": S_PURE_FRESH,
                  "float": S_PURE_FRESH, "len": S_PURE_FRESH, "enumerate": S_SHALLOW, "isinstance": S_PURE_FRESH, "hasattr": S_PURE_FRESH},
         must_call_in=[("solout", "$H.update($0, $1)")])
    for cls, fl in (("BaseBackend", "pyrates/backend/base/base_backend.py"), ("TorchBackend", "pyrates/backend/torch/torch_backend.py"))
] + [
    # ------------------------------------------------------------------------------------------------ C13: reset points
    dict(name="utility.clear", props=["C13"], target="pyrates/utility.py::clear", modifies=["model"],
         callees={"model.clear": dict(mutates=["self"], returns="fresh"), "clear_frontend_caches": S_PURE_FRESH},
         must_call=["model.clear()", "clear_frontend_caches(**kwargs)"]),
    dict(name="CircuitTemplate.clear", props=["C13", "C01"], target=f"{CIRC}::CircuitTemplate.clear",
         modifies=["self", "global:input_labels"],
         callees={"self._ir.clear": dict(mutates=["self"], returns="fresh"), "clear_ir_caches": S_PURE_FRESH, "gc.collect": S_PURE_FRESH,
                  "OperatorTemplate.cache.clear": S_PURE_FRESH},
         must_call=["self._ir.clear()", "self._state_var_values.clear()", "self._state_var_indices.clear()", "clear_ir_caches()",
                    "OperatorTemplate.cache.clear()", "input_labels.clear()"]),
    dict(name="clear_ir_caches", props=["C13"], target="pyrates/ir/node.py::clear_ir_caches",
         modifies=["global:node_cache", "global:op_cache", "global:node_labels"],
         must_call=["node_cache.clear()", "op_cache.clear()", "node_labels.clear()"]),
    dict(name="CircuitIR.clear", props=["C13"], target="pyrates/ir/circuit.py::CircuitIR.clear",
         modifies=["self", "global:in_edge_indices", "global:in_edge_vars"],
         callees={"self.graph.clear": dict(mutates=["self"], returns="fresh")},
         must_call=["self._front_to_back.clear()", "self.graph.clear()", "in_edge_indices.clear()", "in_edge_vars.clear()"]),
    dict(name="clear_frontend_caches", props=["C13"], target="pyrates/utility.py::clear_frontend_caches", modifies=[],
         callees={"template.clear_cache": S_PURE_FRESH, "OperatorTemplate.cache.clear": S_PURE_FRESH, "clear_ir_caches": S_PURE_FRESH},
         must_contain=["template.clear_cache()", "OperatorTemplate.cache.clear()", "clear_ir_caches()"]),
    dict(name="template.clear_cache", props=["C13"], target="pyrates/frontend/template/__init__.py::clear_cache",
         modifies=["global:template_cache"], must_call=["template_cache.clear()"]),
]


# which contract a callee summary stands for (checked by pyvc.frame.summary_consistency: what the summary lets the callee mutate must be
# allowed by that contract's own `modifies`); summaries not listed here are assumptions
SUMMARISES = {
    ("dict.from_operator", "add_to_dict"): "dict.add_to_dict", ("dict.from_node", "add_to_dict"): "dict.add_to_dict",
    ("dict.from_circuit", "add_to_dict"): "dict.add_to_dict", ("dict.from_node", "from_operator"): "dict.from_operator",
    ("dict.from_edge", "from_node"): "dict.from_node", ("dict.from_circuit", "from_node"): "dict.from_node",
    ("dict.from_circuit", "from_edge"): "dict.from_edge", ("dict.from_circuit", "from_circuit"): "dict.from_circuit",
    ("CircuitTemplate.collect_edges", "*.collect_edges"): "CircuitTemplate.collect_edges",
    ("CircuitTemplate.get_edges", "self.collect_edges"): "CircuitTemplate.collect_edges", ("CircuitTemplate.get_edges", "*.collect_edges"): "CircuitTemplate.collect_edges",
    ("CircuitTemplate.get_edge", "self.collect_edges"): "CircuitTemplate.collect_edges", ("CircuitTemplate.get_edge", "self.get_edges"): "CircuitTemplate.get_edges",
    ("CircuitTemplate.get_node_template", "*.get_node_template"): "CircuitTemplate.get_node_template",
    ("CircuitTemplate.update_template[in_place=False]", "update_dict"): "update_dict", ("CircuitTemplate.update_template[in_place=False]", "update_edges"): "update_edges",
    ("OperatorTemplate.update_template", "_update_variables"): "_update_variables",
    ("OperatorGraphTemplate.apply", "*.apply"): "OperatorTemplate.apply",
    ("CircuitTemplate.update_var", "self.get_node_template"): "CircuitTemplate.get_node_template",
    ("CircuitTemplate.update_var", "*.update_var"): "OperatorGraphTemplate.update_var", ("CircuitTemplate.update_var", "self.get_edge"): "CircuitTemplate.get_edge",
    ("adapt_circuit", "*.get_edge"): "CircuitTemplate.get_edge", ("adapt_circuit", "*.update_var"): "CircuitTemplate.update_var",
    ("utility.clear", "model.clear"): "CircuitTemplate.clear", ("utility.clear", "clear_frontend_caches"): "clear_frontend_caches",
    ("CircuitTemplate.clear", "clear_ir_caches"): "clear_ir_caches", ("clear_frontend_caches", "clear_ir_caches"): "clear_ir_caches",
    ("clear_frontend_caches", "template.clear_cache"): "template.clear_cache",
}


def for_prop(prop):
    return [c for c in FRAMES if prop in c["props"]]
