"""C20 — guards: 'trigger => raises, and no result-producing call happened before'.

`effects` is a ghost counter incremented by every call that has no contract (i.e. anything that could produce a
result); on the exceptional exit it must still be 0."""
from pyvc import abstractions as A

FB = "pyrates/backend/base/base_backend.py"
FJ = "pyrates/backend/jax/jax_backend.py"
FF = "pyrates/backend/fortran/fortran_backend.py"
FT = "pyrates/backend/torch/torch_backend.py"
FC = "pyrates/frontend/template/circuit.py"

CLASSES = {k: dict(fields={}) for k in ("BaseBackend", "JaxBackend", "FortranBackend", "TorchBackend", "CircuitTemplate")}

VALIDATE = dict(
    name="BaseBackend._validate_solver", prop="C20", target=f"{FB}::BaseBackend._validate_solver",
    params={"self": "obj:BaseBackend", "solver": "str"},
    raises={"PyRatesException": "solver not in self.SUPPORTED_SOLVERS"},
    on_raise=[], ensures=["solver in self.SUPPORTED_SOLVERS"], modifies=[], any_class=True,
)


def validate_for(cls, file):
    """_validate_solver is inherited: the same body is verified against each subclass's own SUPPORTED_SOLVERS."""
    c = dict(VALIDATE)
    c["name"] = f"{cls}._validate_solver(inherited)"
    c["consts_from"] = [f"{FB}::BaseBackend", f"{file}::{cls}"]
    c["params"] = {"self": f"obj:{cls}", "solver": "str"}
    return c


def solve_guard(cls, file, extra_abs=None):
    return dict(
        name=f"{cls}._solve", prop="C20", target=f"{file}::{cls}._solve",
        params={"self": f"obj:{cls}", "solver": "str", "func": "opaque", "args": "opaque", "T": "real", "dt": "real",
                "dts": "real", "y0": "opaque", "t0": "opaque", "times": "opaque", "kwargs": "opaque"},
        raises={"PyRatesException": "solver not in self.SUPPORTED_SOLVERS"},
        propagates=["PyRatesException"],
        on_raise=["effects == 0"],
        ghost={"effects": "0"},
        ensures=["solver in self.SUPPORTED_SOLVERS"],
        unknown_calls="opaque", modifies=[], consts_from=[f"{FB}::BaseBackend", f"{file}::{cls}"],
    )


BASE_SOLVE = solve_guard("BaseBackend", FB)
BASE_SOLVE["abstractions"] = {
    "BaseBackend._solve_euler": A.tagged("euler"), "BaseBackend._solve_heun": A.tagged("heun"),
    "BaseBackend._solve_scipy": A.tagged("scipy"), "BaseBackend._solve_scipy_dde": A.tagged("scipy_dde"),
}
BASE_SOLVE["ensures"] = [
    "solver in self.SUPPORTED_SOLVERS",
    # dispatch (C03): each solver name reaches its own implementation
    "implies(solver == 'euler', result == 'euler')",
    "implies(solver == 'heun', result == 'heun')",
    "implies(solver == 'scipy', result == 'scipy' or result == 'scipy_dde')",
]
BASE_SOLVE["returns_any"] = True

BACKEND_ARGS = dict(
    name="CircuitTemplate._validate_backend_args", prop="C20", target=f"{FC}::CircuitTemplate._validate_backend_args",
    params={"backend": "str", "vectorize": "bool", "run": "bool", "kwargs": "opaque"},
    # the documented backend names (docstring of CircuitTemplate.run); any other name is refused instead of silently running NumPy
    raises={"PyRatesException": "backend not in ('default', 'numpy', 'torch', 'jax', 'fortran', 'julia', 'matlab') or "
                                "(vectorize and backend == 'fortran') or (backend == 'julia' and 'julia_path' not in kwargs)"},
    on_raise=[], ensures=["not (vectorize and backend == 'fortran')",
                          "backend in ('default', 'numpy', 'torch', 'jax', 'fortran', 'julia', 'matlab')"], unknown_calls="opaque", modifies=[],
)

# Reserved variable names (C20: "a reserved variable name" raises).  The SPEC is this pinned list — the names the documentation
# comment of check_vname enumerates on the pinned tree (PyRates-internal slots, sympy constants/singletons, sympy function classes,
# math-function names) and the reserved name PARTS of generated buffer / index / history variables, anywhere in the name.
RESERVED_NAMES = ('y', 'dy', 'source_idx', 'target_idx', 'pi', 'I', 'E', 'S', 'Q', 'O', 'N', 'oo', 'zoo', 'nan', 'beta', 'gamma', 'Beta',
                  'Gamma', 'exp', 'log', 'sin', 'cos', 'tan', 'cot', 'sec', 'csc', 'sinh', 'cosh', 'tanh', 'sqrt', 'abs')
RESERVED_PARTS = ('_buffer', '_delays', '_maxdelay', '_idx', '_hist')
_RES = f"v in {RESERVED_NAMES!r} or " + " or ".join(f"{p!r} in v" for p in RESERVED_PARTS)
FO = "pyrates/frontend/template/operator.py"
CHECK_VNAME = dict(
    name="check_vname", prop="C20", target=f"{FO}::check_vname",
    params={"v": "str", "vtype": "str"},
    raises={"PyRatesException": _RES},
    on_raise=[],
    ensures=[f"not ({_RES})", "result == ('state_var' if v == 't' else vtype)"],
    loops={0: dict(unroll=True)},        # the loop runs over a literal list: executed iteration by iteration, no invariant
    modifies=[], returns="str",
)

CONTRACTS = [
    CHECK_VNAME,
    VALIDATE,
    validate_for("TorchBackend", FT), validate_for("JaxBackend", FJ), validate_for("FortranBackend", FF),
    BASE_SOLVE,
    solve_guard("JaxBackend", FJ), solve_guard("FortranBackend", FF),
    BACKEND_ARGS,
]
CALLEE_CONTRACTS = {"_validate_solver": VALIDATE}
