"""C06 (and C01/C04) — the helper that decides whether a vectorised edge variable has to be indexed at all.

_get_indexed_var_str(var, idx, var_length, ...) for an index LIST: the variable is used un-indexed exactly when the list is the
identity selection 0, 1, ..., var_length-1 (every element compared, in order); otherwise the generated expression indexes it."""
from pyvc import abstractions as A

F = "pyrates/ir/circuit.py"
CLASSES = {}
_ID = "len(idx) == var_length and forall(0, var_length, lambda k: idx[k] == k)"

CONTRACTS = [dict(
    name="_get_indexed_var_str[list]", prop="C06", target=f"{F}::_get_indexed_var_str",
    params={"var": "str", "idx": "seq[int]", "var_length": "int", "reduce": "bool", "idx_str": "str", "arg_dict": "opaque"},
    requires=["len(idx) > 0", "var_length >= 1", "len(idx_str) > 0"],
    ensures=[f"(result == var) == ({_ID})",
             f"implies(not ({_ID}), result == 'index(' + var + ', ' + idx_str + ')')"],
    loops={0: dict(counter="i", invariant=["identical", "forall(0, i, lambda k: idx[k] == k)"])},
    abstractions={"np.arange": A.np_arange}, unknown_calls="opaque", modifies=[], returns="str",
)]
