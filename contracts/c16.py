"""C16 / C11 — what a Connectivity object carries into the compilation: the delay and the spread are stored exactly as given
(for every value, incl. spread == delays, spread > delays and None), the source / target paths likewise.  `_add_matrix_delay`'s
kernel arithmetic (contracts/c11.py) then gives them the same meaning as on scalar edges."""
from pyvc import abstractions as A

F = "pyrates/frontend/template/population.py"
CLASSES = {"Connectivity": dict(fields={"source": "str", "target": "str", "delays": "real", "spread": "real", "weights": "opaque", "edge": "opaque",
                                        "edge_var_map": "opaque"})}


def ctor(kd, ks, tag):
    ens = ["self.source == source and self.target == target"]
    ens.append("self.delays == delays" if kd == "real" else "self.delays is None")
    ens.append("self.spread == spread" if ks == "real" else "self.spread is None")
    return dict(
        name=f"Connectivity.__init__[{tag}]", prop="C16", target=f"{F}::Connectivity.__init__", constructor=True,
        params={"self": "obj:Connectivity", "source": "str", "target": "str", "weights": "opaque", "edge": "opaque", "edge_var_map": "opaque",
                "delays": kd, "spread": ks},
        requires=[], ensures=ens, abstractions={"np.asarray": A.np_asarray}, unknown_calls="opaque",
        modifies=["self.source", "self.target", "self.weights", "self.edge", "self.edge_var_map", "self.delays", "self.spread"],
    )


CONTRACTS = [ctor("real", "real", "delay+spread"), ctor("real", "none", "delay only"), ctor("none", "none", "undelayed")]


# Per-unit parameters (the "per-unit params land on the right unit" clause): the statement of PopulationTemplate.apply that turns
# one entry of `params` into the per-unit value list of a variable — a sequence with one entry per unit is distributed in order
# (unit k receives entry k), a scalar is given to every unit; in both cases the list has exactly n entries.
FP = "pyrates/frontend/template/population.py"
CLASSES["PopulationTemplate"] = dict(fields={"n": "int"})
_REGION = dict(kind="if", match="hasattr(pval, '__len__')", nth=0)
CONTRACTS += [
    dict(name="PopulationTemplate.apply@param-distribution[per-unit values]", prop="C16", target=f"{FP}::PopulationTemplate.apply", region=_REGION,
         params={"self": "obj:PopulationTemplate", "pval": "seq[real]"}, requires=["self.n >= 1", "len(pval) == self.n"],
         ensures=["len(new_val) == self.n", "forall(0, self.n, lambda k: new_val[k] == pval[k])"],
         modifies=[], bind_locals={"new_val": (0, 0)}),
    dict(name="PopulationTemplate.apply@param-distribution[scalar]", prop="C16", target=f"{FP}::PopulationTemplate.apply", region=_REGION,
         params={"self": "obj:PopulationTemplate", "pval": "real"}, requires=["self.n >= 1"],
         ensures=["len(new_val) == self.n", "forall(0, self.n, lambda k: new_val[k] == pval)"],
         modifies=[], bind_locals={"new_val": (0, 0)}),
]
