"""C18 — auto-07p parameter slot allocator (FortranBackend._auto_param_indices).

The `blocked` argument is bound to the class constant _AUTO_BLOCKED_PAR_RANGE as it is written in the CURRENT
source (the only value any caller passes), while the postcondition states the property itself: slots are
pairwise distinct (strictly increasing), start at 1 in declaration order, and never fall on PAR(11)..PAR(14),
which auto-07p reserves (PAR(11) period, PAR(14) time)."""
from pyvc import extract as X

F = "pyrates/backend/fortran/fortran_backend.py"
CLASSES = {"FortranBackend": dict(fields={})}


def blocked_range():
    ex = X.extract(f"{F}::FortranBackend._auto_param_indices")
    return X.class_constants(ex.cls_node).get("_AUTO_BLOCKED_PAR_RANGE")


def make():
    b = blocked_range()
    if not (isinstance(b, tuple) and len(b) == 2):
        b = (10, 15)
    return [dict(
        name="FortranBackend._auto_param_indices", prop="C18", target=f"{F}::FortranBackend._auto_param_indices",
        params={"self": "obj:FortranBackend", "func_args": "seq[int]", "blocked": "tuple(int,int)"},
        requires=[f"blocked[0] == {b[0]}", f"blocked[1] == {b[1]}"],
        loops={0: dict(counter="i", invariant=[
            "len(out) == i",
            "forall(0, i, lambda k: out[k] >= 1 and not (11 <= out[k] and out[k] <= 14))",
            "forall(0, i, lambda k: out[k] == k + 1 or k >= 9)",
            "forall(0, i - 1, lambda k: out[k] < out[k + 1])",
            "implies(i > 0, out[i - 1] < i + increment)",
            "increment >= 1",
            "implies(increment == 1, i <= 10)",
            "implies(increment > 1, i + increment > 15)",
            "increment == 1 or i >= 10",
        ])},
        ensures=[
            "len(result) == len(func_args)",
            "forall(0, len(result), lambda k: result[k] >= 1 and not (11 <= result[k] and result[k] <= 14))",
            "forall(0, len(result) - 1, lambda k: result[k] < result[k + 1])",
            "forall(0, len(result), lambda k: implies(k < 9, result[k] == k + 1))",
        ],
        returns="seq[int]", modifies=[],
        # `increment` / `out` are roles: the running offset and the result list initialised by the first two statements
        bind_locals={"increment": (0, 0), "out": (1, 0)},
    )]


CONTRACTS = make()
