"""C01 / C12 — state layout loops (the two clones in ComputeGraph.to_func and ComputeGraph.get_jacobian_func).

The DE dictionary is abstracted as an insertion-ordered collection of K entries; entry k has vsize(k) = sum(lhs.shape) >= 0
(unknown).  Contract (region = the two initialisations + the loop): entry k gets the half-open range
[start_k, start_k + npos_k) with npos_k = vsize(k) if vsize(k) > 1 else 1 (whether it is stored as an int or as a pair is NOT part of the contract), start_0 = 0,
start_{k+1} = stop_k, ranges in order and pairwise disjoint, idx == stop of the last entry.
These clauses determine the map uniquely from vsize, so the two clones produce the same layout ("same state ordering")."""
from pyvc import abstractions as A

F = "pyrates/backend/computegraph.py"
CLASSES = {"ComputeGraph": dict(fields={"_state_var_indices": "map", "var_updates": "opaque"})}

ABS = {"*.items": A.keyed_items("K"), "ComputeGraph._process_var_update": A.keyed_pair}

INV = [
    "idx >= 0",
    "forall(0, i, lambda j: has(self._state_var_indices, j) and start(self._state_var_indices, j) >= 0 and "
    "stop(self._state_var_indices, j) - start(self._state_var_indices, j) == (vsize(j) if vsize(j) > 1 else 1) and "
    "stop(self._state_var_indices, j) <= idx)",
    "forall(0, i - 1, lambda j: stop(self._state_var_indices, j) == start(self._state_var_indices, j + 1))",
    "implies(i > 0, start(self._state_var_indices, 0) == 0 and stop(self._state_var_indices, i - 1) == idx)",
    "implies(i == 0, idx == 0)",
    "forall(0, i, lambda j: forall(0, j, lambda l: stop(self._state_var_indices, l) <= start(self._state_var_indices, j)))",
]
POST = [
    "forall(0, K, lambda j: has(self._state_var_indices, j) and start(self._state_var_indices, j) >= 0 and "
    "stop(self._state_var_indices, j) - start(self._state_var_indices, j) == (vsize(j) if vsize(j) > 1 else 1))",
    "forall(0, K - 1, lambda j: stop(self._state_var_indices, j) == start(self._state_var_indices, j + 1))",
    "implies(K > 0, start(self._state_var_indices, 0) == 0 and stop(self._state_var_indices, K - 1) == idx)",
    # every declared state variable has its own, distinct position(s)
    "forall(0, K, lambda j: forall(0, j, lambda l: stop(self._state_var_indices, l) <= start(self._state_var_indices, j)))",
]


def layout(name, qual, before, idx_role):
    return dict(
        bind_locals={"idx": idx_role},      # `idx` is a role: the running position counter initialised right before the loop
        name=name, prop="C01", target=f"{F}::{qual}",
        region=dict(kind="for", match="in self.var_updates['DEs'].items()", nth=0, before=before),
        params={"self": "obj:ComputeGraph", "ghost_K": "int"},
        requires=["ghost_K >= 0"], ghost={"K": "ghost_K"},
        loops={0: dict(counter="i", invariant=INV)},
        ensures=POST, abstractions=ABS, modifies=["self._state_var_indices"],
    )


CONTRACTS = [
    layout("ComputeGraph.to_func@state-layout", "ComputeGraph.to_func", 2, (1, 0)),
    layout("ComputeGraph.get_jacobian_func@state-layout", "ComputeGraph.get_jacobian_func", 1, (0, 1)),
]
