"""C09 — delay discretisation: NetworkGraph._preprocess_delay rounds delay/step (half to even) for fixed steps."""
from pyvc import abstractions as A

F = "pyrates/ir/circuit.py"
CLASSES = {"NetworkGraph": dict(fields={"step_size": "real", "step_size_adaptation": "bool"})}
CONTRACTS = [dict(
    name="NetworkGraph._preprocess_delay", prop="C09", target=f"{F}::NetworkGraph._preprocess_delay",
    params={"self": "obj:NetworkGraph", "delay": "real", "discretize": "bool"},
    requires=["self.step_size > 0", "delay >= 0"],
    ensures=["implies(discretize and not self.step_size_adaptation, result == round(delay / self.step_size))",
             "implies(not (discretize and not self.step_size_adaptation), result == delay)"],
    abstractions={"np.round": A.iround, "round": A.iround}, modifies=[],
)]

# The decision whether the edges of one source need a delay buffer at all (last statement group of _collect_delays_from_edges):
# discretised delays (integers, fixed step) are implemented iff the largest one exceeds ONE step — 1 is the placeholder for "no delay"
# (None -> 1) and delays that round to at least two steps are inside the property's quantifier; undiscretised delays (floats,
# adaptive step) iff the largest one exceeds the step size.  `max_delay` is the role of the local the np.max statement assigns.
_REG = dict(kind="assign", match="np.max(means)", nth=0, upto="if sum(stds) == 0")      # up to (excluding) the statement after the decision
CONTRACTS += [
    dict(name="NetworkGraph._collect_delays_from_edges@add-delay[discretised]", prop="C09", target=f"{F}::NetworkGraph._collect_delays_from_edges",
         region=_REG, params={"self": "obj:NetworkGraph", "means": "seq[int]"}, requires=["len(means) >= 1", "self.step_size > 0"],
         ensures=["add_delay == (max_delay > 1)", "forall(0, len(means), lambda k: implies(means[k] >= 2, add_delay))",
                  "implies(forall(0, len(means), lambda k: means[k] <= 1), not add_delay)"],
         abstractions={"np.max": A.seq_max}, modifies=[], bind_locals={"max_delay": (0, 0), "add_delay": (-1, 0)}),
    dict(name="NetworkGraph._collect_delays_from_edges@add-delay[continuous]", prop="C09", target=f"{F}::NetworkGraph._collect_delays_from_edges",
         region=_REG, params={"self": "obj:NetworkGraph", "means": "seq[real]"}, requires=["len(means) >= 1", "self.step_size > 0"],
         ensures=["add_delay == (max_delay > self.step_size)", "forall(0, len(means), lambda k: implies(means[k] > self.step_size, add_delay))"],
         abstractions={"np.max": A.seq_max}, modifies=[], bind_locals={"max_delay": (0, 0), "add_delay": (-1, 0)}),
]
