"""C09 — delay discretisation: NetworkGraph._preprocess_delay rounds delay/step (half to even) for fixed steps."""
from pyvc import abstractions as A

F = "pyrates/ir/circuit.py"
CLASSES = {"NetworkGraph": dict(fields={"step_size": "real", "step_size_adaptation": "bool"})}
CONTRACTS = [dict(
    name="NetworkGraph._preprocess_delay", prop="C09", target=f"{F}::NetworkGraph._preprocess_delay",
    params={"self": "obj:NetworkGraph", "delay": "real", "discretize": "bool"},
    requires=["self.step_size > 0", "delay >= 0"],
    ensures=["implies(discretize and not self.step_size_adaptation, result == round(delay / self.step_size))",
             "implies(not (discretize and not self.step_size_adaptation), result == delay)"],
    abstractions={"np.round": A.iround, "round": A.iround}, modifies=[],
)]
