"""C11 — the arithmetic of the gamma kernel: number of stages and stage rate, for scalar edges and for Connectivity edges.

Two code regions (extracted from the current source on every run):

 * NetworkGraph._add_edge_buffer, the per-edge loop `for m, v in zip(delays, spreads)` (with the initialisation before it):
   for every slot k with a positive delay, orders[k] >= 1 and rates[k] * delays[k] == orders[k]  (the chain of n stages of
   rate a has mean delay n/a = d; unit gain is the form of the stage equation  z_k' = a*(z_{k-1} - z_k), which is text);
   with a positive spread orders[k] == max(1, round((d/s)^2), dde_approx); slots without delay get order 0 and rate 0.
 * NetworkGraph._add_matrix_delay, the `if spread is not None and spread > 0` statement and the rate assignment after it:
   n >= 1, a * delay == n, and with a positive spread n == max(1, round((delay/spread)^2)) — the same number as on scalar
   edges (with dde_approx == 0), which is the "Connectivity forms agree" clause for the kernel parameters.

(d/s)^2 is kept as the term the code writes; `round` / `np.round` are round-half-even on the reals (pyvc.abstractions.iround)."""
from pyvc import abstractions as A

F = "pyrates/ir/circuit.py"
CLASSES = {}
ABS = {"np.round": A.iround, "round": A.iround}

_SPEC_N = "max(1, max(round((delays[k] / spreads[k]) ** 2), dde_approx))"

CONTRACTS = [
    dict(
        name="NetworkGraph._add_edge_buffer@kernel-orders", prop="C11", target=f"{F}::NetworkGraph._add_edge_buffer",
        region=dict(kind="for", match="in zip(delays, spreads)", nth=0, before=1),
        params={"delays": "seq[real]", "spreads": "seq[real]", "dde_approx": "int"},
        requires=["len(spreads) == len(delays)", "dde_approx >= 0", "forall(0, len(delays), lambda k: delays[k] >= 0)"],
        loops={0: dict(counter="i", invariant=[
            "len(orders) == i and len(rates) == i",
            "forall(0, i, lambda k: implies(delays[k] > 0 and (spreads[k] > 0 or dde_approx > 0), orders[k] >= 1 and rates[k] * delays[k] == orders[k]))",
            f"forall(0, i, lambda k: implies(delays[k] > 0 and spreads[k] > 0, orders[k] == {_SPEC_N}))",
            "forall(0, i, lambda k: implies(delays[k] > 0 and not spreads[k] > 0, orders[k] == dde_approx))",
            "forall(0, i, lambda k: implies(delays[k] == 0, rates[k] == 0))",
            "forall(0, i, lambda k: implies(delays[k] == 0 and not spreads[k] > 0, orders[k] == 0))",
        ])},
        ensures=[
            "len(orders) == len(delays) and len(rates) == len(delays)",
            # mean delay: n stages of rate a delay by n/a
            "forall(0, len(delays), lambda k: implies(delays[k] > 0 and (spreads[k] > 0 or dde_approx > 0), "
            "orders[k] >= 1 and rates[k] * delays[k] == orders[k]))",
            f"forall(0, len(delays), lambda k: implies(delays[k] > 0 and spreads[k] > 0, orders[k] == {_SPEC_N}))",
            "forall(0, len(delays), lambda k: implies(delays[k] > 0 and not spreads[k] > 0, orders[k] == dde_approx))",
            "forall(0, len(delays), lambda k: implies(delays[k] == 0, rates[k] == 0))",
        ],
        abstractions=ABS, modifies=[], local_kinds={"orders": "seq[int]", "rates": "seq[real]"},
        # `orders` / `rates` are roles: the two lists initialised by the statement before the loop, whatever the source calls them
        bind_locals={"orders": (0, 0), "rates": (0, 1)},
    ),
    dict(
        name="NetworkGraph._add_matrix_delay@kernel-order", prop="C11", target=f"{F}::NetworkGraph._add_matrix_delay",
        region=dict(kind="if", match="spread is not None and spread > 0", nth=0, count=2),
        params={"delay": "real", "spread": "real", "dde_approx": "int"},
        requires=["delay > 0", "dde_approx >= 0"],
        ensures=[
            "n >= 1 and a * delay == n",
            "implies(spread > 0, n == max(1, round((delay / spread) ** 2)))",
            "implies(not spread > 0 and dde_approx > 0, n == dde_approx)",
        ],
        abstractions=ABS, modifies=[],
        # `n` / `a` are roles: the number of stages chosen by the if-chain and the stage rate assigned right after it
        bind_locals={"n": (0, 0), "a": (1, 0)},
    ),
]
