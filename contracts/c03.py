"""C03 (and the solver-loop parts of C02, C08, C10) — fixed-step solver loops of BaseBackend.

Spec functions (uninterpreted, defined by their recursion axioms; executed natively by the recursive defs):
   euler_iter(k): k-th Euler iterate of `func` from the initial state, heun_iter(k) likewise.
The step counter handed to `func` is i + t0 for BOTH Heun stages (C08: "sample k is used during step k").
"""
from pyvc import abstractions as A
from contracts.c19 import CLASSES as DDE_CLASSES, CONTRACTS as DDE_CONTRACTS

F = "pyrates/backend/base/base_backend.py"
CLASSES = dict(DDE_CLASSES)

ABS = {"np.empty": A.np_empty("row"), "np.zeros": A.np_empty("row"), "np.round": A.iround, "round": A.iround,
       "np.array": A.row_copy, "np.copy": A.row_copy}

# callee contracts available to the solver loops (modular: DDEHistory.update is used through its contract)
CALLEE_CONTRACTS = {c["target"].split("::")[1]: c for c in DDE_CONTRACTS if c["name"] == "DDEHistory.update"}

STEPS = "int(np.round(T / dt))"
SSTEPS = "int(np.round(T / dts))"
SSTEP = "int(np.round(dts / dt))"

COMMON_REQ = [
    "dt > 0", "dts > 0",
    f"{SSTEP} >= 1", f"{STEPS} >= 0", f"{SSTEPS} >= 0",
    # every stored row fits: ceil(steps / store_step) <= store_steps  (multiplicative form)
    f"{STEPS} <= {SSTEPS} * {SSTEP}",
]

GHOST_QR = {"q": "0", "r": "0"}
GHOST_STEP = ["q, r = ((q + 1, 0) if r + 1 == store_step else (q, r + 1))"]


def loop_invs(it, dde):
    inv = [
        "i == q * store_step + r", "0 <= r", "r < store_step", "q >= 0",
        "idx == q + (1 if r > 0 else 0)",
        f"y == {it}(i)",
        f"forall(0, idx, lambda k: state_rec[k] == {it}(k * store_step))",
        "len(state_rec) == store_steps",
        "store_step == M", "store_steps == S", "steps == N",
    ]
    if dde:
        inv += [
            "args[0]._growable",
            "args[0]._n == old(args[0]._n) + i",
            "implies(i > 0, args[0]._t[args[0]._n - 1] == i * dt)",
            "implies(i == 0, args[0]._t[args[0]._n - 1] == old(args[0]._t[args[0]._n - 1]))",
            # the WHOLE earlier view is untouched and the records appended so far are the iterates
            "forall(0, old(args[0]._n), lambda k: args[0]._t[k] == old(args[0]._t)[k])",
            "forall(0, old(args[0]._n), lambda k: args[0]._y[k] == old(args[0]._y)[k])",
            f"forall(0, i, lambda k: args[0]._t[old(args[0]._n) + k] == tstamp(k + 1))",
            f"forall(0, i, lambda k: args[0]._y[old(args[0]._n) + k] == {it}(k + 1))",
        ]
    return inv


def post(it, dde, calls_per_step):
    out = [
        "len(result) == S",
        # row k holds iterate k*M (so row 0 is the initial state), for every row that was due
        f"forall(0, S, lambda k: implies(k * M < N, result[k] == {it}(k * M)))",
    ]
    if dde:
        out += [
            "args[0]._n == old(args[0]._n) + N",
            f"forall(0, N, lambda k: args[0]._t[old(args[0]._n) + k] == (k + 1) * dt and "
            f"args[0]._y[old(args[0]._n) + k] == {it}(k + 1))",
            "forall(0, old(args[0]._n), lambda k: args[0]._t[k] == old(args[0]._t)[k] and args[0]._y[k] == old(args[0]._y)[k])",
        ]
    return out


def spec(it, dde):
    h = ", old(args[0]._n) + k" if dde else ""
    if it == "euler_iter":
        rec = f"euler_iter(k + 1) == euler_iter(k) + dt * func(k + t0, euler_iter(k){h})"
    else:
        rec = (f"heun_iter(k + 1) == heun_iter(k) + dt / 2 * (func(k + t0, heun_iter(k){h}) + "
               f"func(k + t0, heun_iter(k) + dt * func(k + t0, heun_iter(k){h}){h}))")
    out = {it: dict(sig=(["int"], "row"),
                    axioms=[f"{it}(0) == y", f"forall(0, INF, lambda k: {rec}, lambda k: {it}(k + 1))"])}
    if dde:
        # time stamp of the k-th appended record: keeps the quantified obligations free of non-linear terms
        out["tstamp"] = dict(sig=(["int"], "real"), axioms=["forall(0, INF, lambda k: tstamp(k) == k * dt, lambda k: tstamp(k))"])
    return out


def instance(it, dde):
    h = ", old(args[0]._n) + i" if dde else ""
    extra = ["tstamp(i + 1) == (i + 1) * dt"] if dde else []
    if it == "euler_iter":
        return [f"euler_iter(i + 1) == euler_iter(i) + dt * func(i + t0, euler_iter(i){h})"] + extra
    return [f"heun_iter(i + 1) == heun_iter(i) + dt / 2 * (func(i + t0, heun_iter(i){h}) + "
            f"func(i + t0, heun_iter(i) + dt * func(i + t0, heun_iter(i){h}){h}))"] + extra


def solver(name, method, it, dde):
    fsig = "fn(int,row,int->row)" if dde else "fn(int,row->row)"
    c = dict(
        name=f"BaseBackend.{method}[{name}]", prop="C03", target=f"{F}::BaseBackend.{method}",
        params={"func": fsig, "args": "tuple(obj:DDEHistory)" if dde else "tuple()", "T": "real", "dt": "real",
                "dts": "real", "y": "row", "t0": "int"},
        requires=list(COMMON_REQ),
        ghost={"N": STEPS, "S": SSTEPS, "M": SSTEP},
        spec_funcs=spec(it, dde),
        loops={0: dict(counter="i", ghost=GHOST_QR, ghost_step=GHOST_STEP, invariant=loop_invs(it, dde),
                       lemmas=["implies(i == q * store_step + r and 0 <= r and r < store_step and store_step >= 1, "
                               "i % store_step == r)"],
                       axiom_instances=instance(it, dde))},
        ensures=post(it, dde, 1),
        returns="seq[row]",
        abstractions=ABS,
        fn_nolog=["func"],
        # the locals of the loop contract are roles, bound to the five preparation statements in their order (write cursor, number of
        # steps, number of stored rows, storage cadence, record buffer) whatever the source calls them
        bind_locals={"idx": (0, 0), "steps": (1, 0), "store_steps": (2, 0), "store_step": (3, 0), "state_rec": (4, 0)},
    )
    if dde:
        c["requires"] += ["args[0]._growable", "args[0]._t[args[0]._n - 1] < dt"]
        c["fn_ghost"] = {"func": ["args[0]._n"]}
        c["modifies"] = ["args.0._t", "args.0._y", "args.0._n"]
    return c


CONTRACTS = [
    solver("ode", "_solve_euler", "euler_iter", False),
    solver("dde", "_solve_euler", "euler_iter", True),
    solver("ode", "_solve_heun", "heun_iter", False),
    solver("dde", "_solve_heun", "heun_iter", True),
]


CLASSES["BaseBackend"] = dict(fields={})

RUN = dict(
    name="BaseBackend.run", prop="C03", target=f"{F}::BaseBackend.run",
    params={"self": "obj:BaseBackend", "func": "opaque", "func_args": "opaque", "T": "real", "dt": "real", "dts": "real",
            "solver": "str", "kwargs": "opaque"},
    requires=["dt > 0", "dts >= 0", "T >= 0"],
    ensures=[
        # the time axis: n = round(T / sampling step) points k*T/n  (sampling step = dts, or dt when dts is 0/None)
        "len(result[1]) == round(T / (dts if dts else dt))",
        "forall(0, len(result[1]), lambda k: result[1][k] * len(result[1]) == k * T)",
    ],
    abstractions={"round": A.iround, "np.round": A.iround, "np.linspace": A.np_linspace},
    unknown_calls="opaque", modifies=[],
)
CONTRACTS.append(RUN)


FG = "pyrates/backend/computegraph.py"
for _kind, _req, _ens in (("int", ["idx >= 0"], ["result == (old(idx), old(idx) + 1)"]),
                          ("tuple(int,int)", ["0 <= idx[0]", "idx[0] < idx[1]"], ["result == (old(idx)[0], old(idx)[1])"])):
    CONTRACTS.append(dict(
        name=f"ComputeGraph._index_state_var[{_kind.split('(')[0]}]", prop="C03", target=f"{FG}::ComputeGraph._index_state_var",
        params={"y": "matrix", "idx": _kind}, requires=_req,
        # the columns selected from the state record are exactly the positions of the variable: [i, i+1) resp. [a, b)
        ensures=_ens, modifies=[]))


# The frontend decides with this function whether the model is compiled for a FIXED-step loop (integer step counter as `t`, input
# samples indexed by it, ring buffers, hist(t*dt - d)) or for an adaptive solver (continuous `t`, interpolated inputs, hist(t - d)).
# The fixed-step loops of every backend are exactly the ones `_solve` dispatches 'euler' and 'heun' to (C20 dispatch contract), so
# the two decisions have to agree: adaptive  <=>  solver is neither 'euler' nor 'heun'.
CONTRACTS.append(dict(
    name="is_integration_adaptive", prop="C03", target="pyrates/frontend/template/circuit.py::is_integration_adaptive",
    params={"solver": "str", "solver_kwargs": "opaque"},
    ensures=["result == (solver != 'euler' and solver != 'heun')"],
    modifies=[], returns_any=True,
))

