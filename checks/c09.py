"""C09 check: discrete edge delays against the delayed recurrence (bounded) + _preprocess_delay contract (deductive)."""
import os
import sys

HERE = os.path.dirname(os.path.dirname(os.path.abspath(__file__)))
sys.path.insert(0, HERE)

from vlib.harness import Check            # noqa: E402
from rtc import gen, driver, cases        # noqa: E402


def families(tier, seed):
    out = []
    grid = [(2.0, 0.1)] if tier == "quick" else [(2.0, 0.1), (1.0, 0.05), (3.0, 0.1)]
    for tag, feats, model in gen.delay_families("discrete"):
        for (T, dt) in grid:
            for vec in (False, True):
                out.append(dict(tag=f"{tag}/{T}/{dt}", features=dict(feats, dt=dt), kind="run", model=model, T=T, dt=dt, dts=None,
                                solver="euler", vec=vec, only_vars=feats.get("only_vars")))
    # two parallel edges between one pair of variables with different delays (fixed witness of a listed finding)
    tag_, feats_, model_ = gen.parallel_delay_model("discrete")
    for vec in (False, True):
        T_, dt_ = (2.0, 0.1)
        out.append(dict(tag=f"{tag_}/{T_}/{dt_}", features=dict(feats_, dt=dt_), kind="run", model=model_, T=T_, dt=dt_, dts=None, solver="euler", vec=vec))
    # the other fixed-step solver: the same delayed recurrence under Heun (both stages of step k read the source of step k - lag)
    for tag, feats, model in gen.delay_families("discrete"):
        if tag.split("-")[0] in ("D1", "D3"):
            out.append(dict(tag=f"{tag}/heun", features=dict(feats, dt=0.1, heun=True), kind="run", model=model, T=2.0, dt=0.1, dts=None,
                            solver="heun", vec=False, only_vars=feats.get("only_vars")))
    # the two-stage route (apply() with its defaults, then CircuitIR.run) and the other Python backends (refuse or equal NumPy)
    for tag, feats, model in gen.delay_families("discrete"):
        if tag.split("-")[0] in ("D1", "D4"):       # (no undelayed edge from a merged source: that is a listed finding of its own)
            for vec in (False, True):
                out.append(dict(tag=f"{tag}/two-stage", features=dict(feats, dt=0.1, two_stage=True), kind="two_stage", model=model, T=2.0, dt=0.1, vec=vec,
                                only_vars=feats.get("only_vars")))
    for b in ("torch", "jax", "fortran"):       # (fortran: its 1-based index conversion of the ring-buffer write / read slots)
        for form in ("scalar", "connectivity"):
            out.append(dict(tag=f"delayed-edges/{form}/0/{b}", features=dict(backend=b, delayed_edges=form), kind="delayed_edges_backend", backend=b,
                            form=form, order=0))
    for tag, feats, ps in gen.c16_cases(seed):
        if tag.startswith("P5"):
            dt = feats.get("dt", 0.05)
            out.append(dict(tag=tag, features=feats, kind="population", ps=ps, T=10 * dt, dt=dt))
    return out


def two_stage_case(c):
    """The documented two-stage route: CircuitTemplate.apply(step_size=...) with its defaults, then CircuitIR.run(solver='euler'):
    the same delayed recurrence as CircuitTemplate.run."""
    import numpy as np
    from rtc import mdl
    model, T, dt = c["model"], c["T"], c["dt"]
    tpl = mdl.build_templates(model)
    svars = [v for v in mdl.state_vars(model) if not c.get("only_vars") or v in c["only_vars"]]
    outs = {f"v{i}": p for i, p in enumerate(svars)}
    try:
        tpl.apply(step_size=dt, vectorize=c["vec"], verbose=False, backend="default", float_precision="float64")
        out_map, out_ir = tpl.get_variable_positions(dict(outs))
        res = tpl.intermediate_representation.run(simulation_time=T, solver="euler", outputs=out_ir)
        got = {k: np.squeeze(np.asarray(res[k])[:, idx]) for k, idx in out_map.items()}
    except Exception as exn:
        return dict(status="violated", fails=[dict(clause="apply() + CircuitIR.run(solver='euler') returns a result", observed=f"{type(exn).__name__}: {exn}")])
    _, ref = mdl.spec_fixed_step(model, T, dt, dt, "euler")
    fails = []
    for k, p in outs.items():
        g, w = np.asarray(got[k], dtype=float).ravel(), np.asarray(ref[p], dtype=float)
        if g.shape != w.shape or not np.allclose(g, w, rtol=1e-7, atol=1e-10):
            bad = int(np.argmax(np.abs(g - w))) if g.shape == w.shape else -1
            fails.append(dict(clause="apply() + CircuitIR.run(solver='euler'): every row equals the delayed recurrence", var=p, row=bad,
                              observed=float(g[bad]) if bad >= 0 else list(g.shape), expected=float(w[bad]) if bad >= 0 else list(w.shape)))
            break
    import pyrates
    pyrates.clear(tpl)
    return dict(status="violated" if fails else "ok", fails=fails)


def case_fn(c):
    if c.get("kind") == "two_stage":
        return two_stage_case(c)
    if c.get("kind") == "delayed_edges_backend":
        from checks import c02 as _c02
        return _c02.delayed_edges_backend_case(c)
    return cases.case_fn(c)


def rounding_fallback(chk):
    cache = {}

    def run():
        if "r" in cache:
            return cache["r"]
        from pyvc import native
        from contracts import c09 as K
        c = K.CONTRACTS[0]
        fn, mod = native.real_function(c["target"])
        fails, n = [], 0
        for step in (0.1, 0.01, 0.001, 0.25, 1e-4):
            for mult in (0, 1, 2, 2.5, 3, 3.5, 2.4, 2.6, 7, 36, 3.6, 29.999):
                for adapt in (False, True):
                    for disc in (True, False):
                        g = object.__new__(mod.NetworkGraph)
                        g.step_size, g.step_size_adaptation = step, adapt
                        delay = mult * step
                        if isinstance(mult, int) and mult and step in (0.25, 0.1):
                            # delays typed as Python / numpy integers (YAML `delay: 2`, Connectivity(delays=2)) are times like any other
                            import numpy as _np
                            for dv in (int(mult), _np.int64(mult)):
                                n += 1
                                status, fl = native.check_call(c, K.CLASSES, dict(self=g, delay=dv, discretize=disc), fn=fn)
                                if status == "violated":
                                    fails.append(dict(site="C09/NetworkGraph._preprocess_delay", clauses=fl[:2],
                                                      input=dict(delay=int(dv), delay_type=type(dv).__name__, step_size=step, adaptive=adapt, discretize=disc),
                                                      features=dict(delay=int(dv), step=step, integer_typed=True)))
                        n += 1
                        status, fl = native.check_call(c, K.CLASSES, dict(self=g, delay=delay, discretize=disc), fn=fn)
                        if status == "violated":
                            fails.append(dict(site="C09/NetworkGraph._preprocess_delay", clauses=fl[:2],
                                              input=dict(delay=delay, step_size=step, adaptive=adapt, discretize=disc),
                                              features=dict(delay=delay, step=step)))
        chk.add_bounded("native-delay-rounding", n, n // 4,
                        "real _preprocess_delay on delay = m*step for m incl. x.5 ties and inexact float ratios (0.3/0.1), "
                        "fixed/adaptive, discretize on/off; distinct = (delay, step) pairs", [dict(delay=0.3, step_size=0.1)])
        cache["r"] = fails
        return fails
    return run


def add_delay_fallback(chk):
    """Bounded native companion of the two @add-delay region contracts: the extracted statements run natively."""
    cache = {}

    def run():
        if "r" in cache:
            return cache["r"]
        import types
        from pyvc import native
        from contracts import c09 as K
        fails, n = [], 0
        for c in K.CONTRACTS[1:]:
            try:
                f = native.region_function(c)
            except LookupError:
                continue        # statements restructured: undecided for this stand-in, the run() families decide
            disc = "discretised" in c["name"]
            lists = ([[1], [1, 1, 1], [2], [1, 2], [3, 1], [1, 1, 5], [0, 1], [2, 2]] if disc
                     else [[0.0], [0.05], [0.1], [0.1000001], [0.3, 0.05], [0.05, 0.2, 0.01], [1.0], [2.5, 0.0]])
            for means in lists:
                for step in (0.1, 0.01, 1.0):
                    n += 1
                    status, fl = native.check_call(c, K.CLASSES, dict(self=types.SimpleNamespace(step_size=step, step_size_adaptation=not disc), means=means), fn=f)
                    if status == "violated":
                        fails.append(dict(site="C09/" + c["name"], clauses=fl[:2], input=dict(means=means, step_size=step), features=dict(means=means, step=step)))
        chk.add_bounded("native-add-delay-decision", n, n,
                        "the extracted statements of _collect_delays_from_edges that decide whether a delay buffer is built, run natively on lists of "
                        "discretised delays (incl. the placeholder 1, exactly 2, mixtures) and of continuous delays around the step size; distinct = (list, step)",
                        [dict(means=[1, 2], step_size=0.1)])
        cache["r"] = fails
        return fails
    return run


def main():
    chk = Check("C09", "other")
    fb = rounding_fallback(chk)
    fba = add_delay_fallback(chk)
    from contracts import c09 as _K
    fbs = {c_["name"]: fba for c_ in _K.CONTRACTS[1:]}
    fbs["*"] = fb
    chk.run_contracts("contracts.c09", fallback=fbs)
    for f in fb() + fba():
        chk.report_failure(f)
    _cases = families(chk.tier, chk.seed)
    _results = driver.run_family(
        chk, "run-euler-vs-delayed-recurrence", _cases, case_fn, site="C09/run",
        rule="circuits with delayed edges only / mixed delayed+undelayed from different sources / one source with several "
             "delays / one target with several delays / an undelayed edge sharing its source with a delayed one / 4-node "
             "rings with two delay values and with a permuted uniform delay; vectorize off and on; every state variable, "
             "every row against the recurrence target_in[k] = w*source[k - round(d/dt)] (0 before the start); distinct = "
             "distinct (model, T, dt, vectorize)",
        sample_of=lambda c: {k: v for k, v in c.items() if k not in ('features',)})
    driver.run_sequences(chk, "run-euler-vs-delayed-recurrence-in-sequence", [c_ for c_ in _cases if c_.get("kind") not in ("delayed_edges_backend",)], _results, case_fn, site="C09/run",
                         limit=20 if chk.tier == "quick" else 120, seed=chk.seed)
    rc = chk.finish(
        explanation="Bounded: run(solver='euler') of every family member against the explicitly delayed recurrence computed by "
                    "the spec (spec_fixed_step), element-wise at rtol 1e-7. Deductive part (when present): the delay "
                    "discretisation function rounds half-to-even of delay/step.",
        assumptions=["spec_fixed_step (harness) implements the recurrence of the property statement", "lags of fewer than 2 steps are outside the property"])
    sys.exit(rc)


if __name__ == "__main__":
    main()
