"""C09 check: discrete edge delays against the delayed recurrence (bounded) + _preprocess_delay contract (deductive)."""
import os
import sys

HERE = os.path.dirname(os.path.dirname(os.path.abspath(__file__)))
sys.path.insert(0, HERE)

from vlib.harness import Check            # noqa: E402
from rtc import gen, driver, cases        # noqa: E402


def families(tier, seed):
    out = []
    grid = [(2.0, 0.1)] if tier == "quick" else [(2.0, 0.1), (1.0, 0.05), (3.0, 0.1)]
    for tag, feats, model in gen.delay_families("discrete"):
        for (T, dt) in grid:
            for vec in (False, True):
                out.append(dict(tag=f"{tag}/{T}/{dt}", features=dict(feats, dt=dt), kind="run", model=model, T=T, dt=dt, dts=None,
                                solver="euler", vec=vec, only_vars=feats.get("only_vars")))
    # two parallel edges between one pair of variables with different delays (fixed witness of a listed finding)
    tag_, feats_, model_ = gen.parallel_delay_model("discrete")
    for vec in (False, True):
        T_, dt_ = (2.0, 0.1)
        out.append(dict(tag=f"{tag_}/{T_}/{dt_}", features=dict(feats_, dt=dt_), kind="run", model=model_, T=T_, dt=dt_, dts=None, solver="euler", vec=vec))
    # the other fixed-step solver: the same delayed recurrence under Heun (both stages of step k read the source of step k - lag)
    for tag, feats, model in gen.delay_families("discrete"):
        if tag.split("-")[0] in ("D1", "D3"):
            out.append(dict(tag=f"{tag}/heun", features=dict(feats, dt=0.1, heun=True), kind="run", model=model, T=2.0, dt=0.1, dts=None,
                            solver="heun", vec=False, only_vars=feats.get("only_vars")))
    for tag, feats, ps in gen.c16_cases(seed):
        if tag.startswith("P5"):
            dt = feats.get("dt", 0.05)
            out.append(dict(tag=tag, features=feats, kind="population", ps=ps, T=10 * dt, dt=dt))
    return out


def rounding_fallback(chk):
    cache = {}

    def run():
        if "r" in cache:
            return cache["r"]
        from pyvc import native
        from contracts import c09 as K
        c = K.CONTRACTS[0]
        fn, mod = native.real_function(c["target"])
        fails, n = [], 0
        for step in (0.1, 0.01, 0.001, 0.25, 1e-4):
            for mult in (0, 1, 2, 2.5, 3, 3.5, 2.4, 2.6, 7, 36, 3.6, 29.999):
                for adapt in (False, True):
                    for disc in (True, False):
                        g = object.__new__(mod.NetworkGraph)
                        g.step_size, g.step_size_adaptation = step, adapt
                        delay = mult * step
                        if isinstance(mult, int) and mult and step in (0.25, 0.1):
                            # delays typed as Python / numpy integers (YAML `delay: 2`, Connectivity(delays=2)) are times like any other
                            import numpy as _np
                            for dv in (int(mult), _np.int64(mult)):
                                n += 1
                                status, fl = native.check_call(c, K.CLASSES, dict(self=g, delay=dv, discretize=disc), fn=fn)
                                if status == "violated":
                                    fails.append(dict(site="C09/NetworkGraph._preprocess_delay", clauses=fl[:2],
                                                      input=dict(delay=int(dv), delay_type=type(dv).__name__, step_size=step, adaptive=adapt, discretize=disc),
                                                      features=dict(delay=int(dv), step=step, integer_typed=True)))
                        n += 1
                        status, fl = native.check_call(c, K.CLASSES, dict(self=g, delay=delay, discretize=disc), fn=fn)
                        if status == "violated":
                            fails.append(dict(site="C09/NetworkGraph._preprocess_delay", clauses=fl[:2],
                                              input=dict(delay=delay, step_size=step, adaptive=adapt, discretize=disc),
                                              features=dict(delay=delay, step=step)))
        chk.add_bounded("native-delay-rounding", n, n // 4,
                        "real _preprocess_delay on delay = m*step for m incl. x.5 ties and inexact float ratios (0.3/0.1), "
                        "fixed/adaptive, discretize on/off; distinct = (delay, step) pairs", [dict(delay=0.3, step_size=0.1)])
        cache["r"] = fails
        return fails
    return run


def main():
    chk = Check("C09", "other")
    fb = rounding_fallback(chk)
    chk.run_contracts("contracts.c09", fallback={"*": fb})
    for f in fb():
        chk.report_failure(f)
    _cases = families(chk.tier, chk.seed)
    _results = driver.run_family(
        chk, "run-euler-vs-delayed-recurrence", _cases, cases.case_fn, site="C09/run",
        rule="circuits with delayed edges only / mixed delayed+undelayed from different sources / one source with several "
             "delays / one target with several delays / an undelayed edge sharing its source with a delayed one / 4-node "
             "rings with two delay values and with a permuted uniform delay; vectorize off and on; every state variable, "
             "every row against the recurrence target_in[k] = w*source[k - round(d/dt)] (0 before the start); distinct = "
             "distinct (model, T, dt, vectorize)",
        sample_of=lambda c: {k: v for k, v in c.items() if k not in ('features',)})
    driver.run_sequences(chk, "run-euler-vs-delayed-recurrence-in-sequence", _cases, _results, cases.case_fn, site="C09/run",
                         limit=20 if chk.tier == "quick" else 120, seed=chk.seed)
    rc = chk.finish(
        explanation="Bounded: run(solver='euler') of every family member against the explicitly delayed recurrence computed by "
                    "the spec (spec_fixed_step), element-wise at rtol 1e-7. Deductive part (when present): the delay "
                    "discretisation function rounds half-to-even of delay/step.",
        assumptions=["spec_fixed_step (harness) implements the recurrence of the property statement", "lags of fewer than 2 steps are outside the property"])
    sys.exit(rc)


if __name__ == "__main__":
    main()
