"""C19 check: DDEHistory contracts (deductive) + bounded native contract checking over scripted histories."""
import itertools
import os
import random
import sys

import numpy as np

HERE = os.path.dirname(os.path.dirname(os.path.abspath(__file__)))
sys.path.insert(0, HERE)

from vlib.harness import Check          # noqa: E402
from pyvc import native                 # noqa: E402
from contracts import c19 as K          # noqa: E402

BY_NAME = {c["name"]: c for c in K.CONTRACTS}


def _contract_for(method, obj_or_args):
    if method == "__init__":
        return BY_NAME["DDEHistory.__init__[growable]" if obj_or_args.get("max_steps") is None
                       else "DDEHistory.__init__[bounded]"]
    return BY_NAME[f"DDEHistory.{method}"]


def scripted_histories(tier, seed):
    """Deterministic + seeded scenarios: (dtype, shape, max_steps, number of updates, query pattern)."""
    rng = random.Random(seed)
    dtypes = [np.float64, np.float32, np.complex128, np.int64]
    shapes = [(), (1,), (3,), (2, 2)]
    caps = [None, 1, 2, 5]
    n_updates = [0, 1, 4, 1030, 2100] if tier == "quick" else [0, 1, 2, 4, 7, 1023, 1024, 1025, 2049, 4100, 8200]
    out = []
    for dt, sh, cap in itertools.product(dtypes, shapes, caps):
        for n in n_updates:
            if cap is not None and n > cap + 2:
                continue
            out.append(dict(dtype=dt.__name__, shape=sh, max_steps=cap, updates=n, seed=rng.randrange(1 << 30)))
    rng.shuffle(out)
    return out if tier == "thorough" else out[:140]


def run_scenario(sc, DDEHistory, failures, counters, factory=None):
    rng = np.random.default_rng(sc["seed"])
    dt = np.dtype(sc["dtype"])

    def rand_state():
        if dt.kind == "c":
            v = rng.integers(-8, 9, size=sc["shape"]) / 4.0 + 1j * rng.integers(-8, 9, size=sc["shape"]) / 4.0
        elif dt.kind == "i":
            v = rng.integers(-2 ** 40, 2 ** 40, size=sc["shape"])
        else:
            v = rng.integers(-64, 65, size=sc["shape"]) / 8.0
        return np.asarray(v, dtype=dt)

    def call(method, obj, **args):
        c = _contract_for(method, args)
        a = {"self": obj}
        a.update(args)
        fn = getattr(DDEHistory, method)
        status, fails = native.check_call(c, K.CLASSES, a, fn=fn)
        counters["calls"] += 1
        counters["by_method"][method] = counters["by_method"].get(method, 0) + 1
        if status == "violated":
            failures.append(dict(site=f"C19/{c['name']}", site_class=f"C19/{c['name']}", clauses=fails[:4],
                                 input=dict(scenario=sc, method=method,
                                            args={k: (v.tolist() if hasattr(v, 'tolist') else v) for k, v in args.items()},
                                            n_before=getattr(obj, "_n", None)),
                                 features=dict(method=method)))
        return status

    y0 = rand_state()
    t = float(rng.integers(-4, 5)) / 2.0
    h = DDEHistory.__new__(DDEHistory)
    call("__init__", h, y0=y0, t0=t, max_steps=sc["max_steps"])
    recs = [(t, y0.copy())]
    if factory is not None:
        # the factory the compiled DDE models use (BaseBackend.get_hist_func): same postcondition as the growable constructor,
        # for every state shape and dtype
        counters["calls"] += 1
        try:
            h2 = factory(y0.copy(), t0=t)
            bad = []
            if h2._n != 1 or float(h2._t[0]) != t:
                bad.append("get_hist_func(y, t0): one record at time t0")
            if not native._eq(h2._y[0], y0, 0) or h2._y.dtype != dt:
                bad.append("get_hist_func(y, t0): the first record is exactly y (values and dtype of the state)")
            if not native._eq(h2(t - 1.0), y0, 0) or not native._eq(h2(t + 1.0), y0, 0):
                bad.append("get_hist_func(y, t0): queries return exactly y before any update")
        except Exception as exn:
            bad = [f"no-exception:{type(exn).__name__}: {exn}"]
        if bad:
            failures.append(dict(site="C19/BaseBackend.get_hist_func", site_class="C19/BaseBackend.get_hist_func", clauses=bad,
                                 input=dict(scenario=sc, y0=np.asarray(y0).tolist() if dt.kind != "c" else str(np.asarray(y0).tolist()), t0=t),
                                 features=dict(method="get_hist_func")))
    keep = []          # caller-side arrays that are mutated after the call (records must be copies)
    ahead = []         # times queried while they were at / beyond the newest record; asked again (identical value) after later updates
    for i in range(sc["updates"]):
        if i < 8 or i >= sc["updates"] - 3:
            for qa_ in (t + 0.375, t, t + 0.125):          # the last one is asked again right after the update (steps are >= 0.25)
                call("__call__", h, t=qa_)
                ahead.append(qa_)
        t = t + float(rng.integers(1, 5)) / 4.0
        y = rand_state()
        before_n = h._n
        near_growth = (before_n & (before_n - 1)) == 0 or (before_n & (before_n + 1)) == 0
        if i < 6 or near_growth or i >= sc["updates"] - 3 or sc["max_steps"] is not None:
            st = call("update", h, t=t, y=y)
        else:                      # far from any growth event: plain call (keeps the run O(n))
            try:
                h.update(t, y)
            except Exception as exn:
                failures.append(dict(site="C19/DDEHistory.update", site_class="C19/DDEHistory.update",
                                     clauses=[f"no-exception:{type(exn).__name__}: {exn}"],
                                     input=dict(scenario=sc, step=i), features=dict(method="update")))
                return
        if h._n == before_n + 1:
            recs.append((t, y.copy()))
            # copy semantics: mutate the caller's array afterwards, the record must not move
            if y.shape:
                y[...] = 0
            if not native._eq(h._y[h._n - 1], recs[-1][1], 0):
                failures.append(dict(site="C19/DDEHistory.update", site_class="C19/DDEHistory.update",
                                     clauses=["stored record is not a copy of the argument"],
                                     input=dict(scenario=sc, step=i), features=dict(method="update")))
        # the same times again, now behind the front (two consecutive queries with the identical argument, updates in between)
        for qa_ in reversed([q_ for q_ in ahead if q_ <= t]):       # most recently asked first
            call("__call__", h, t=qa_)
            call("__call__", h, t=qa_)
        ahead = [q_ for q_ in ahead if q_ > t]
        # interleaved queries around growth events and at a few other steps
        if i < 6 or i % 257 == 0 or (i & (i + 1)) == 0 or i >= sc["updates"] - 3:
            for q in query_points(recs, rng):
                r1 = None
                if call("__call__", h, t=q) == "ok":
                    pass
    # results of two queries must both stay valid (a query must not overwrite an earlier result)
    if len(recs) >= 3:
        qa = (recs[0][0] + recs[1][0]) / 2
        qb = (recs[-2][0] + recs[-1][0]) / 2
        try:
            a = np.array(h(qa), copy=True)
            a_live = h(qa)
            _ = h(qb)
        except Exception as exn:
            failures.append(dict(site="C19/DDEHistory.__call__", site_class="C19/DDEHistory.__call__",
                                 clauses=[f"no-exception:{type(exn).__name__}: {exn}"],
                                 input=dict(scenario=sc, qa=qa, qb=qb), features=dict(method="__call__")))
            return
        counters["calls"] += 3
        if not native._eq(a, a_live, 0):
            failures.append(dict(site="C19/DDEHistory.__call__", site_class="C19/DDEHistory.__call__",
                                 clauses=["result of an earlier query changed after a later query (modifies nothing)"],
                                 input=dict(scenario=sc, qa=qa, qb=qb), features=dict(method="__call__")))
    # whole-view check against the script (records survive growth; dtype preserved)
    if len(recs) == h._n:
        for k in ({0, 1, len(recs) // 2, len(recs) - 1} & set(range(len(recs)))):
            counters["calls"] += 1
            try:
                got = h(recs[k][0])
            except Exception as exn:
                got = f"{type(exn).__name__}: {exn}"
            if not (native._eq(got, recs[k][1], 0) and h._y.dtype == dt):
                failures.append(dict(site="C19/DDEHistory.__call__", site_class="C19/DDEHistory.__call__",
                                     clauses=[f"query at recorded time t_{k} must return exactly y_{k}; the record buffer keeps the state dtype"],
                                     input=dict(scenario=sc, k=k, expected=recs[k][1].tolist(), observed=np.asarray(got).tolist() if not isinstance(got, str) else got),
                                     features=dict(method="__call__")))


def query_points(recs, rng):
    ts = [r[0] for r in recs]
    pts = [ts[0] - 1.0, ts[0], ts[-1], ts[-1] + 0.5]
    if len(ts) > 1:
        j = int(rng.integers(0, len(ts) - 1))
        pts += [ts[j], (ts[j] + ts[j + 1]) / 2, ts[j] + (ts[j + 1] - ts[j]) / 4, ts[j + 1]]
    return pts


def bounded(chk, label):
    """Bounded native contract checking on the real class (never counted as proved)."""
    def run():
        _, mod = native.real_function(f"{K.F}::DDEHistory")
        D = mod.DDEHistory
        failures, counters = [], dict(calls=0, by_method={})
        scs = scripted_histories(chk.tier, chk.seed)
        distinct = set()
        for sc in scs:
            run_scenario(sc, D, failures, counters, factory=getattr(getattr(mod, "BaseBackend", None), "get_hist_func", None))
            if sc["updates"] > 0:
                distinct.add((sc["dtype"], sc["shape"], sc["max_steps"], sc["updates"]))
            if len(failures) > 5:
                break
        chk.add_bounded(label, counters["calls"], len(distinct),
                        "scripted update/query histories on the real DDEHistory: dtypes float64/float32/complex128/int64 x "
                        "shapes (),(1,),(3,),(2,2) x max_steps None/1/2/5 x update counts crossing 0..2 growth events "
                        "(quick) or 0..3 (thorough); every method call is checked against its contract natively; distinct = "
                        "scenarios with >= 1 update, by (dtype, shape, max_steps, updates)", scs[:2])
        return failures
    return run


def main():
    chk = Check("C19", "proof")
    # who may write the history of a delayed model: the adaptive DDE solvers change it only through DDEHistory.update, unconditionally per accepted step
    chk.run_frames()
    fb = bounded(chk, "native-contracts-on-scripted-histories")
    cache = {}

    def fb_once():
        if "r" not in cache:
            cache["r"] = fb()
        return cache["r"]
    chk.run_contracts("contracts.c19", fallback={"*": fb_once})
    # the precondition of update() (strictly increasing times) at its callers: the fixed-step loops record ((i+1)*dt, y_{i+1})
    from checks.c03 import solver_fallback
    chk.run_contracts("contracts.c03", names=["BaseBackend._solve_euler[dde]", "BaseBackend._solve_heun[dde]"], fallback={"*": solver_fallback(chk)})
    # the cross-check of the encoding (and of what the value model cannot see: dtype, aliasing) always runs
    for f in fb_once():
        if not any(v for v in chk.violations if False):
            chk.report_failure(f)
    rc = chk.finish(
        explanation="Tier A (counted as proved): class invariant + contracts of DDEHistory.__init__ (both variants), update, "
                    "_grow, __call__ discharged for all update/query sequences (the invariant is inductive over every public "
                    "method), all buffer sizes and all query times; `update` calls `_grow` through _grow's contract only. "
                    "Tier B (bounded, NOT counted as proved): the same clauses evaluated natively on scripted histories; this "
                    "additionally covers dtype/shape preservation and result aliasing, which the value model of arrays cannot "
                    "express.",
        assumptions=["floats are mathematical reals (rounding, inf, nan ignored)",
                     "a state vector is modelled by one representative real component (numpy element-wise semantics)",
                     "numpy row assignment buf[i] = y copies y (frame obligation 'alias-of-argument' checks that no other "
                     "kind of store of the argument happens)",
                     "bisect.bisect_right meets its documented contract (its sortedness precondition is an obligation)",
                     "np.empty/np.zeros return an array with the requested first dimension",
                     "float(t) is total on the inputs"])
    sys.exit(rc)


if __name__ == "__main__":
    main()
