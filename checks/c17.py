"""C17 check: a parameter sweep equals running each parameter set on its own (bounded)."""
import os
import sys

HERE = os.path.dirname(os.path.dirname(os.path.abspath(__file__)))
sys.path.insert(0, HERE)

from vlib.harness import Check            # noqa: E402
from rtc import gen, driver, cases        # noqa: E402


def families(tier, seed):
    out = []
    li = gen.op_li("op", x="r", ins=("r_in",), tau=2.0, x0=0.4, extra=["*", ["var", "k"], ["var", "r"]])
    li["vars"]["k"] = ["const", -0.5]
    E = gen.edge
    m = gen.model([li], {"p1": dict(ops=["op"]), "p2": dict(ops=["op"], over={"op/tau": 3.0})},
                  [E("p1/op/r", "p2/op/r_in", 1.5), E("p2/op/r", "p1/op/r_in", 0.5)])
    outs = {"r": "all/op/r"}
    node_map = {"tau1": {"nodes": ["p1"], "vars": ["op/tau"]}, "kk": {"nodes": ["p1", "p2"], "vars": ["op/k"]}}
    edge_map = {"w12": {"edges": [("p1/op/r", "p2/op/r_in")], "vars": ["weight"]}, "tau1": {"nodes": ["p1"], "vars": ["op/tau"]}}
    scen = [
        ("G1-node-params-3-rows", dict(grid={"tau1": [1.0, 2.0, 4.0], "kk": [-0.5, -1.0, 0.25]}, param_map=node_map)),
        ("G2-edge-and-node", dict(grid={"w12": [0.5, 2.5, -1.0], "tau1": [1.0, 2.0, 4.0]}, param_map=edge_map)),
        ("G3-permuted-2x3", dict(grid={"tau1": [1.0, 4.0], "kk": [-0.5, -1.0, 0.25]}, param_map=node_map, permute=True)),
        ("G3b-permuted-3x3-equal-lengths", dict(grid={"tau1": [1.0, 2.0, 4.0], "kk": [-0.5, -1.0, 0.25]}, param_map=node_map, permute=True)),
        ("G14-zero-valued-rows", dict(grid={"tau1": [1.0, 2.0, 4.0, 3.0], "kk": [-0.5, 0.0, 0.25, 0.0]}, param_map=node_map)),
        ("G4-dataframe-nondefault-index", dict(grid={"tau1": [4.0, 1.0, 2.0, 3.0], "kk": [-0.5, -1.0, 0.25, 0.1]}, param_map=node_map,
                                               as_frame=[2, 0, 3, 1])),
        ("G5-edge-only-object-template", dict(grid={"w12": [0.5, 2.5, -1.0]}, param_map={"w12": edge_map["w12"]})),
        ("G6-with-input", dict(grid={"tau1": [1.0, 2.0, 4.0]}, param_map={"tau1": node_map["tau1"]},
                               inputs={"p1/op/r_in": [round(0.1 * ((7 * i) % 5) - 0.2, 3) for i in range(10)]})),
    ]
    # several grid keys addressing DIFFERENT attributes of one edge (weight and delay), and two edges under one key
    two_attr = {"w12": {"edges": [("p1/op/r", "p2/op/r_in")], "vars": ["weight"]}, "d12": {"edges": [("p1/op/r", "p2/op/r_in")], "vars": ["delay"]}}
    # (two different node types: with one type, vectorisation merges the delayed and the undelayed source into one vector, which is
    #  the listed finding KF-C09-undelayed-edge-shares-source-with-delayed and not a grid_search matter)
    tg = gen.op_li("tg", x="r", ins=("r_in",), tau=3.0, x0=0.1)
    m7 = gen.model([li, tg], {"p1": dict(ops=["op"]), "p2": dict(ops=["tg"])}, [E("p1/op/r", "p2/tg/r_in", 1.5), E("p2/tg/r", "p1/op/r_in", 0.5)])
    two_attr = {"w12": {"edges": [("p1/op/r", "p2/tg/r_in")], "vars": ["weight"]}, "d12": {"edges": [("p1/op/r", "p2/tg/r_in")], "vars": ["delay"]}}
    for vec in (True, False):
        out.append(dict(tag="G7-two-keys-on-one-edge", features=dict(vec_flag=vec), kind="grid", model=m7, outputs={"a": "p1/op/r", "b": "p2/tg/r"},
                        vec=vec, grid={"w12": [0.5, 2.5, -1.0], "d12": [0.1, 0.2, 0.15]}, param_map=two_attr))     # delays of at least two steps (C09: shorter ones are neglected)
    both = {"wboth": {"edges": [("p1/op/r", "p2/op/r_in"), ("p2/op/r", "p1/op/r_in")], "vars": ["weight"]}, "tau1": {"nodes": ["p1"], "vars": ["op/tau"]}}
    scen.append(("G8-two-edges-under-one-key", dict(grid={"wboth": [0.5, 2.5, -1.0], "tau1": [1.0, 2.0, 4.0]}, param_map=both)))
    for tag, kw in scen:
        for vec in (True, False):
            out.append(dict(tag=tag, features=dict(vec_flag=vec), kind="grid", model=m, outputs=outs, vec=vec, **kw))
    # two nodes built from ONE NodeTemplate object (no per-node overrides), the grid addresses only one of them
    ms = gen.model([li], {"p1": dict(ops=["op"]), "p2": dict(ops=["op"])}, [E("p1/op/r", "p2/op/r_in", 1.5), E("p2/op/r", "p1/op/r_in", 0.5)])
    for vec in (True, False):
        out.append(dict(tag="G12-shared-node-template-one-target", features=dict(vec_flag=vec), kind="grid", model=ms, outputs=outs, vec=vec,
                        grid={"tau1": [1.0, 2.0, 4.0], "k1": [-0.5, -1.0, 0.25]},
                        param_map={"tau1": {"nodes": ["p1"], "vars": ["op/tau"]}, "k1": {"nodes": ["p2"], "vars": ["op/k"]}}))
    # two plain edges converging on one input variable, six grid rows (twelve edges in one vectorised group), one weight swept
    mc = gen.model([li], {"p1": dict(ops=["op"], over={"op/tau": 1.0}), "p2": dict(ops=["op"], over={"op/tau": 3.0}), "p3": dict(ops=["op"])},
                   [E("p1/op/r", "p3/op/r_in", 1.5), E("p2/op/r", "p3/op/r_in", -0.5), E("p3/op/r", "p1/op/r_in", 0.7)])
    for vec in (True, False):
        out.append(dict(tag="G13-converging-edges-six-rows", features=dict(vec_flag=vec), kind="grid", model=mc, outputs=outs, vec=vec,
                        grid={"w13": [0.5, 2.5, -1.0, 1.0, 0.2, -2.0], "tau3": [1.0, 2.0, 4.0, 0.5, 3.0, 1.5]},
                        param_map={"w13": {"edges": [("p1/op/r", "p3/op/r_in")], "vars": ["weight"]}, "tau3": {"nodes": ["p3"], "vars": ["op/tau"]}}))
    # twelve rows: a unidirectional edge with SI-scale weights (nano-units; the source is large), and a 2-D extrinsic input with one column
    # per grid row (the sub-circuits are numbered 0..11: their textual order differs from their numeric one)
    mu = gen.model([li], {"p1": dict(ops=["op"], over={"op/r": 4.0e8, "op/tau": 50.0, "op/k": 0.0}), "p2": dict(ops=["op"], over={"op/tau": 3.0})},
                   [E("p1/op/r", "p2/op/r_in", 1.0e-9)])
    for vec in (True, False):
        out.append(dict(tag="G15-twelve-rows-tiny-edge-weights", features=dict(vec_flag=vec, rows=12), kind="grid", model=mu, outputs=outs, vec=vec,
                        grid={"w12": [round(0.45e-9 * (k_ + 1), 12) for k_ in range(12)]},
                        param_map={"w12": {"edges": [("p1/op/r", "p2/op/r_in")], "vars": ["weight"]}}))
        if not vec:
            continue          # one input column per addressed node is supported for vectorised circuits only (see C08)
        sig = [[round(0.1 * ((7 * i + 3 * j) % 11) - 0.5, 3) for j in range(12)] for i in range(10)]
        out.append(dict(tag="G16-twelve-rows-one-input-column-per-row", features=dict(vec_flag=vec, rows=12), kind="grid", model=m, outputs=outs, vec=vec,
                        grid={"tau1": [1.0 + 0.25 * k_ for k_ in range(12)]}, param_map={"tau1": node_map["tau1"]}, inputs={"p1/op/r_in": sig}))
    # the circuit handed over as the PATH of a YAML definition (grid_search / adapt_circuit load it themselves, once per row)
    for vec in (True, False):
        out.append(dict(tag="G10-circuit-as-yaml-path", features=dict(vec_flag=vec, as_path=True), kind="grid", model=m, outputs=outs, vec=vec,
                        grid={"tau1": [1.0, 2.0, 4.0], "kk": [-0.5, -1.0, 0.25]}, param_map=node_map, as_path=True))
        out.append(dict(tag="G11-yaml-path-edge-and-node", features=dict(vec_flag=vec, as_path=True), kind="grid", model=m, outputs=outs, vec=vec,
                        grid={"w12": [0.5, 2.5, -1.0], "tau1": [1.0, 2.0, 4.0]}, param_map=edge_map, as_path=True))
    # a circuit whose edges are built from an EdgeTemplate (algebraic edge operator): node parameter and both edge weights swept
    eop = dict(name="eop", eqs=[["s_out", "alg", ["*", ["var", "gain"], ["call", "tanh", ["var", "pre"]]]]],
               vars={"s_out": ["output", 0.0], "pre": ["input", 0.0], "gain": ["const", 1.7]})
    mt = gen.model([li], {"p1": dict(ops=["op"]), "p2": dict(ops=["op"], over={"op/tau": 3.0})},
                   [dict(E("p1/op/r", "p2/op/r_in", 1.5), tpl="eop"), dict(E("p2/op/r", "p1/op/r_in", 0.5), tpl="eop")], edge_ops=[eop])
    for vec in (True, False):
        out.append(dict(tag="G9-edge-template-edges", features=dict(vec_flag=vec, edge_template=True), kind="grid", model=mt, outputs=outs, vec=vec,
                        grid={"wboth": [0.5, 2.5, -1.0], "tau1": [1.0, 2.0, 4.0]}, param_map=both))
    return out


def main():
    chk = Check("C17", "other")
    # deductive core: frame (ownership) contracts of the functions this property rests on (contracts/frames.py)
    chk.run_frames()
    # grid_search compiles ONE vectorised network that holds every row of the grid: whether a row's edges read their own copy of the
    # source rests on the helper that decides if a grouped source has to be indexed at all (contract shared with C06 / C04 / C11)
    from checks import c06 as _c06
    cache6 = {}

    def fb6():
        if "r" not in cache6:
            cache6["r"] = [dict(f, site="C17/_get_indexed_var_str") for f in _c06.indexed_var_native(chk)]
        return cache6["r"]
    chk.run_contracts("contracts.c06", fallback={"*": fb6})
    for f in fb6():
        chk.report_failure(f)
    _cases = families(chk.tier, chk.seed)
    _results = driver.run_family(
        chk, "grid_search-vs-individual-runs", _cases, cases.case_fn, site="C17/grid_search",
        rule="a two-node circuit with distinct per-node parameters; grids over node parameters (one and two targets per key), edge "
             "weights, mixed node+edge, permuted 2x3 and 3x3 grids, rows with the value 0.0, a DataFrame grid with a shuffled index, a template passed as object with "
             "an edge attribute, an extrinsic input, two grid keys on different attributes (weight, delay) of one edge, two edges under one "
             "key, a circuit whose edges are built from an EdgeTemplate, the circuit given as the path of a YAML definition, two nodes sharing one NodeTemplate object with only one addressed, two edges "
             "converging on one variable with six grid rows; vectorize on and off; every row of the returned table against the spec trajectory "
             "of the circuit with that row's values (rtol 1e-6), labels and table contents; distinct = (scenario, vectorize)",
        sample_of=lambda c: {k: v for k, v in c.items() if k not in ("features", "model")})
    driver.run_sequences(chk, "grid_search-vs-individual-runs-in-sequence", _cases, _results, cases.case_fn, site="C17/grid_search",
                         limit=20 if chk.tier == "quick" else 120, seed=chk.seed)
    rc = chk.finish(
        explanation="Bounded: grid_search's table and series against the reference semantics of each individually parametrised circuit.",
        assumptions=["mdl_override + spec_fixed_step (harness)", "column labels (key, circuit name, node, 'op/var')"])
    sys.exit(rc)


if __name__ == "__main__":
    main()
