"""C20 check: guard contracts (deductive) + bounded native guard matrix."""
import os
import sys

HERE = os.path.dirname(os.path.dirname(os.path.abspath(__file__)))
sys.path.insert(0, HERE)

from vlib.harness import Check          # noqa: E402
from pyvc import native                 # noqa: E402
from contracts import c20 as K          # noqa: E402


def guard_case(c):
    import numpy as np
    from pyvc import native
    mod = native.repo_import(c["rel"])
    C = getattr(mod, c["cls"])
    if c["solver"] in C.SUPPORTED_SOLVERS:
        return dict(status="skipped")
    be = object.__new__(C)
    called = []

    def func(*a, **k):
        called.append(1)
        return np.zeros(1)
    from pyrates.backend.base.base_backend import DDEHistory
    args = (DDEHistory(np.zeros(1)),) if c["delayed"] else (np.zeros(1),)
    try:
        be._solve(solver=c["solver"], func=func, args=args, T=0.5, dt=0.1, dts=0.1, y0=np.zeros(1), t0=0, times=np.arange(5) * 0.1)
        outcome = "returned a result"
    except Exception as exn:
        # the property asks for AN exception before a result is returned: any class (the guard raises PyRatesException or a subclass of it)
        # and any wording; that the vector field was not called before is what the deductive contract adds (ghost `effects` == 0) and is
        # recorded here, not required
        outcome = None
    if outcome:
        return dict(status="violated", fails=[dict(clause="unsupported solver must raise before a result is returned", observed=outcome, expected="an exception")])
    return dict(status="ok")


def guard_fallback(chk):
    cache = {}

    def run():
        if "r" in cache:
            return cache["r"]
        from rtc import runner
        table = [("pyrates/backend/base/base_backend.py", "BaseBackend"), ("pyrates/backend/torch/torch_backend.py", "TorchBackend"),
                 ("pyrates/backend/jax/jax_backend.py", "JaxBackend"), ("pyrates/backend/fortran/fortran_backend.py", "FortranBackend")]
        names = ["euler", "heun", "scipy", "diffrax", "rk45", "RK45", "julia_dde", "", "Euler", "bogus"]
        cs = [dict(rel=rel, cls=cls, solver=s, delayed=d) for rel, cls in table for s in names for d in (False, True)]
        res = runner.run_cases(guard_case, cs, timeout=60)
        fails, n, distinct = [], 0, set()
        for c, r in zip(cs, res):
            if r.get("status") == "skipped":
                continue
            n += 1
            distinct.add((c["cls"], c["solver"], c["delayed"]))
            if r.get("status") == "timeout":
                r = dict(status="violated", fails=[dict(clause="unsupported solver must raise before any call",
                                                        observed="no exception within 60 s (the call went on to integrate)", expected="an exception")])
            if r.get("status") == "crash":
                chk.errors.append(f"guard case {c}: {r.get('error')}")
                continue
            if r.get("status") == "violated":
                f = r["fails"][0]
                fails.append(dict(site=f"C20/{c['cls']}._solve", clauses=[f["clause"] + ": " + str(f["observed"])],
                                  input=dict(backend=c["cls"], solver=c["solver"], delayed=c["delayed"]), features=dict(backend=c["cls"], solver=c["solver"])))
        chk.add_bounded("native-solver-guards", n, len(distinct),
                        "every backend class x solver names outside its SUPPORTED_SOLVERS x (ODE | delayed args): _solve on a "
                        "bare instance with a counting vector field must raise an exception instead of returning a result (each case in its own "
                        "process, 60 s limit)", [dict(backend="JaxBackend", solver="rk45", delayed=True)])
        cache["r"] = fails
        return fails
    return run


def vname_native(chk):
    """check_vname's contract evaluated natively on the real function: every reserved name, every reserved part as prefix / infix /
    suffix of a name (also the spellings PyRates generates itself), and ordinary names that must be accepted."""
    fn, _ = native.real_function(K.CHECK_VNAME["target"])
    names = list(K.RESERVED_NAMES)
    for part in K.RESERVED_PARTS:
        names += [part, "x" + part, part + "x", "x" + part + "_out0", "r" + part + "ed", "a" + part + "0", part[1:] + part]
    names += ["x", "r", "tau", "t", "weight", "r_in", "x_v1", "u_input", "k0", "eta", "Delta", "v_th", "pie", "api", "Ex", "In", "sine", "expo", "yy",
              "buffer", "idx", "hist", "delays", "x_buf", "my_index", "E_l", "I_ext", "s_in", "theta"]
    fails, n = [], 0
    for v in names:
        for vtype in ("constant", "state_var"):
            n += 1
            status, fl = native.check_call(K.CHECK_VNAME, {}, dict(v=v, vtype=vtype), fn=fn)
            if status == "violated":
                fails.append(dict(site="C20/check_vname", clauses=fl[:2], input=dict(v=v, vtype=vtype), features=dict(name=v),
                                  rerun=dict(kind="contract", module="contracts.c20", contract="check_vname", model=dict(v=v, vtype=vtype))))
    chk.add_bounded("native-check_vname", n, len(names),
                    "check_vname on every reserved name, every reserved name part as prefix / infix / suffix (incl. generated spellings such "
                    "as r_buffered, x_hist0, source_idx_out0) and 29 ordinary names, two variable types: raises exactly on the reserved ones and "
                    "returns the variable type otherwise; distinct = names", [dict(v="r_buffered", vtype="constant")])
    return fails


def main():
    chk = Check("C20", "other")
    fb = guard_fallback(chk)
    chk.run_contracts("contracts.c20", fallback={"*": fb})
    for f in fb():
        chk.report_failure(f)
    for f in vname_native(chk):
        chk.report_failure(f)
    try:
        from checks import c20_matrix
        c20_matrix.run(chk)
    except ImportError:
        chk.notes.append("API-level guard matrix not available in this build")
    rc = chk.finish(
        explanation="Tier A (deductive): _validate_solver (verified against the SUPPORTED_SOLVERS of every backend class), "
                    "_solve of Base/JAX/Fortran, _validate_backend_args and check_vname (reserved names and name parts: the literal list and the loop "
                    "over the literal parts are executed exhaustively) raise exactly when the trigger holds and before any "
                    "call that could produce a result (ghost counter `effects` == 0 on the exceptional exit); Base._solve "
                    "dispatches each supported name to its own implementation. Tier B (bounded): guard matrix on real objects.",
        assumptions=["string equality / tuple membership as in Python", "callees without contract are opaque and only counted"])
    sys.exit(rc)


if __name__ == "__main__":
    main()
