"""C20 check: guard contracts (deductive) + bounded native guard matrix."""
import os
import sys

HERE = os.path.dirname(os.path.dirname(os.path.abspath(__file__)))
sys.path.insert(0, HERE)

from vlib.harness import Check          # noqa: E402
from pyvc import native                 # noqa: E402
from contracts import c20 as K          # noqa: E402


def guard_fallback(chk):
    cache = {}

    def run():
        if "r" in cache:
            return cache["r"]
        import importlib
        import numpy as np
        fails, n, distinct = [], 0, set()
        exc_mod = native.repo_import("pyrates/__init__.py") if False else None
        table = [("pyrates/backend/base/base_backend.py", "BaseBackend"),
                 ("pyrates/backend/torch/torch_backend.py", "TorchBackend"),
                 ("pyrates/backend/jax/jax_backend.py", "JaxBackend"),
                 ("pyrates/backend/fortran/fortran_backend.py", "FortranBackend")]
        names = ["euler", "heun", "scipy", "diffrax", "rk45", "RK45", "julia_dde", "", "Euler", "bogus"]
        for rel, cls in table:
            try:
                mod = native.repo_import(rel)
            except Exception as exn:          # backend dependency missing: nothing to check for it
                chk.notes.append(f"{cls}: not importable here ({type(exn).__name__})")
                continue
            C = getattr(mod, cls)
            for s in names:
                if s in C.SUPPORTED_SOLVERS:
                    continue
                for delayed in (False, True):
                    be = object.__new__(C)
                    called = []

                    def func(*a, **k):
                        called.append(1)
                        return np.zeros(1)
                    from pyrates.backend.base.base_backend import DDEHistory
                    args = (DDEHistory(np.zeros(1)),) if delayed else (np.zeros(1),)
                    n += 1
                    distinct.add((cls, s, delayed))
                    try:
                        be._solve(solver=s, func=func, args=args, T=0.5, dt=0.1, dts=0.1, y0=np.zeros(1), t0=0,
                                  times=np.arange(5) * 0.1)
                        outcome = "returned a result"
                    except Exception as exn:
                        outcome = None if type(exn).__name__ == "PyRatesException" and not called else \
                            f"raised {type(exn).__name__} after {len(called)} vector-field call(s)"
                        if type(exn).__name__ != "PyRatesException" and not called:
                            outcome = None if "support" in str(exn).lower() else f"raised {type(exn).__name__}: {exn}"
                    if outcome:
                        fails.append(dict(site=f"C20/{cls}._solve", clauses=[f"unsupported solver must raise before any call: {outcome}"],
                                          input=dict(backend=cls, solver=s, delayed=delayed), features=dict(backend=cls, solver=s)))
        chk.add_bounded("native-solver-guards", n, len(distinct),
                        "every backend class x solver names outside its SUPPORTED_SOLVERS x (ODE | delayed args): _solve on a "
                        "bare instance with a counting vector field must raise PyRatesException with zero calls", [dict(backend="JaxBackend", solver="rk45", delayed=True)])
        cache["r"] = fails
        return fails
    return run


def main():
    chk = Check("C20", "other")
    fb = guard_fallback(chk)
    chk.run_contracts("contracts.c20", fallback={"*": fb})
    for f in fb():
        chk.report_failure(f)
    try:
        from checks import c20_matrix
        c20_matrix.run(chk)
    except ImportError:
        chk.notes.append("API-level guard matrix not available in this build")
    rc = chk.finish(
        explanation="Tier A (deductive): _validate_solver (verified against the SUPPORTED_SOLVERS of every backend class), "
                    "_solve of Base/JAX/Fortran and _validate_backend_args raise exactly when the trigger holds and before any "
                    "call that could produce a result (ghost counter `effects` == 0 on the exceptional exit); Base._solve "
                    "dispatches each supported name to its own implementation. Tier B (bounded): guard matrix on real objects.",
        assumptions=["string equality / tuple membership as in Python", "callees without contract are opaque and only counted"])
    sys.exit(rc)


if __name__ == "__main__":
    main()
