"""C01 check: get_run_func(M) against the reference semantics spec_rhs(M) on structured and seeded model families."""
import os
import sys

import numpy as np

HERE = os.path.dirname(os.path.dirname(os.path.abspath(__file__)))
sys.path.insert(0, HERE)

from vlib.harness import Check          # noqa: E402
from rtc import gen, oracle, driver     # noqa: E402


def case_fn(case):
    if case.get("kind") == "stale_edge_operator":
        return stale_edge_operator_case(case)
    if case.get("kind") == "yaml_between":
        from checks import c07 as _c07
        return _c07.yaml_between_compiles_case(case)
    if case.get("kind") == "derived_edge":
        from checks import c07 as _c07
        return _c07.derived_edge_case(case)
    if case.get("kind") == "overrides":
        from rtc import cases as _cases
        return _cases.case_fn(case)
    rng = np.random.default_rng(case["seed"])
    try:
        comp = oracle.compile_model(case["model"], vectorize=case["vec"], style=case.get("style", 0))
    except Exception as exn:
        return dict(status="violated", fails=[dict(clause="get_run_func returns a function for a well-formed model",
                                                   observed=f"{type(exn).__name__}: {exn}")])
    fails = oracle.check_vector_field(case["model"], comp, rng, n_states=3, n_param_draws=1, vectorized=case["vec"])
    return dict(status="violated" if fails else "ok", fails=fails[:2])


def stale_edge_operator_case(case):
    """Two models in one process whose EDGE operators share a name but not the equation; the first is compiled with clear=True
    (the reset the API offers), then the second: it computes its own equations."""
    import json
    from rtc import mdl
    m1 = case["model"]
    m2 = json.loads(json.dumps(m1))
    eop = m2["edge_ops"]["eop"] if isinstance(m2.get("edge_ops"), dict) else None
    for name, op in (m2["edge_ops"].items() if isinstance(m2.get("edge_ops"), dict) else []):
        # s_out = gain * tanh(pre)   ->   s_out = gain * pre / (1 + pre*pre),  gain 1.7 -> 3.0
        op["eqs"] = [["s_out", "alg", ["/", ["*", ["var", "gain"], ["var", "pre"]], ["+", ["num", 1.0], ["*", ["var", "pre"], ["var", "pre"]]]]]]
        op["vars"]["gain"] = ["const", 3.0]
    rng = np.random.default_rng(case["seed"])
    fails = []
    try:
        comp1 = oracle.compile_model(m1, vectorize=case["vec"], clear=True)
        comp2 = oracle.compile_model(m2, vectorize=case["vec"], clear=True)
    except Exception as exn:
        return dict(status="violated", fails=[dict(clause="two models with an equally named edge operator compile one after the other", observed=f"{type(exn).__name__}: {exn}")])
    for f in oracle.check_vector_field(m2, comp2, rng, n_states=2, n_param_draws=0, vectorized=case["vec"]):
        f["clause"] = "second model after get_run_func(clear=True) of a model with an equally named edge operator: " + f["clause"]
        fails.append(f)
    return dict(status="violated" if fails else "ok", fails=fails[:2])


def families(tier, seed):
    fam = gen.c01_structured() + [x for x in gen.c04_extra() if x[0].startswith(("V10", "V11", "V12", "V5", "V6"))] + gen.c01_random(seed, 24 if tier == "quick" else 1500)
    cases = []
    for tag, feats, model in fam:
        for vec in (False, True):
            cases.append(dict(tag=tag, features=feats, model=model, vec=vec, seed=seed + 1, style=0))
    # "the returned argument values are the declared (or OVERRIDDEN) values": a few override scenarios (C07 has the full set)
    for tag, feats, model, ops in gen.c07_cases():
        if tag.split("-")[0] in ("U1", "U3", "U4", "U8", "U9", "U22"):
            for vec in (False, True):
                cases.append(dict(tag=tag, features=feats, kind="overrides", model=model, ops=ops, vec=vec, seed=seed))
    m_e = {t: mm for t, f, mm, o in gen.c07_cases()}["U1-single-node-const"]
    for which in ("base", "variant"):
        cases.append(dict(tag=f"U27-edge-override-on-derived-circuit/{which}", features=dict(derived=True, which=which), kind="derived_edge", model=m_e,
                          which=which, vec=False, seed=seed))
    v5 = {t: mm for t, f, mm in gen.c04_extra()}["V5-edge-template-three-groups"]
    for vec in (False, True):
        cases.append(dict(tag="F11-equally-named-edge-operator-after-clear", features=dict(edge_template=True, sequence2=True), kind="stale_edge_operator",
                          model=v5, vec=vec, seed=seed))
        cases.append(dict(tag="U29-to_yaml-between-two-compilations", features=dict(yaml_between=True), kind="yaml_between", vec=vec))
    if tier == "thorough":
        for tag, feats, model in gen.c01_structured():
            cases.append(dict(tag=tag + "/style1", features=dict(feats, style=1), model=model, vec=False, seed=seed + 2, style=1))
    return cases


def main():
    chk = Check("C01", "other")
    # deductive part: the state-layout loop of ComputeGraph.to_func (bounded stand-in if undecided: the layout clause below)
    chk.run_contracts("contracts.c01", names=["ComputeGraph.to_func@state-layout"], fallback={"*": lambda: []})
    # "the returned argument values are the declared (or overridden) values of the variables they are named after": the functions that
    # carry declared values and overrides into the compilation neither write into shared templates nor let one call's values reach a cache
    chk.run_frames()
    cases = families(chk.tier, chk.seed)
    results = driver.run_family(
        chk, "get_run_func-vs-spec_rhs", cases, case_fn, site="C01/get_run_func",
        rule="structured families (operator chains in every declaration order, 1-3 parallel edges, two input variables "
             "with one multiply driven in both declaration orders, op+edge fan-in, two variables of one node into one "
             "target, generated-looking names, fan-in/fan-out, hierarchy depth 1-2) + seeded random circuits (2-5 nodes, "
             "0-7 edges incl. repeats/self-connections), each with vectorize off and on; per case 3 random states x 2 "
             "parameter draws, clauses: distinct layout, declared initial/parameter values, derivative == spec_rhs "
             "(rtol 1e-8); distinct = distinct (model, vectorize) with >= 1 edge or >= 2 operators",
        nontrivial=lambda c: "model" not in c or bool(c["model"].get("edges")) or any(len(n["ops"]) > 1 for n in c["model"].get("nodes", {}).values()),
        sample_of=lambda c: dict(tag=c["tag"], vec=c["vec"], model=c.get("model")))
    driver.run_sequences(chk, "get_run_func-vs-spec_rhs-in-sequence", cases, results, case_fn, site="C01/get_run_func",
                         limit=30 if chk.tier == "quick" else 200, seed=chk.seed)
    rc = chk.finish(
        explanation="Deductive (small core): the state-layout loop of ComputeGraph.to_func gives the k-th state variable the range "
                    "[start_k, start_k + npos_k) with start_0 = 0, start_{k+1} = stop_k, pairwise disjoint, for ANY number of variables and "
                    "any sizes. Everything else is a bounded run-time contract check (NOT a proof): the postcondition of CircuitTemplate.get_run_func is "
                    "stated against the pure spec function spec_rhs (reference semantics read off the property; expression "
                    "trees evaluated directly, never parsed) and evaluated on every model of the families above. Deduction "
                    "over the sympy/networkx/exec pipeline is out of reach of any verifier installed here.",
        assumptions=["the MDL -> PyRates rendering and spec_rhs are harness code (trusted)", "float64, element-wise tolerance 1e-8",
                     "single cases run in a fresh forked child each; the in-sequence family runs groups of three in one process with pyrates.clear(model) between them"])
    sys.exit(rc)


if __name__ == "__main__":
    main()
