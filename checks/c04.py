"""C04 check: vectorize=True and vectorize=False yield the same dynamics — compared with EACH OTHER (bounded)."""
import os
import sys

import numpy as np

HERE = os.path.dirname(os.path.dirname(os.path.abspath(__file__)))
sys.path.insert(0, HERE)

from vlib.harness import Check            # noqa: E402
from rtc import gen, runner, cases, oracle, mdl   # noqa: E402


def observe(c):
    """Runs in a forked child: derivative of every frontend state variable at fixed states + Euler trajectory."""
    model = c["model"]
    svars = mdl.state_vars(model)
    rng = np.random.default_rng(c["seed"])
    states = [{v: float(np.round(rng.uniform(-1, 1), 3)) for v in svars} for _ in range(3)]
    out = dict(status="ok", field=None, traj=None, error=None)
    try:
        comp = oracle.compile_model(model, vectorize=c["vec"])
        pos = oracle.positions(comp, model)
        n = len(np.asarray(comp["args"][1]).reshape(-1))
        fld = []
        for st in states:
            y = np.zeros(n)
            for v in svars:
                y[pos[v]] = st[v]
            dy = oracle.eval_field(comp, y)
            fld.append({v: float(dy[pos[v]]) for v in svars})
        out["field"] = fld
    except Exception as exn:
        out["error"] = f"get_run_func: {type(exn).__name__}: {exn}"
        return out
    return out


def observe_run(c):
    model = c["model"]
    out = dict(status="ok", traj=None, error=None)
    try:
        kw = dict(method="RK45", rtol=1e-10, atol=1e-12) if c.get("solver") == "scipy" else {}
        df, outputs, _ = oracle.run_model(model, c["T"], c["dt"], None, c.get("solver", "euler"), c["vec"], **kw)
        out["traj"] = {p: np.asarray(df[k], dtype=float).reshape(len(df.index), -1)[:, 0].tolist() for k, p in outputs.items()}
    except Exception as exn:
        out["error"] = f"run: {type(exn).__name__}: {exn}"
    return out


def observe_same_instance(c):
    """ONE template instance run with vectorize=True and then with vectorize=False (or the other way round): the second run must
    equal the run of a fresh instance with that setting."""
    model = c["model"]
    out = dict(status="ok", traj=None, fresh=None, error=None)
    try:
        tpl = mdl.build_templates(model)
        first, second = c["order"]
        oracle.run_model(model, c["T"], c["dt"], None, "euler", first, tpl=tpl, clear=True)
        df, outputs, _ = oracle.run_model(model, c["T"], c["dt"], None, "euler", second, tpl=tpl, clear=True)
        out["traj"] = {p: np.asarray(df[k], dtype=float).reshape(len(df.index), -1)[:, 0].tolist() for k, p in outputs.items()}
        df2, outputs2, _ = oracle.run_model(model, c["T"], c["dt"], None, "euler", second, clear=True)
        out["fresh"] = {p: np.asarray(df2[k], dtype=float).reshape(len(df2.index), -1)[:, 0].tolist() for k, p in outputs2.items()}
    except Exception as exn:
        out["error"] = f"run: {type(exn).__name__}: {exn}"
    return out


def dispatch(c):
    if c["kind"] == "same_instance":
        return observe_same_instance(c)
    return observe(c) if c["kind"] == "field" else observe_run(c)


def families(tier, seed):
    fam = [x for x in gen.c01_structured() if x[0].startswith(("F1", "F2", "F3", "F4", "F6", "F7", "F8", "F9"))] + gen.c04_extra() + \
        gen.c01_random(seed + 100, 16 if tier == "quick" else 1000)
    out = []
    for tag, feats, model in fam:
        out.append(dict(tag=tag, features=feats, kind="field", model=model, seed=seed + 3))
        out.append(dict(tag=tag + "/run", features=feats, kind="run", model=model, T=0.5, dt=0.05))
    for tag, feats, model in gen.delay_families("discrete") + gen.delay_families("gamma"):
        dt = 0.05 if not any(e.get("s") for e in model["edges"]) else 0.01
        out.append(dict(tag=tag + ("/gamma" if dt == 0.01 else "/discrete") + "/run", features=feats, kind="run", model=model, T=0.5, dt=dt))
    # the adaptive solver on circuits that mix delayed and undelayed plain edges: D2 / D5 and a circuit in which ONE node of a type sends
    # delayed edges while the other nodes of that type send undelayed ones only
    dd = {t: (f, m) for t, f, m in gen.delay_families("discrete")}
    pop = gen.op_li("op", x="r", ins=("r_in",), tau=2.0, x0=0.4, in_defaults={"r_in": 0.0})
    nodes3 = {f"p{i}": dict(ops=["op"], over={"op/tau": 1.0 + 0.5 * i, "op/r": 0.2 + 0.2 * i}) for i in range(3)}
    mix = gen.model([pop], nodes3, [gen.edge("p0/op/r", "p1/op/r_in", 1.5, 0.3), gen.edge("p0/op/r", "p2/op/r_in", -0.7, 0.5),
                                    gen.edge("p1/op/r", "p2/op/r_in", 0.9), gen.edge("p2/op/r", "p0/op/r_in", 0.6), gen.edge("p1/op/r", "p0/op/r_in", -0.4)])
    for tag, model in [(t, dd[t][1]) for t in dd if t.split("-")[0] in ("D2", "D5")] + [("D11-one-node-delayed-others-undelayed", mix)]:
        out.append(dict(tag=tag + "/discrete/run-scipy", features=dict(solver="scipy", adaptive_mixed=True), kind="run", model=model, T=1.0, dt=0.05,
                        solver="scipy", tol=1e-5))
    return out


def main():
    chk = Check("C04", "other")
    # deductive core shared with C06: a vectorised edge variable is used un-indexed exactly for the identity selection
    from checks import c06 as _c06
    cache = {}

    def fb():
        if "r" not in cache:
            cache["r"] = [dict(f, site="C04/_get_indexed_var_str") for f in _c06.indexed_var_native(chk)]
        return cache["r"]
    chk.run_contracts("contracts.c06", fallback={"*": fb})
    for f in fb():
        chk.report_failure(f)
    fam = families(chk.tier, chk.seed)
    jobs = [dict(c, vec=v) for c in fam for v in (False, True)]
    res = runner.run_cases(dispatch, jobs)
    n_eval, distinct = 0, set()
    for i, c in enumerate(fam):
        a, b = res[2 * i], res[2 * i + 1]
        if a.get("status") in ("crash", "timeout") or b.get("status") in ("crash", "timeout"):
            chk.errors.append(f"harness {a.get('status')}/{b.get('status')} on {c['tag']}: {a.get('error')} {b.get('error')}")
            continue
        n_eval += 1
        distinct.add(c["tag"])
        feats = dict(c["features"], tag=c["tag"], base=c["tag"].split("/")[0], kind=c["kind"])
        rec = None
        if a.get("error") or b.get("error"):
            if bool(a.get("error")) != bool(b.get("error")):
                rec = dict(clause="both settings of vectorize compile and run", observed=dict(scalar=a.get("error"), vectorized=b.get("error")))
            # both fail: not a difference between the two settings (reported under C01/C20 if it is a defect)
        elif c["kind"] == "field":
            for k, (fa, fb) in enumerate(zip(a["field"], b["field"])):
                for v in fa:
                    if not oracle.close(fa[v], fb[v], 1e-8, 1e-10):
                        rec = dict(clause="derivative of every frontend variable identical", var=v, observed=dict(scalar=fa[v], vectorized=fb[v]))
                        break
                if rec:
                    break
        else:
            for v in a["traj"]:
                x, y = np.asarray(a["traj"][v]), np.asarray(b["traj"][v])
                tol_ = c.get("tol", 1e-7)        # adaptive runs: both settings integrate with tight tolerances, compared at 1e-5
                if x.shape != y.shape or not np.allclose(x, y, rtol=tol_, atol=tol_ * 1e-3):
                    bad = int(np.argmax(np.abs(x - y))) if x.shape == y.shape else -1
                    rec = dict(clause="trajectory of every frontend variable identical", var=v, row=bad,
                               observed=dict(scalar=float(x[bad]) if bad >= 0 else list(x.shape), vectorized=float(y[bad]) if bad >= 0 else list(y.shape)))
                    break
        if rec:
            chk.report_failure(dict(site="C04/vectorize", clauses=[rec["clause"]], features=feats,
                                    input=dict(case={k: v for k, v in c.items() if k != "features"}), **rec))
    # the two settings on ONE template instance, one after the other
    seq_jobs = []
    for tag, feats, model in [x for x in gen.c01_structured() if x[0] in ("F1-chain-123", "F8-ring2-6", "F6-fanin-two-inputs", "F9-twin-operators-2")]:
        for order in ((True, False), (False, True)):
            seq_jobs.append(dict(tag=f"{tag}/same-instance/{'vec-then-scalar' if order[0] else 'scalar-then-vec'}", features=dict(feats, same_instance=True),
                                 kind="same_instance", model=model, order=order, T=0.5, dt=0.05))
    for c, r in zip(seq_jobs, runner.run_cases(dispatch, seq_jobs)):
        if r.get("status") in ("crash", "timeout"):
            chk.errors.append(f"harness {r.get('status')} on {c['tag']}: {r.get('error')}")
            continue
        n_eval += 1
        distinct.add(c["tag"])
        rec = None
        if r.get("error"):
            rec = dict(clause="a second run of the same template instance with the other vectorize setting succeeds", observed=r["error"])
        else:
            for v in r["fresh"]:
                x, y = np.asarray(r["traj"].get(v, [])), np.asarray(r["fresh"][v])
                if x.shape != y.shape or not np.allclose(x, y, rtol=1e-7, atol=1e-10):
                    rec = dict(clause="after a run with the other vectorize setting, the same instance gives the trajectory of a fresh instance", var=v,
                               observed=dict(same_instance=float(x[-1]) if x.size else None, fresh=float(y[-1])))
                    break
        if rec:
            chk.report_failure(dict(site="C04/vectorize", clauses=[rec["clause"]], features=dict(c["features"], tag=c["tag"], base=c["tag"].split("/")[0], kind=c["kind"]),
                                    input=dict(case={k: v for k, v in c.items() if k not in ("features", "model")}), **rec))
    chk.add_bounded("vectorize-on-vs-off", n_eval, len(distinct),
                    "each model compiled/simulated in two fresh processes with vectorize=False and vectorize=True, results "
                    "compared with each other frontend variable by frontend variable (derivatives at 3 random states, rtol 1e-8; "
                    "Euler trajectories, rtol 1e-7): operator chains, parallel edges, multi-input operators, fan-in/fan-out, "
                    "hierarchy, populations of 4-12 nodes with dense/sparse/permuted patterns, tiny and unit weights, two node "
                    "types with cross fan-in and self-connections, discrete delays and gamma kernels, seeded random circuits; four models also "
                    "with both settings one after the other on ONE template instance (both orders) against a fresh instance; "
                    "distinct = distinct model tags", [{k: v for k, v in c.items() if k != "features"} for c in fam[:2]])
    rc = chk.finish(
        explanation="Bounded: vectorised and non-vectorised compilations are compared with each other (not with the spec), so "
                    "defects shared by both settings do not count here.",
        assumptions=["positions of merged variables through get_variable_positions as run() uses it"])
    sys.exit(rc)


if __name__ == "__main__":
    main()
