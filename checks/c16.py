"""C16 check: Population/Connectivity circuits equal the explicit node-and-edge network, unit by unit (bounded)."""
import os
import sys

HERE = os.path.dirname(os.path.dirname(os.path.abspath(__file__)))
sys.path.insert(0, HERE)

from vlib.harness import Check            # noqa: E402
from rtc import gen, driver, cases        # noqa: E402


def families(tier, seed):
    out = []
    seeds = [seed] if tier == "quick" else [seed + i for i in range(10)]
    for sd in seeds:
        for tag, feats, ps in gen.c16_cases(sd):
            dt = feats.get("dt", 0.05)
            out.append(dict(tag=f"{tag}/s{sd}", features=feats, kind="population", ps=ps, T=10 * dt if dt >= 0.05 else 0.5, dt=dt,
                            explicit_route=tag.split("-")[0] in ("P1", "P2", "P3", "P6")))
            # the same meaning under an adaptive solver (plain matrices, scalar weights, coupling edges, gamma-kernel delays)
            if sd == seeds[0] and tag.split("-")[0] in ("P2", "P3", "P6", "P7", "P9"):
                out.append(dict(tag=f"{tag}/s{sd}/scipy", features=dict(feats, solver="scipy"), kind="population", ps=ps, T=0.5, dt=0.01, solver="scipy"))
    return out


def connectivity_fallback(chk):
    """Bounded native companion of the Connectivity constructor contract: the real class on a grid of (delays, spread)."""
    cache = {}

    def run():
        if "r" in cache:
            return cache["r"]
        import numpy as np
        from pyvc import native
        fails, n = [], 0
        _, mod = native.real_function("pyrates/frontend/template/population.py::Connectivity")
        for d in (None, 0.0, 0.25, 0.3, 1.0, 2):
            for s_ in (None, 0.0, 0.1, 0.25, 0.3, 0.5, 1.0, 3.0):
                n += 1
                try:
                    c_ = mod.Connectivity(source="a/op/r", target="b/op/u", weights=np.ones((2, 3)), delays=d, spread=s_)
                    got = (c_.source, c_.target, c_.delays, c_.spread, np.asarray(c_.weights).shape)
                except Exception as exn:
                    got = f"{type(exn).__name__}: {exn}"
                want = ("a/op/r", "b/op/u", d, s_, (2, 3))
                if got != want:
                    fails.append(dict(site="C16/Connectivity.__init__", clauses=["a Connectivity stores its source, target, delays and spread exactly as given"],
                                      input=dict(delays=d, spread=s_), observed=str(got), expected=str(want), features=dict(delays=d, spread=s_)))
        chk.add_bounded("native-connectivity-constructor", n, n, "Connectivity(...) on a grid of (delays, spread) incl. None, zero, spread == delays and "
                        "spread > delays: the stored attributes equal the arguments; distinct = grid points", [dict(delays=0.25, spread=0.25)])
        cache["r"] = fails
        return fails
    return run


def main():
    chk = Check("C16", "other")
    # deductive (small core): what a Connectivity carries into the compilation, and the kernel arithmetic applied to it (shared with C11)
    fb = connectivity_fallback(chk)
    chk.run_contracts("contracts.c16", fallback={"*": fb})
    for f in fb():
        chk.report_failure(f)
    chk.run_contracts("contracts.c11", names=["NetworkGraph._add_matrix_delay@kernel-order"], fallback={"*": lambda: []})
    _cases = families(chk.tier, chk.seed)
    _results = driver.run_family(
        chk, "population-vs-explicit-network", _cases, cases.case_fn, site="C16/population",
        rule="populations of n = 1,2,3,5 units with heterogeneous per-unit parameters AND initial states; signed, sparse, "
             "non-symmetric, non-square weight matrices between one or two populations; scalar weights (w * sum_j source_j); a "
             "one-unit hub with params; Connectivity delays (discrete, incl. 0.3/0.1) and gamma kernels ((d,s) with round-up and "
             "inexact ratios), coupling-edge templates; the adaptive solver on a subset (matrices, scalar weights, gamma kernels, coupling "
             "edges) against a fine-grid reference; for plain matrices, scalar weights and gamma kernels also the explicit network built through PyRates (scalar edges, vectorize off); each unit's Euler trajectory against the spec of the explicit network with one node per unit and "
             "one scalar edge per non-zero matrix entry; distinct = (scenario, seed)",
        sample_of=lambda c: {k: v for k, v in c.items() if k != "features"})
    driver.run_sequences(chk, "population-vs-explicit-network-in-sequence", _cases, _results, cases.case_fn, site="C16/population",
                         limit=20 if chk.tier == "quick" else 120, seed=chk.seed)
    rc = chk.finish(
        explanation="Bounded: unit-by-unit comparison of run() of the population circuit with the reference semantics of the "
                    "explicit network (so transposition of W, unit permutations and swapped broadcasting are visible).",
        assumptions=["population_to_explicit + spec_fixed_step (harness)"])
    sys.exit(rc)


if __name__ == "__main__":
    main()
