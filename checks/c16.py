"""C16 check: Population/Connectivity circuits equal the explicit node-and-edge network, unit by unit (bounded)."""
import os
import sys

HERE = os.path.dirname(os.path.dirname(os.path.abspath(__file__)))
sys.path.insert(0, HERE)

from vlib.harness import Check            # noqa: E402
from rtc import gen, driver, cases        # noqa: E402


def families(tier, seed):
    out = []
    seeds = [seed] if tier == "quick" else [seed + i for i in range(10)]
    for sd in seeds:
        for tag, feats, ps in gen.c16_cases(sd):
            dt = feats.get("dt", 0.05)
            out.append(dict(tag=f"{tag}/s{sd}", features=feats, kind="population", ps=ps, T=10 * dt if dt >= 0.05 else 0.5, dt=dt,
                            explicit_route=tag.split("-")[0] in ("P1", "P2", "P3", "P6")))
            # the same meaning under an adaptive solver (plain matrices, scalar weights, coupling edges, gamma-kernel delays)
            if sd == seeds[0] and tag.split("-")[0] in ("P2", "P3", "P6", "P7", "P9"):
                out.append(dict(tag=f"{tag}/s{sd}/scipy", features=dict(feats, solver="scipy"), kind="population", ps=ps, T=0.5, dt=0.01, solver="scipy"))
    c16 = {t: ps_ for t, f, ps_ in gen.c16_cases(seeds[0])}
    adaptive = dict(solver="scipy", method="RK45", rtol=1e-10, atol=1e-12)
    for ptag in ("P1-single-pop-n3-signed-sparse", "P2-two-pops-nonsquare-signed"):
        for T_, dts_ in ((1.0, 0.3), (0.7, 0.2)):          # simulation_time / sampling_step_size is not an integer: outputs are resampled
            out.append(dict(tag=f"{ptag}/resampled-{T_}-{dts_}", features=dict(resampled=True), kind="differential", ps=c16[ptag], tol=1e-5,
                            run_kw=dict(simulation_time=T_, step_size=0.01, sampling_step_size=dts_, **adaptive)))
    for ptag in ("P7-coupling-edge-pre-and-post", "P7e-coupling-edge-uniform-matrix", "P2-two-pops-nonsquare-signed", "P3-scalar-weights-global-coupling"):
        if ptag not in c16:
            continue
        for b in ("jax", "torch"):
            if b == "torch" and ptag.startswith("P7"):
                continue      # coupling-edge templates do not compile on the Torch backend at all (TypeError: expected Tensor ..., loud; a backend matter)
            out.append(dict(tag=f"{ptag}/{b}", features=dict(backend=b), kind="differential", ps=c16[ptag], tol=1e-6,
                            run_kw=dict(simulation_time=0.5, step_size=0.05, solver="euler", backend=b)))
    return out


def differential_case(c):
    """The population circuit and the explicit node-and-edge network, BOTH run through PyRates with the same settings, unit by unit:
    resampled outputs of an adaptive run (simulation_time / sampling_step_size not an integer), and the JAX / Torch backends."""
    import numpy as np
    from rtc import oracle
    ps = c["ps"]
    explicit = oracle.population_to_explicit(ps)
    kw = dict(c["run_kw"])
    outs = {}
    for pname, p in ps["pops"].items():
        for o in p["ops"]:
            for l, k, _ in ps["ops"][o]["eqs"]:
                if k == "de":
                    outs[f"{pname}.{o}.{l}"] = f"{pname}/{o}/{l}"
    try:
        tpl = oracle.build_population_circuit(ps)
        df = tpl.run(outputs=dict(outs), verbose=False, clear=True, in_place=False, float_precision="float64", **kw)
        oracle.clear_all_caches()
        df2, outs2, _ = oracle.run_model(explicit, kw["simulation_time"], kw["step_size"], kw.get("sampling_step_size"), kw["solver"], False,
                                         backend=kw.get("backend", "default"), clear=True,
                                         **{k: v for k, v in kw.items() if k in ("method", "rtol", "atol")})
    except NotImplementedError as exn:
        return dict(status="ok", fails=[], detail=dict(refused=str(exn)[:80]))
    except Exception as exn:
        return dict(status="violated", fails=[dict(clause="population circuit and explicit network both run with these settings", observed=f"{type(exn).__name__}: {exn}")])
    inv = {v: k for k, v in outs2.items()}
    fails = []
    cols = list(df.columns)
    for key, path in outs.items():
        pname, o, v = path.split("/")
        n = ps["pops"][pname]["n"]
        for i in range(n):
            lab = [cc for cc in cols if (isinstance(cc, tuple) and cc[0] == key and cc[1] == i) or (n == 1 and cc == key)]
            if len(lab) != 1:
                return dict(status="violated", fails=[dict(clause="population output: one column per unit", var=f"{path}[{i}]", observed=[str(x) for x in cols][:8])])
            got = np.asarray(df[lab[0]], dtype=float).ravel()
            want = np.asarray(df2[inv[f"{pname}_{i}/{o}/{v}"]], dtype=float).reshape(len(df2.index), -1)[:, 0]
            if got.shape != want.shape or not np.allclose(got, want, rtol=c.get("tol", 1e-6), atol=c.get("tol", 1e-6) * 1e-2):
                bad = int(np.argmax(np.abs(got - want))) if got.shape == want.shape else -1
                fails.append(dict(clause="population unit equals the explicit network's node (both run through PyRates with the same settings)",
                                  var=f"{pname}_{i}/{o}/{v}", row=bad, observed=float(got[bad]) if bad >= 0 else list(got.shape),
                                  expected=float(want[bad]) if bad >= 0 else list(want.shape)))
                return dict(status="violated", fails=fails)
    return dict(status="ok", fails=[])


def case_fn(c):
    if c.get("kind") == "differential":
        return differential_case(c)
    return cases.case_fn(c)


def connectivity_fallback(chk):
    """Bounded native companion of the Connectivity constructor contract: the real class on a grid of (delays, spread)."""
    cache = {}

    def run():
        if "r" in cache:
            return cache["r"]
        import numpy as np
        from pyvc import native
        fails, n = [], 0
        _, mod = native.real_function("pyrates/frontend/template/population.py::Connectivity")
        for d in (None, 0.0, 0.25, 0.3, 1.0, 2):
            for s_ in (None, 0.0, 0.1, 0.25, 0.3, 0.5, 1.0, 3.0):
                n += 1
                try:
                    c_ = mod.Connectivity(source="a/op/r", target="b/op/u", weights=np.ones((2, 3)), delays=d, spread=s_)
                    got = (c_.source, c_.target, c_.delays, c_.spread, np.asarray(c_.weights).shape)
                except Exception as exn:
                    got = f"{type(exn).__name__}: {exn}"
                want = ("a/op/r", "b/op/u", d, s_, (2, 3))
                if got != want:
                    fails.append(dict(site="C16/Connectivity.__init__", clauses=["a Connectivity stores its source, target, delays and spread exactly as given"],
                                      input=dict(delays=d, spread=s_), observed=str(got), expected=str(want), features=dict(delays=d, spread=s_)))
        chk.add_bounded("native-connectivity-constructor", n, n, "Connectivity(...) on a grid of (delays, spread) incl. None, zero, spread == delays and "
                        "spread > delays: the stored attributes equal the arguments; distinct = grid points", [dict(delays=0.25, spread=0.25)])
        cache["r"] = fails
        return fails
    return run


def param_distribution_fallback(chk):
    """Bounded native companion of the two PopulationTemplate.apply@param-distribution contracts: the extracted statement run natively."""
    cache = {}

    def run():
        if "r" in cache:
            return cache["r"]
        import types
        from pyvc import native
        from contracts import c16 as K
        fails, n = [], 0
        cs = [c_ for c_ in K.CONTRACTS if "@param-distribution" in c_["name"]]
        for c_ in cs:
            try:
                f = native.region_function(c_)
            except LookupError:
                continue        # statement restructured: undecided for this stand-in, the population families below decide
            for units in (1, 2, 3, 5, 8):
                vals = ([[0.5 + 0.25 * k for k in range(units)], [-1.0 * k for k in range(units)]] if "per-unit" in c_["name"] else [0.75, -2.0, 0.0, 3])
                for pv in vals:
                    n += 1
                    status, fl = native.check_call(c_, K.CLASSES, dict(self=types.SimpleNamespace(n=units), pval=pv), fn=f)
                    if status == "violated":
                        fails.append(dict(site="C16/" + c_["name"], clauses=fl[:2], features=dict(n=units), input=dict(n=units, pval=pv)))
        chk.add_bounded("native-param-distribution", n, n,
                        "the extracted statement of PopulationTemplate.apply that distributes one params entry over the units, run natively for "
                        "n in {1,2,3,5,8}: per-unit lists (unit k receives entry k) and scalars (every unit receives it); distinct = (n, value)",
                        [dict(n=3, pval=[0.5, 0.75, 1.0])])
        cache["r"] = fails
        return fails
    return run


def main():
    chk = Check("C16", "other")
    # deductive (small core): what a Connectivity carries into the compilation, and the kernel arithmetic applied to it (shared with C11)
    fb = connectivity_fallback(chk)
    fbp = param_distribution_fallback(chk)
    chk.run_contracts("contracts.c16", fallback={"PopulationTemplate.apply@param-distribution[per-unit values]": fbp,
                                                 "PopulationTemplate.apply@param-distribution[scalar]": fbp, "*": fb})
    for f in fb() + fbp():
        chk.report_failure(f)
    chk.run_contracts("contracts.c11", names=["NetworkGraph._add_matrix_delay@kernel-order"], fallback={"*": lambda: []})
    _cases = families(chk.tier, chk.seed)
    _results = driver.run_family(
        chk, "population-vs-explicit-network", _cases, case_fn, site="C16/population",
        rule="populations of n = 1,2,3,5 units with heterogeneous per-unit parameters AND initial states; signed, sparse, "
             "non-symmetric, non-square weight matrices between one or two populations; scalar weights (w * sum_j source_j); a "
             "one-unit hub with params; Connectivity delays (discrete, incl. 0.3/0.1) and gamma kernels ((d,s) with round-up and "
             "inexact ratios), coupling-edge templates; the adaptive solver on a subset (matrices, scalar weights, gamma kernels, coupling "
             "edges) against a fine-grid reference; for plain matrices, scalar weights and gamma kernels also the explicit network built through PyRates (scalar edges, vectorize off); each unit's Euler trajectory against the spec of the explicit network with one node per unit and "
             "one scalar edge per non-zero matrix entry; distinct = (scenario, seed)",
        sample_of=lambda c: {k: v for k, v in c.items() if k != "features"})
    driver.run_sequences(chk, "population-vs-explicit-network-in-sequence", [c_ for c_ in _cases if c_.get("kind") != "differential"], _results, case_fn, site="C16/population",
                         limit=20 if chk.tier == "quick" else 120, seed=chk.seed)
    rc = chk.finish(
        explanation="Bounded: unit-by-unit comparison of run() of the population circuit with the reference semantics of the "
                    "explicit network (so transposition of W, unit permutations and swapped broadcasting are visible).",
        assumptions=["population_to_explicit + spec_fixed_step (harness)"])
    sys.exit(rc)


if __name__ == "__main__":
    main()
