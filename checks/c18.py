"""C18 check: slot allocator contract (deductive) + bounded native checks (allocator; emitted auto-07p text)."""
import os
import sys

HERE = os.path.dirname(os.path.dirname(os.path.abspath(__file__)))
sys.path.insert(0, HERE)

from vlib.harness import Check          # noqa: E402
from pyvc import native                 # noqa: E402
from contracts import c18 as K          # noqa: E402


def allocator_fallback(chk):
    cache = {}

    def run():
        if "r" in cache:
            return cache["r"]
        c = K.CONTRACTS[0]
        fn, mod = native.real_function(c["target"])
        be = object.__new__(mod.FortranBackend)
        blocked = mod.FortranBackend._AUTO_BLOCKED_PAR_RANGE
        fails, n = [], 0
        top = 40 if chk.tier == "quick" else 200
        for ln in range(0, top):
            cc = dict(c)
            cc["requires"] = []          # the real class constant is passed, whatever it is
            status, fl = native.check_call(cc, K.CLASSES, dict(self=be, func_args=list(range(ln)), blocked=tuple(blocked)), fn=fn)
            n += 1
            if status == "violated":
                fails.append(dict(site="C18/FortranBackend._auto_param_indices", clauses=fl[:3],
                                  input=dict(n_params=ln, blocked=list(blocked)), features=dict(n_params=ln)))
        chk.add_bounded("native-allocator", n, max(0, top - 10),
                        f"real _auto_param_indices called with 0..{top - 1} parameters and the class constant "
                        "_AUTO_BLOCKED_PAR_RANGE; postconditions evaluated natively; distinct = lengths >= 10 (crossing the reserved range)",
                        [dict(n_params=12, blocked=list(blocked))])
        cache["r"] = fails
        return fails
    return run


def main():
    chk = Check("C18", "other")
    fb = allocator_fallback(chk)
    chk.run_contracts("contracts.c18", fallback={"*": fb})
    for f in fb():
        chk.report_failure(f)
    try:
        from checks import c18_text
        c18_text.run(chk)
        # the export compiled with f2py and called (its first run on the pinned tree exposed STPNT literals in single precision: fixed in /repo)
        c18_text.run_compiled(chk)
    except ImportError:
        chk.notes.append("text-level consistency check of the emitted auto-07p files not available in this build")
    rc = chk.finish(
        explanation="Tier A (deductive): for ANY number of parameters the slot list returned by the real "
                    "_auto_param_indices (with the blocked range as written in the current class constant) is strictly "
                    "increasing (pairwise distinct), starts 1..9 in declaration order and never uses PAR(11)..PAR(14). "
                    "Tier B (bounded): the same clauses natively for 0..N parameters; text-level consistency of the emitted files.",
        assumptions=["Python ints are mathematical integers (exact)",
                     "every caller passes the class constant _AUTO_BLOCKED_PAR_RANGE (true of the only call site, "
                     "_generate_auto_files, when blocked_indices is None)"])
    sys.exit(rc)


if __name__ == "__main__":
    main()
