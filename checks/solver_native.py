"""Bounded native contract checking of the fixed-step solver loops (fall-back + cross-check of the encoding).
Shared by C03 (numpy loops), C02 (torch/jax loops), C08 and C10."""
import copy
import itertools

import numpy as np

from pyvc import native


class RefHistory:
    """Independent reference history: piecewise-linear interpolant with constant extrapolation."""

    def __init__(self, ts, ys):
        self.ts, self.ys = list(ts), [np.array(y, dtype=float) for y in ys]

    def update(self, t, y):
        self.ts.append(float(t))
        self.ys.append(np.array(y, dtype=float))

    def __call__(self, t):
        ts, ys = self.ts, self.ys
        if t <= ts[0]:
            return ys[0]
        if t >= ts[-1]:
            return ys[-1]
        j = max(i for i in range(len(ts)) if ts[i] <= t)
        a = (t - ts[j]) / (ts[j + 1] - ts[j])
        return ys[j] + a * (ys[j + 1] - ys[j])


def make_func(coef, dde, dt):
    a, b, c, tau = coef
    if dde:
        def f(t, y, hist):
            return a * y + b * hist(t * dt - tau) + c * t
    else:
        def f(t, y):
            return a * y + b + c * t
    return f


def spec_factory(kind, dde):
    """euler_iter / heun_iter as executable reference (memoised recursion)."""
    def factory(env):
        f, dt, t0 = env["func"], env["dt"], env["t0"]
        y0 = np.array(env["y"], dtype=float, copy=True)
        h = None
        if dde:
            src = env["args"][0]
            h = RefHistory(src._t[:src._n], [np.array(r, copy=True) for r in src._y[:src._n]])
        cache = [y0]

        def it(k):
            while len(cache) <= k:
                i = len(cache) - 1
                yk = cache[-1]
                extra = [h] if dde else []
                k1 = f(i + t0, yk, *extra)
                if kind == "euler":
                    yn = yk + dt * k1
                else:
                    yn = yk + dt / 2 * (k1 + f(i + t0, yk + dt * k1, *extra))
                if dde:
                    h.update((i + 1) * dt, yn)
                cache.append(yn)
            return cache[k]
        return it
    return factory


def cases(tier, seed):
    rng = np.random.default_rng(seed)
    out = []
    steps_set = range(0, 7) if tier == "quick" else range(0, 13)
    for steps, m, t0, dde in itertools.product(steps_set, (1, 2, 3), (0, 3), (False, True)):
        dt = 0.25
        coef = tuple(float(x) / 4 for x in rng.integers(-6, 7, size=3)) + (0.375,)
        y0 = (rng.integers(-8, 9, size=2) / 4.0).tolist()
        out.append(dict(steps=steps, m=m, t0=t0, dde=dde, dt=dt, dts=m * dt, T=steps * dt, coef=coef, y0=y0))
    # delayed loops on a history that already holds an initial FUNCTION (four records before the start), run long enough to outgrow the
    # 1024-row buffer: the records handed in stay what they were and the new ones follow them
    for steps, m in ((40, 2), (1100, 50)):
        out.append(dict(steps=steps, m=m, t0=0, dde=True, dt=1.0 / 256, dts=m / 256.0, T=steps / 256.0, coef=(-0.5, 0.25, 0.0, 0.375), y0=[0.5, -1.25],
                        prefill=[(-0.75, [1.0, 0.5]), (-0.5, [0.25, -0.5]), (-0.25, [-1.0, 2.0])]))
    return out


def run(contracts_by_variant, classes, tier, seed, DDEHistory, resolve_fn):
    """contracts_by_variant: {(method, 'ode'|'dde'): contract}; resolve_fn(contract) -> real function.
    Returns (failures, evaluations, distinct, samples)."""
    failures, evals, distinct = [], 0, set()
    cs = cases(tier, seed)
    for (method, variant), c in contracts_by_variant.items():
        kind = "euler" if "euler" in method else "heun"
        fn = resolve_fn(c)
        for case in cs:
            if case["dde"] != (variant == "dde"):
                continue
            f = make_func(case["coef"], case["dde"], case["dt"])
            y = np.array(case["y0"], dtype=float)
            args = ()
            if case["dde"]:
                if case.get("prefill"):
                    h_ = DDEHistory(np.array(case["prefill"][0][1], dtype=float), t0=case["prefill"][0][0])
                    for t_, y_ in case["prefill"][1:]:
                        h_.update(t_, np.array(y_, dtype=float))
                    h_.update(0.0, y.copy())
                    args = (h_,)
                else:
                    args = (DDEHistory(y.copy(), t0=0.0),)
            cc = dict(c)
            cc["native_spec_factories"] = {f"{kind}_iter": spec_factory(kind, case["dde"])}
            a = dict(func=f, args=args, T=case["T"], dt=case["dt"], dts=case["dts"], y=y, t0=case["t0"])
            status, fails = native.check_call(cc, classes, a, fn=fn)
            if status == "skipped":
                continue
            evals += 1
            if case["steps"] > case["m"]:
                distinct.add((method, variant, case["steps"], case["m"], case["t0"]))
            if status == "violated":
                failures.append(dict(site=f"{c.get('prop', 'C03')}/{c['name']}", clauses=fails[:3], input=case,
                                     features=dict(method=method, variant=variant)))
    return failures, evals, len(distinct), cs[:2]
