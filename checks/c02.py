"""C02 check: all backends compute the same function (Torch Euler loop deductively; the rest bounded against the spec)."""
import os
import sys

import numpy as np

HERE = os.path.dirname(os.path.dirname(os.path.abspath(__file__)))
sys.path.insert(0, HERE)

from vlib.harness import Check            # noqa: E402
from rtc import gen, driver, cases, oracle, mdl, runner   # noqa: E402

BACKENDS = ("default", "torch", "jax", "fortran")


def ring_case(c):
    """roll(...) on a vector-valued variable: every backend against numpy.roll."""
    from pyrates import CircuitTemplate, NodeTemplate, OperatorTemplate
    N = 16
    r0 = np.arange(N) / 8.0
    op = OperatorTemplate(name="ring", equations=[f"d/dt * r = 0.5*roll(r, {c['s1']}) - r + 0.25*roll(r, {c['s2']})"],
                          variables={"r": {"vtype": "output", "value": r0.copy(), "shape": (N,), "dtype": "float"}})
    tpl = CircuitTemplate(name="net", nodes={"p": NodeTemplate(name="node", operators=[op])})
    try:
        func, args, names, smap = tpl.get_run_func("vf", step_size=1e-2, backend=c["backend"], vectorize=False, verbose=False,
                                                   float_precision="float64", file_name="ring_mod", clear=False)
    except Exception as exn:
        return dict(status="violated", fails=[dict(clause="get_run_func returns a function (roll on a vector variable)", observed=f"{type(exn).__name__}: {exn}")])
    comp = dict(func=func, args=args, names=names, smap=smap, tpl=tpl, backend=c["backend"])
    rng = np.random.default_rng(c["seed"])
    fails = []
    for _ in range(2):
        y = np.round(rng.uniform(-2, 2, N) * 64) / 64
        want = 0.5 * np.roll(y, c["s1"]) - y + 0.25 * np.roll(y, c["s2"])
        try:
            got = oracle.eval_field(comp, y)
        except Exception as exn:
            return dict(status="violated", fails=[dict(clause="vector field: callable (roll)", observed=f"{type(exn).__name__}: {exn}")])
        if got.shape != want.shape or not np.allclose(got, want, rtol=1e-6, atol=1e-6):
            fails.append(dict(clause="roll(x, n) shifts like numpy.roll on every backend", observed=got[:4].tolist(), expected=want[:4].tolist()))
            break
    return dict(status="violated" if fails else "ok", fails=fails)


def loops_case(c):
    """The backend's own fixed-step loop against reference iterates (affine, time-dependent vector field)."""
    import importlib
    from checks import solver_native
    be_mod = {"torch": "pyrates.backend.torch.torch_backend", "jax": "pyrates.backend.jax.jax_backend"}[c["backend"]]
    cls = {"torch": "TorchBackend", "jax": "JaxBackend"}[c["backend"]]
    B = getattr(importlib.import_module(be_mod), cls)
    be = object.__new__(B)
    a, b, cc = c["coef"]
    dt, dts, T, t0 = c["dt"], c["dts"], c["T"], c["t0"]
    y0 = np.array(c["y0"], dtype=float)
    if c["backend"] == "torch":
        import torch

        def f(t, y):
            return a * y + b + cc * t
        res = getattr(be, f"_solve_{c['solver']}")(f, (), T, dt, dts, torch.as_tensor(y0.copy()), t0)
    else:
        import jax
        import jax.numpy as jnp
        jax.config.update("jax_enable_x64", True)

        def f(t, y):
            return a * y + b + cc * t
        res = getattr(be, f"_solve_{c['solver']}")(f, (), T, dt, dts, jnp.asarray(y0.copy()), t0)
    res = np.asarray(res, dtype=float)
    steps, m, rows = int(round(T / dt)), int(round(dts / dt)), int(round(T / dts))
    y = y0.copy()
    ref = []
    for i in range(rows * m):
        if i % m == 0:
            ref.append(y.copy())
        k1 = a * y + b + cc * (i + t0)
        if c["solver"] == "euler":
            y = y + dt * k1
        else:
            y = y + dt / 2 * (k1 + (a * (y + dt * k1) + b + cc * (i + t0)))
    ref = np.array(ref[:rows]).reshape(rows, -1)
    fails = []
    if res.shape[0] != rows:
        fails.append(dict(clause="backend solver loop: number of rows == round(T/dts)", observed=int(res.shape[0]), expected=rows))
    elif not np.allclose(res.reshape(rows, -1), ref, rtol=1e-9, atol=1e-12):
        bad = int(np.argmax(np.abs(res.reshape(rows, -1) - ref).max(axis=1)))
        fails.append(dict(clause=f"backend {c['solver']} loop: row k is the k*m-th iterate with step counter i + t0 (both stages)", row=bad,
                          observed=res.reshape(rows, -1)[bad].tolist(), expected=ref[bad].tolist()))
    return dict(status="violated" if fails else "ok", fails=fails)


def precision_history_case(c):
    """A float64 model keeps float64 accuracy after a float32 model was compiled on the same backend."""
    st = {t: m for t, f, m in gen.c01_structured()}
    model = st["F6-fanin-two-inputs"]
    comp = oracle.compile_model(model, vectorize=False, backend=c["backend"], file_name="p64")
    oracle.compile_model(st["F1-chain-123"], vectorize=False, backend=c["backend"], file_name="p32", float_precision="float32")
    rng = np.random.default_rng(c["seed"])
    fails = oracle.check_vector_field(model, comp, rng, n_states=2, n_param_draws=0)
    for f in fails:
        f["clause"] = "float64 function still evaluates in double precision after a float32 compilation (" + f["clause"] + ")"
    return dict(status="violated" if fails else "ok", fails=fails[:1])


def run_inputs_case(c):
    fails = oracle.check_inputs(c["model"], c["inputs"], False, solver=c["solver"], T=c["T"], dt=c["dt"]) if False else None
    return fails


VECOPS = {
    # name: (equations, extra variables, python expression of dx/dt over x, W, B, c (numpy))
    "V1-lhs-index-variable-first-use": (["index(u, B) = c*index_range(x, 0, 2)", "d/dt * x = -x + matvec(W, tanh(x)) + u"], {},
                                        "(-x + W @ np.tanh(x) + put(np.zeros(6), B, c*x[0:2]))"),
    "V2-index-variable-rhs-then-lhs": (["v = index(x, B)", "index(u, B) = c*v", "d/dt * x = -x + matvec(W, tanh(x)) + u"], {"v": 2},
                                       "(-x + W @ np.tanh(x) + put(np.zeros(6), B, c*x[B]))"),
    "V3-literal-index-and-range": (["d/dt * x = -x + c*index(x, 2) + vsum(index_range(x, 1, 4))"], {}, "(-x + c*x[2] + np.sum(x[1:4]))"),
    "V4-lhs-range": (["index_range(u, 2, 4) = c*index(x, B)", "d/dt * x = -x + u"], {}, "(-x + put(np.zeros(6), np.array([2, 3]), c*x[B]))"),
}


def vecop_case(c):
    """One node with vector-valued variables and index helpers on both sides of equations: the vector field of every backend
    against the NumPy meaning of the helpers (0-based, end-exclusive ranges)."""
    from pyrates import CircuitTemplate, NodeTemplate, OperatorTemplate
    eqs, extra, expr = VECOPS[c["name"]]
    N = 6
    W = (np.arange(N * N).reshape(N, N) % 7 - 3) / 8.0
    B = np.asarray([1, 3])
    x0 = np.arange(N) / 8.0 + 0.125
    cc = 0.5
    variables = {"x": {"vtype": "output", "value": x0.copy(), "shape": (N,), "dtype": "float"},
                 "u": {"vtype": "variable", "value": np.zeros(N), "shape": (N,), "dtype": "float"},
                 "W": {"vtype": "constant", "value": W.copy(), "shape": (N, N), "dtype": "float"},
                 "B": {"vtype": "constant", "value": B.copy(), "shape": (2,), "dtype": "int"}, "c": cc}
    for name, n in extra.items():
        variables[name] = {"vtype": "variable", "value": np.zeros(n), "shape": (n,), "dtype": "float"}
    used = " ".join(eqs)
    variables = {k: v for k, v in variables.items() if k in ("x", "c") or k in used.replace("(", " ").replace(")", " ").replace(",", " ").split()}

    def put(arr, idx, vals):
        arr = arr.copy()
        arr[idx] = vals
        return arr
    b = c["backend"]
    try:
        op = OperatorTemplate(name="vop", equations=list(eqs), variables=variables, path=None)
        tpl = CircuitTemplate(name="net", nodes={"a": NodeTemplate(name="vnode", operators=[op], path=None)})
        func, args, keys, idx = tpl.get_run_func(f"vf_{b}", step_size=1e-2, backend=b, vectorize=False, verbose=False, float_precision="float64",
                                                 file_name=f"vecop_{b}", clear=False, solver="scipy", in_place=False)
    except Exception as exn:
        return dict(status="violated", fails=[dict(clause="vector operator with index helpers compiles on this backend", observed=f"{type(exn).__name__}: {exn}"[:300])])
    rng = np.random.RandomState(7 + c.get("seed", 0))
    fails = []
    for y in [x0] + [np.round(rng.uniform(-1, 1, N) * 64) / 64 for _ in range(2)]:
        want = np.asarray(eval(expr, dict(np=np, x=y, W=W, B=B, c=cc, put=put)), dtype=float)
        try:
            got = oracle.eval_field(dict(func=func, args=args, names=keys, backend=b), np.asarray(y, dtype=float), 0.0)
        except Exception as exn:
            return dict(status="violated", fails=[dict(clause="vector operator: generated function is callable", observed=f"{type(exn).__name__}: {exn}"[:300])])
        got = np.asarray(got, dtype=float).ravel()
        if got.shape != want.shape or not np.allclose(got, want, rtol=1e-9, atol=1e-12):
            fails.append(dict(clause="index helpers (index / index_range on either side of an equation) mean the same 0-based, end-exclusive "
                                     "selection on every backend", observed=got.tolist(), expected=want.tolist()))
            break
    return dict(status="violated" if fails else "ok", fails=fails)


def lookup_interp_case(c):
    """`interp(x, xg, yg)` used as a lookup table in an equation, on a NON-uniform grid: the vector field of every backend equals
    numpy.interp — inside the grid, at grid points, and outside it (end values, no extrapolation, no wrap-around)."""
    from pyrates import CircuitTemplate, NodeTemplate, OperatorTemplate
    xg = np.asarray([-2.0, -1.5, -0.2, 0.1, 0.4, 1.7, 3.0])
    yg = np.asarray([0.5, -1.0, 2.0, 0.25, -0.75, 1.5, 3.0])
    variables = {"x": "output(0.3)", "k": 0.5,
                 "xg": {"vtype": "constant", "value": xg.copy(), "shape": xg.shape, "dtype": "float"},
                 "yg": {"vtype": "constant", "value": yg.copy(), "shape": yg.shape, "dtype": "float"}}
    b = c["backend"]
    try:
        op = OperatorTemplate(name="lut", equations=["d/dt * x = -k*x + interp(x, xg, yg)"], variables=variables, path=None)
        tpl = CircuitTemplate(name="net", nodes={"a": NodeTemplate(name="lnode", operators=[op], path=None)})
        func, args, keys, idx = tpl.get_run_func(f"lutf_{b}", step_size=1e-2, backend=b, vectorize=False, verbose=False, float_precision="float64",
                                                 file_name=f"lut_{b}", clear=False, solver="scipy", in_place=False)
    except Exception as exn:
        return dict(status="violated", fails=[dict(clause="an equation with interp(x, grid, values) compiles on this backend", observed=f"{type(exn).__name__}: {exn}"[:300])])
    fails = []
    for xv in (-3.0, -2.0, -1.7, -0.2, 0.0, 0.25, 1.0, 2.5, 3.0, 4.0):
        want = -0.5 * xv + float(np.interp(xv, xg, yg))
        try:
            got = float(np.asarray(oracle.eval_field(dict(func=func, args=args, names=keys, backend=b), np.asarray([xv], dtype=float), 0.0)).ravel()[0])
        except Exception as exn:
            return dict(status="violated", fails=[dict(clause="lookup-table equation: generated function is callable", observed=f"{type(exn).__name__}: {exn}"[:300])])
        if not np.isclose(got, want, rtol=1e-9, atol=1e-12):
            fails.append(dict(clause="interp(x, grid, values) on a non-uniform grid equals numpy.interp on every backend (end values outside the grid)",
                              x=xv, observed=got, expected=want))
            break
    return dict(status="violated" if fails else "ok", fails=fails)


def interp_field_case(c):
    """Adaptive-solver code reads the input as interp(t, time, samples): inside the grid linear interpolation, OUTSIDE it the end
    value is held (numpy.interp), on every backend.  The compiled vector field is evaluated at times inside, before and after the grid."""
    arrs = {kk: np.asarray(v, dtype=float) for kk, v in c["inputs"].items()}
    T = c["T"]
    try:
        comp = oracle.compile_model(c["model"], backend=c["backend"], inputs=arrs, solver="scipy", step_size=c["dt"],
                                    **({"adaptive": True} if False else {}))
    except Exception as exn:
        return dict(status="violated", fails=[dict(clause="get_run_func with inputs on this backend (adaptive)", observed=f"{type(exn).__name__}: {exn}"[:300])])
    svars = mdl.state_vars(c["model"])
    try:
        pos = oracle.positions(comp, c["model"])
    except Exception as exn:
        return dict(status="violated", fails=[dict(clause="layout", observed=f"{type(exn).__name__}: {exn}")])
    per_var = {}
    for path, arr in arrs.items():
        for tp in oracle.expand_path(c["model"], path):
            per_var[tp] = arr
    n = len(np.asarray(comp["args"][1]).reshape(-1))
    rng = np.random.default_rng(c.get("seed", 0))
    fails = []
    for t in (0.37 * T, -0.25 * T, 0.0, T, 1.3 * T, 2.5 * T):
        yv = np.round(rng.uniform(-1, 1, size=n), 3)
        try:
            got = oracle.eval_field(comp, yv, t)
        except Exception as exn:
            return dict(status="violated", fails=[dict(clause="compiled function callable at any time", t=t, observed=f"{type(exn).__name__}: {exn}"[:300])])
        ext = {p: float(np.interp(t, np.linspace(0.0, T, len(a)), a)) for p, a in per_var.items()}
        want, _ = mdl.spec_rhs(c["model"], {v: float(yv[pos[v]]) for v in svars}, t=t, ext=ext)
        for v in svars:
            if not oracle.close(got[pos[v]], want[v], 1e-6, 1e-9):
                fails.append(dict(clause="input read by interpolation: linear inside the sample grid, end value held outside it (every backend)",
                                  var=v, t=float(t), observed=float(got[pos[v]]), expected=float(want[v])))
                return dict(status="violated", fails=fails)
    return dict(status="ok", fails=[])


def smooth_scipy_case(c):
    """An autonomous smooth model under solver='scipy' with tight tolerances in float64: every backend's wrapper keeps double precision."""
    from scipy.integrate import solve_ivp
    m = c["model"]
    try:
        df, outputs, _ = oracle.run_model(m, 1.0, 0.01, 0.1, "scipy", False, backend=c["backend"], method="DOP853", rtol=1e-11, atol=1e-13)
    except Exception as exn:
        return dict(status="violated", fails=[dict(clause="run(solver='scipy') on this backend", observed=f"{type(exn).__name__}: {exn}"[:300])])
    svars = mdl.state_vars(m)
    y0 = mdl.initial_state(m)

    def f(t, y):
        dy, _ = mdl.spec_rhs(m, dict(zip(svars, y)), t=t)
        return [dy[v] for v in svars]
    times = np.arange(10) * 0.1
    ref = solve_ivp(f, (0.0, 1.0), [y0[v] for v in svars], t_eval=times, rtol=1e-12, atol=1e-14, method="DOP853")
    fails = []
    for key, path in outputs.items():
        got = np.asarray(df[key], dtype=float).reshape(len(df.index), -1)[:, 0]
        want = ref.y[svars.index(path)]
        if got.shape != want.shape or not np.allclose(got, want, rtol=2e-10, atol=2e-12):
            bad = int(np.argmax(np.abs(got - want))) if got.shape == want.shape else -1
            fails.append(dict(clause="scipy solution in float64 within 2e-10 of the reference on every backend (no single-precision round trip)", var=path,
                              observed=float(got[bad]) if bad >= 0 else list(got.shape), expected=float(want[bad]) if bad >= 0 else list(want.shape)))
            break
    return dict(status="violated" if fails else "ok", fails=fails)


def backend_seq_case(c):
    """Two euler runs with inputs in ONE process on one backend (different parameter values and input samples): each against the spec —
    what the first compilation leaves behind (index bookkeeping, generated names) must not shift the step counter of the second."""
    for j, (model, arr) in enumerate(c["items"]):
        sub = dict(c, kind="inputs_backend", model=model, inputs={c["target"]: arr}, run_kw=dict(clear=True))
        r = dispatch(sub)
        if r.get("status") == "violated":
            for f in r["fails"]:
                f["clause"] = f"run #{j} of two {c['solver']} runs with inputs in one process: " + str(f.get("clause"))
            return r
    return dict(status="ok", fails=[])


def diffrax_seq_case(c):
    """Two runs in ONE process with solver='diffrax' (JAX) that differ only in parameter values / input samples: each against the spec."""
    fails = []
    for j, (model, arr) in enumerate(c["items"]):
        # clear=True is the default of run(): generated names (and therefore the source text of the vector field) are the same in both runs
        sub = dict(c, kind="inputs_backend", model=model, inputs={c["target"]: arr}, solver="diffrax", backend="jax", run_kw=dict(clear=True))
        r = dispatch(sub)
        if r.get("status") == "violated":
            for f in r["fails"]:
                f["clause"] = f"run #{j} of two diffrax runs in one process: " + str(f.get("clause"))
            return r
    return dict(status="ok", fails=[])


def delayed_edges_backend_case(c):
    """Discrete (ring-buffer) edge delays, alone and mixed with gamma-kernel delays, on scalar edges and on Connectivity objects:
    a backend either refuses the model (an exception) or returns the trajectory the NumPy backend returns."""
    from pyrates import OperatorTemplate, NodeTemplate, CircuitTemplate, clear_frontend_caches
    from pyrates.frontend.template.population import PopulationTemplate, Connectivity
    dt, steps = 0.05, 24

    def build():
        clear_frontend_caches()
        op = OperatorTemplate(name="ro", equations=["d/dt * r = (eta - r)/tau + s_in"], path=None,
                              variables={"r": "output(0.1)", "eta": 0.5, "tau": 2.0, "s_in": "input(0.0)"})
        node = NodeTemplate(name="rn", operators=[op], path=None)
        if c["form"] == "scalar":
            # (both edges carry the same attribute keys: a group of edges in which only some have a `spread` does not compile at all — C11 finding)
            edges = [("a/ro/r", "b/ro/s_in", None, {"weight": 0.8, "delay": 4 * dt}), ("b/ro/r", "a/ro/s_in", None, {"weight": -0.6, "delay": 0.3})]
            if c["order"]:
                edges = edges[::-1]
            tpl = CircuitTemplate(name="dn", nodes={"a": node, "b": node}, edges=edges, path=None)
            tpl.update_var(node_vars={"a/ro/eta": 1.5, "b/ro/r": -0.4})
            return tpl, {"a": "a/ro/r", "b": "b/ro/r"}
        pp = PopulationTemplate(name="p", node=node, n=2, params={"ro/eta": [1.5, 0.8], "ro/r": [0.3, -0.2]})
        qq = PopulationTemplate(name="q", node=node, n=2, params={"ro/eta": [0.3, 0.4], "ro/r": [0.5, 0.2]})
        conns = [Connectivity(source="p/ro/r", target="q/ro/s_in", weights=np.array([[0.0, 0.5], [0.7, 0.0]]), delays=4 * dt),
                 Connectivity(source="q/ro/r", target="p/ro/s_in", weights=np.array([[0.3, -0.5], [0.25, 0.1]]), delays=0.3, spread=0.15)]
        if c["order"]:
            conns = conns[::-1]
        return CircuitTemplate(name="dn", populations={"p": pp, "q": qq}, connections=conns), {"p": "p/ro/r", "q": "q/ro/r"}

    def sim(backend):
        tpl, outs = build()
        res = tpl.run(simulation_time=steps * dt, step_size=dt, solver="euler", outputs=outs, backend=backend, clear=True, verbose=False,
                      float_precision="float64", file_name=f"dly_{backend}", vectorize=c["backend"] != "fortran")     # (Fortran compiles scalar networks only)
        return np.asarray(res.values, dtype=float)
    try:
        ref = sim("default")
    except Exception as exn:
        return dict(status="skipped", fails=[], detail=dict(note=f"NumPy backend does not run the model: {type(exn).__name__}: {exn}"))
    try:
        got = sim(c["backend"])
    except Exception as exn:
        return dict(status="ok", fails=[], detail=dict(refused=f"{type(exn).__name__}"))
    fails = []
    if got.shape != ref.shape or not np.allclose(got, ref, rtol=1e-9, atol=1e-11):
        bad = float(np.abs(got - ref).max()) if got.shape == ref.shape else None
        fails.append(dict(clause="a backend that accepts a model with discrete edge delays returns the NumPy backend's trajectory (or refuses the model)",
                          observed=dict(shape=list(got.shape), max_abs_difference=bad, last_row=got[-1].tolist()), expected=dict(last_row=ref[-1].tolist())))
    return dict(status="violated" if fails else "ok", fails=fails)


def dispatch(c):
    k = c["kind"]
    if k == "lookup_interp":
        return lookup_interp_case(c)
    if k == "delayed_edges_backend":
        return delayed_edges_backend_case(c)
    if k == "vecop":
        return vecop_case(c)
    if k == "interp_field":
        return interp_field_case(c)
    if k == "diffrax_seq":
        return diffrax_seq_case(c)
    if k == "population_backend":
        from checks import c16 as _c16
        return _c16.differential_case(c)
    if k == "inputs_backend_seq":
        return backend_seq_case(c)
    if k == "smooth_scipy":
        return smooth_scipy_case(c)
    if k == "ring":
        return ring_case(c)
    if k == "loops":
        return loops_case(c)
    if k == "precision_history":
        return precision_history_case(c)
    if k == "inputs_backend":
        arrs = {kk: np.asarray(v, dtype=float) for kk, v in c["inputs"].items()}
        try:
            df, outputs, _ = oracle.run_model(c["model"], c["T"], c["dt"], c.get("dts"), c["solver"], False, backend=c["backend"], inputs=arrs,
                                              **({"method": "RK45", "rtol": 1e-9, "atol": 1e-11} if c["solver"] == "scipy" else
                                                 {}), **c.get("run_kw", {}))     # diffrax: the solver's own default tolerances (see diffrax_seq_case)
        except Exception as exn:
            return dict(status="violated", fails=[dict(clause="run with inputs on this backend", observed=f"{type(exn).__name__}: {exn}")])
        per_var = {}
        for path, arr in arrs.items():
            for tp in oracle.expand_path(c["model"], path):
                per_var[tp] = arr
        step = c.get("dts") or c["dt"]
        rows = int(round(c["T"] / step))
        fails = []
        if c["solver"] in ("euler", "heun"):
            _, ref = mdl.spec_fixed_step(c["model"], c["T"], c["dt"], step, c["solver"], inputs=per_var)
            tol = dict(rtol=1e-6, atol=1e-9)
        else:
            from scipy.integrate import solve_ivp
            svars = mdl.state_vars(c["model"])
            y0 = mdl.initial_state(c["model"])

            def f(t, y):
                ext = {p: float(np.interp(t, np.linspace(0.0, c["T"], len(a)), a)) for p, a in per_var.items()}
                dy, _ = mdl.spec_rhs(c["model"], dict(zip(svars, y)), t=t, ext=ext)
                return [dy[v] for v in svars]
            times = np.arange(rows) * (c["T"] / rows)
            sol = solve_ivp(f, (0.0, c["T"]), [y0[v] for v in svars], t_eval=times, rtol=1e-11, atol=1e-13, method="DOP853", max_step=c["dt"])
            ref = {v: sol.y[i] for i, v in enumerate(svars)}
            tol = dict(rtol=2e-4, atol=2e-6)       # piecewise-linear inputs have kinks: the tested solver is not forced onto them
            if c["solver"] == "diffrax":
                tol = dict(rtol=5e-3, atol=5e-3)   # default tolerances of the diffrax controller on a smooth input
        for key, path in outputs.items():
            got = np.asarray(df[key], dtype=float).reshape(len(df.index), -1)[:, 0]
            want = ref[path]
            if got.shape != want.shape or not np.allclose(got, want, **tol):
                bad = int(np.argmax(np.abs(got - want))) if got.shape == want.shape else -1
                fails.append(dict(clause=f"trajectory with a time-dependent input equals the spec ({c['solver']})", var=path, row=bad,
                                  observed=float(got[bad]) if bad >= 0 else list(got.shape), expected=float(want[bad]) if bad >= 0 else list(want.shape)))
                break
        return dict(status="violated" if fails else "ok", fails=fails)
    return cases.case_fn(c)


def families(tier, seed):
    out = []
    st = {t: m for t, f, m in gen.c01_structured()}
    jm = {t: m for t, f, m in gen.c12_models() if t.startswith("J4-")}
    field_models = [("F1-chain-123", st["F1-chain-123"]), ("F6-fanin-two-inputs", st["F6-fanin-two-inputs"]), ("F2-parallel-2", st["F2-parallel-2"]),
                    ("F7-hierarchy-1", st["F7-hierarchy-1"])] + [(t, m) for t, m in jm.items() if t not in ("J4-absv",)]
    if tier == "quick":
        field_models = field_models[:3] + [(t, m) for t, m in jm.items() if t in ("J4-sigmoid", "J4-sin")]
    for b in BACKENDS[1:]:
        for tag, model in field_models:
            out.append(dict(tag=f"{tag}/field/{b}", features=dict(backend=b), kind="field", model=model, vec=False, seed=seed, backend=b))
        if b != "fortran":
            out.append(dict(tag=f"F8-ring2-6/field-vec/{b}", features=dict(backend=b, vec=True), kind="field", model=st["F8-ring2-6"], vec=True,
                            seed=seed, backend=b))
    # trajectories (own solver implementations), incl. a sampling step that is 3 steps
    integ = gen.op_li("op", x="x", ins=("u",), tau=4.0, x0=0.0, in_defaults={"u": 0.0})
    three = gen.model([integ], {f"p{i}": dict(ops=["op"], over={"op/tau": 2.0 + i}) for i in range(3)}, [gen.edge("p0/op/x", "p1/op/u", 0.5)])
    sig = (np.round(np.random.default_rng(seed).uniform(-1, 1, size=30), 3)).tolist()
    for b in BACKENDS:
        solvers = {"default": ("euler", "heun"), "torch": ("euler",), "jax": ("euler", "heun"), "fortran": ("euler", "heun")}[b]
        for solver in solvers:
            for (T, dt, dts) in ((0.9, 0.1, 0.3), (1.0, 0.05, 0.25)):
                out.append(dict(tag=f"run/{b}/{solver}/{dt}/{dts}", features=dict(backend=b, solver=solver), kind="inputs_backend", model=three,
                                inputs={"p1/op/u": sig[: int(round(T / dt))]}, solver=solver, T=T, dt=dt, dts=dts, backend=b))
        if b in ("default", "torch", "jax", "fortran"):
            out.append(dict(tag=f"run/{b}/scipy-interp", features=dict(backend=b, solver="scipy"), kind="inputs_backend", model=three,
                            inputs={"p1/op/u": sig[:20]}, solver="scipy", T=1.0, dt=0.05, dts=0.1, backend=b))
    for b in BACKENDS:
        for (s1, s2) in ((12, 3), (1, 2)):
            out.append(dict(tag=f"ring-roll-{s1}-{s2}/{b}", features=dict(backend=b), kind="ring", backend=b, s1=s1, s2=s2, seed=seed))
    rng = np.random.default_rng(seed)
    for b in ("torch", "jax"):
        for solver in (("euler",) if b == "torch" else ("euler", "heun")):
            for (steps, m, t0) in ((6, 1, 0), (6, 2, 0), (9, 3, 4), (10, 5, 2)):
                dt = 0.1
                out.append(dict(tag=f"loop/{b}/{solver}/{steps}/{m}/{t0}", features=dict(backend=b, solver=solver), kind="loops", backend=b,
                                solver=solver, dt=dt, dts=m * dt, T=steps * dt, t0=t0, coef=[-0.75, 0.5, 0.25], y0=[0.5, -1.25]))
            # decimal (T, dt) pairs whose float quotient lies just below / above an integer: the step count is round(T/dt) on every backend
            for (T, dt, dts) in ((0.3, 0.1, 0.1), (0.7, 0.1, 0.1), (0.6, 0.05, 0.05), (0.9, 0.3, 0.3), (1.1, 0.1, 0.1)):
                out.append(dict(tag=f"loop-decimal/{b}/{solver}/{T}/{dt}", features=dict(backend=b, solver=solver), kind="loops", backend=b,
                                solver=solver, dt=dt, dts=dts, T=T, t0=0, coef=[-0.75, 0.5, 0.25], y0=[0.5, -1.25]))
    out.append(dict(tag="precision-history/jax", features=dict(backend="jax"), kind="precision_history", backend="jax", seed=seed))
    for b in BACKENDS:
        out.append(dict(tag=f"interp-field/{b}", features=dict(backend=b), kind="interp_field", model=three, inputs={"p1/op/u": sig[:20]}, T=1.0, dt=0.05,
                        backend=b, seed=seed))
    stt = {t: mm for t, f, mm in gen.c01_structured()}
    for b in ("default", "torch", "jax"):
        out.append(dict(tag=f"smooth-scipy/{b}", features=dict(backend=b, solver="scipy"), kind="smooth_scipy", model=stt["F1-chain-123"], backend=b))
    import json as _json
    smooth = [round(0.8 * float(np.sin(2 * np.pi * k / 20.0 + 0.3 * seed)), 4) for k in range(20)]     # smooth: default solver tolerances suffice
    three_b = _json.loads(_json.dumps(three))
    for nd in three_b["nodes"].values():
        nd.setdefault("over", {})
        nd["over"]["op/tau"] = nd["over"].get("op/tau", 2.0) * 1.7
    out.append(dict(tag="diffrax-two-runs/jax", features=dict(backend="jax", solver="diffrax"), kind="diffrax_seq", target="p1/op/u", T=1.0, dt=0.05,
                    dts=0.1, items=[(three, smooth), (three_b, [-x for x in smooth])]))
    # population circuits (matrix, scalar-weight and coupling-edge Connectivity: matvec / vsum / wsum / broadcast helpers of each backend's
    # registry) on JAX / Torch against the explicit node-and-edge network run with the same settings (cases shared with C16)
    from checks import c16 as _c16
    for c_ in _c16.families("quick", seed):
        if c_.get("kind") == "differential" and c_["features"].get("backend"):
            out.append(dict(c_, kind="population_backend", tag="population/" + c_["tag"]))
    rough = [round(float(x), 4) for x in np.random.default_rng(seed + 7).uniform(-1, 1, size=20)]
    for b in ("torch", "jax", "fortran"):
        out.append(dict(tag=f"two-runs-with-inputs/{b}/euler", features=dict(backend=b, solver="euler", second_run=True), kind="inputs_backend_seq", target="p1/op/u",
                        T=1.0, dt=0.05, dts=None, solver="euler", backend=b, items=[(three, rough), (three_b, [-x for x in rough[::-1]])]))
    for b in ("torch", "jax", "fortran"):
        for form in ("scalar", "connectivity"):
            for order in ((0, 1) if b != "fortran" else (0,)):
                out.append(dict(tag=f"delayed-edges/{form}/{order}/{b}", features=dict(backend=b, delayed_edges=form), kind="delayed_edges_backend",
                                backend=b, form=form, order=order))
    for b in BACKENDS:
        out.append(dict(tag=f"lookup-interp-nonuniform-grid/{b}", features=dict(backend=b, lookup_interp=True), kind="lookup_interp", backend=b))
    for name in VECOPS:
        for b in BACKENDS:
            out.append(dict(tag=f"{name}/{b}", features=dict(backend=b, vecop=name), kind="vecop", name=name, backend=b, seed=seed))
    return out


def main():
    chk = Check("C02", "other")
    # who may write the history of a delayed model: the adaptive DDE solvers change it only through DDEHistory.update, unconditionally per accepted step
    chk.run_frames()
    chk.run_contracts("contracts.c02", fallback={"*": lambda: []})
    driver.run_family(
        chk, "backends-vs-spec", families(chk.tier, chk.seed), dispatch, site="C02/backends",
        rule="for torch / jax / fortran: vector fields of operator chains, fan-in, parallel edges, hierarchy and the documented "
             "non-linearities against the spec at random states and parameter draws (float64), vectorised rings on torch/jax; "
             "trajectories with a seeded time-dependent input for every solver the backend implements itself (dts = 3 and 5 steps) and "
             "scipy with linear interpolation of the input; roll on a 16-vector with one- and two-digit shifts; the Torch and JAX "
             "fixed-step loops called directly with an affine time-dependent field (steps, cadence, t0; decimal (T, dt) pairs whose float "
             "quotient is not an integer); a float64 JAX model after a "
             "float32 compilation; distinct = case tags",
        sample_of=lambda c: {k: v for k, v in c.items() if k not in ("features", "model", "inputs")})
    rc = chk.finish(
        explanation="Deductive: TorchBackend._solve_euler and JaxBackend._solve_euler/_solve_heun (nested jax.lax.scan over closures; scan is an "
                    "assumed contract verified like a loop: inductive invariant over (counter, carry), clause over emitted rows, closure "
                    "bodies executed symbolically from the real source) satisfy the same contracts (euler_iter/heun_iter) as the "
                    "BaseBackend loops, for every step count, cadence and state; BaseBackend._process_idx (the index hook every code-generating "
                    "backend inherits) emits i + start for a scalar index and (a + start):b for a range, for all indices and start offsets. Bounded: each backend against the one reference semantics (so they agree with each "
                    "other); generated Fortran / XLA / torch kernels are outside any verifier available here.",
        assumptions=["as for C03 (floats as reals, value semantics of the vector field)",
                     "jax.lax.scan(f, init, None, length=L) has its documented semantics and f is traced as a pure function; jnp.asarray / "
                     ".astype(int32) of an integer step counter are the identity (int32 range not modelled)", "spec_rhs / spec_fixed_step (harness)",
                     "gfortran + f2py + meson from /venv for the Fortran cases"])
    sys.exit(rc)


if __name__ == "__main__":
    main()
