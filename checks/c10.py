"""C10 check: delayed terms read the true past (bounded); DDEHistory and the history feed are proved under C19 / C03."""
import os
import sys

HERE = os.path.dirname(os.path.dirname(os.path.abspath(__file__)))
sys.path.insert(0, HERE)

from vlib.harness import Check            # noqa: E402
from rtc import gen, driver, cases        # noqa: E402


def families(tier, seed):
    out = []
    for tag, feats, model in gen.dde_models():
        for solver in ("scipy", "euler"):
            if feats.get("edges") and solver == "euler":
                continue          # fixed-step delayed edges use the ring buffer (C09), not hist
            out.append(dict(tag=f"{tag}/field/{solver}", features=dict(feats, solver=solver), kind="dde_field", model=model, solver=solver, seed=seed))
            if solver == "euler" and tag.split("-")[0] in ("H1", "H3", "H4"):
                # a step size that needs more than six decimals: the generated hist(t*dt - d) must carry it exactly
                out.append(dict(tag=f"{tag}/field-small-dt/{solver}", features=dict(feats, solver=solver, small_dt=True), kind="dde_field", model=model,
                                solver=solver, seed=seed, dt=6.25e-5))
            if solver == "euler" and tag.split("-")[0] in ("H1", "H3", "H4", "H2"):
                # the documented two-stage route: apply() with its defaults, then get_run_func on the intermediate representation
                out.append(dict(tag=f"{tag}/field-two-stage/{solver}", features=dict(feats, solver=solver, two_stage=True), kind="dde_field", model=model,
                                solver=solver, seed=seed, two_stage=True))
            if feats.get("edges"):
                out.append(dict(tag=f"{tag}/field-vec/{solver}", features=dict(feats, solver=solver, vec=True), kind="dde_field", model=model,
                                solver=solver, seed=seed, vec=True))
        for solver in (("scipy", "euler") if tier == "quick" else ("scipy", "euler", "heun")):
            if feats.get("edges") and solver != "scipy":
                continue
            out.append(dict(tag=f"{tag}/run/{solver}", features=dict(feats, solver=solver), kind="dde_run", model=model, solver=solver, T=2.0))
        if tag.split("-")[0] in ("H1", "H3", "H6"):
            out.append(dict(tag=f"{tag}/run-method-RK45/scipy", features=dict(feats, solver="scipy", method="RK45"), kind="dde_run", model=model,
                            solver="scipy", T=2.0, method="RK45"))
        # coarse sampling (sampling step larger than the delays): the history must still contain every accepted step
        out.append(dict(tag=f"{tag}/run-coarse/scipy", features=dict(feats, solver="scipy", coarse=True), kind="dde_run", model=model,
                        solver="scipy", T=2.0, dts=1.0))
    out.append(dict(tag="H14-complex-valued-delayed-model", features=dict(complex=True), kind="complex_delay"))
    for vec in (False, True):
        out.append(dict(tag="H15-float32-edge-delays", features=dict(float32_delay=True, vec=vec), kind="float32_delay", vec=vec))
    for vec in (False, True):
        out.append(dict(tag="H13-per-node-delay-parameter", features=dict(param_delay=True, vec=vec), kind="param_delay", vec=vec))
    return out


def param_delay_case(c):
    """past(x, d) with d a PARAMETER that differs between two nodes of one type: each node reads hist(t - its own d)."""
    import numpy as np
    from pyrates import OperatorTemplate, NodeTemplate, CircuitTemplate
    op = OperatorTemplate(name="dd", equations=["d/dt * x = -x + k*past(x, d)"], variables={"x": "output(0.6)", "k": 0.5, "d": 0.3}, path=None)
    n1 = NodeTemplate(name="n1", operators=[op], path=None)
    n2 = NodeTemplate(name="n2", operators={op: {"d": 0.7, "k": 1.5}}, path=None)
    tpl = CircuitTemplate(name="net", nodes={"a": n1, "b": n2})
    try:
        f, a, names, m = tpl.get_run_func("vf", step_size=1e-2, vectorize=c["vec"], verbose=False, float_precision="float64", file_name="pd_mod",
                                          solver="scipy")
    except Exception as exn:
        return dict(status="violated", fails=[dict(clause="get_run_func returns a function for a delayed model", observed=f"{type(exn).__name__}: {exn}")])
    hi = list(names).index("hist")

    def H(t):
        return np.array([np.sin(3 * t), np.cos(2 * t)])
    args = list(a)
    args[hi] = H
    fails = []
    for t, y in ((1.0, np.array([0.2, -0.4])), (2.5, np.array([-0.7, 0.1]))):
        got = np.array(f(t, y.copy(), *args[2:]), dtype=float).reshape(-1)
        want = np.array([-y[0] + 0.5 * H(t - 0.3)[0], -y[1] + 1.5 * H(t - 0.7)[1]])
        if got.shape != want.shape or not np.allclose(got, want, rtol=1e-9, atol=1e-12):
            fails.append(dict(clause="delayed terms read component x of hist(t - tau) with tau the node's OWN delay parameter", t=t,
                              observed=got.tolist(), expected=want.tolist()))
            break
    return dict(status="violated" if fails else "ok", fails=fails)


def complex_delay_case(c):
    """A complex-valued delayed model (float_precision='complex128'): the DEFAULT history object keeps the complex initial state, the
    delayed term reads the complex past, and a short Heun run follows the Heun iterates of the complex DDE."""
    import numpy as np
    from pyrates import OperatorTemplate, NodeTemplate, CircuitTemplate
    omega, k, d, z0 = 2.0, -0.5, 0.2, 1.0 + 0.5j
    dt, T = 0.01, 0.6

    def build():
        op = OperatorTemplate(name="sl_op", equations=["z' = i*omega*z + k*z(t-d)"],
                              variables={"z": f"output({z0.real}+{z0.imag}j)", "i": "0.0+1.0j", "omega": omega, "k": k, "d": d}, path=None)
        return CircuitTemplate(name="sl_net", nodes={"p": NodeTemplate(name="sl_pop", operators=[op], path=None)})
    fails = []
    try:
        f, a, names, m = build().get_run_func("vf", step_size=dt, vectorize=False, verbose=False, float_precision="complex128", file_name="cx_mod",
                                              solver="heun")
        hist = a[list(names).index("hist")]
        h0 = np.asarray(hist(-0.25)).reshape(-1)[0]
        if not np.iscomplexobj(np.asarray(hist(-0.25))) or abs(h0 - z0) > 1e-12:
            fails.append(dict(clause="the default history returns the (complex) initial state for times before the start", observed=str(h0), expected=str(z0)))
        res = build().run(simulation_time=T, step_size=dt, solver="heun", outputs={"z": "p/sl_op/z"}, verbose=False, float_precision="complex128")
        got = np.asarray(res.values).reshape(-1)
    except Exception as exn:
        return dict(status="violated", fails=[dict(clause="a complex-valued delayed model compiles and runs", observed=f"{type(exn).__name__}: {exn}"[:300])])
    # Heun iterates of z' = i*omega*z + k*z(t - d) with linear interpolation of the recorded steps (d is a multiple of dt)
    n, nd = int(round(T / dt)), int(round(d / dt))
    z = np.empty(n + 1, dtype=complex)
    z[0] = z0

    def past(j):
        return z0 if j - nd <= 0 else z[j - nd]
    for j in range(n):
        f1 = 1j * omega * z[j] + k * past(j)
        zp = z[j] + dt * f1
        f2 = 1j * omega * zp + k * past(j)
        z[j + 1] = z[j] + dt / 2 * (f1 + f2)
    ref = z[:n]
    if not fails and (got.shape != ref.shape or not np.allclose(got, ref, rtol=1e-7, atol=1e-9)):
        bad = int(np.argmax(np.abs(got - ref))) if got.shape == ref.shape else -1
        fails.append(dict(clause="run(heun) of a complex delayed model equals the Heun iterates of the complex DDE", row=bad,
                          observed=str(got[bad]) if bad >= 0 else list(got.shape), expected=str(ref[bad]) if bad >= 0 else list(ref.shape)))
    return dict(status="violated" if fails else "ok", fails=fails)


def float32_delay_case(c):
    """Edge delays given as numpy float32 (e.g. a single-precision delay matrix) under an adaptive solver: still delays."""
    import numpy as np
    from pyrates import OperatorTemplate, NodeTemplate, CircuitTemplate
    op = OperatorTemplate(name="op", equations=["r' = -r/tau + r_in"], variables={"r": "output(0.4)", "tau": 2.0, "r_in": "input(0.0)"}, path=None)
    nt = NodeTemplate(name="nt", operators=[op], path=None)
    tpl = CircuitTemplate(name="n32", nodes={"p1": nt, "p2": nt},
                          edges=[("p1/op/r", "p2/op/r_in", None, {"weight": 1.5, "delay": np.float32(0.75)}),
                                 ("p2/op/r", "p1/op/r_in", None, {"weight": -0.5, "delay": np.float32(1.25)})])
    try:
        f, a, names, m = tpl.get_run_func("vf", step_size=1e-2, vectorize=c["vec"], verbose=False, float_precision="float64", file_name="f32_mod", solver="scipy")
    except Exception as exn:
        return dict(status="violated", fails=[dict(clause="a model with float32 edge delays compiles", observed=f"{type(exn).__name__}: {exn}"[:300])])
    if "hist" not in names:
        return dict(status="violated", fails=[dict(clause="delayed model: the compiled function takes a history argument", observed=list(names)[:6])])
    asked = []

    def H(t):
        asked.append(round(float(t), 6))
        return np.array([np.sin(3 * t), np.cos(2 * t)])
    args = list(a)
    args[list(names).index("hist")] = H
    y = np.array([0.2, -0.4])
    got = np.array(f(2.0, y.copy(), *args[2:]), dtype=float).reshape(-1)
    want = np.array([-0.2 / 2.0 - 0.5 * H(2.0 - 1.25)[1], 0.4 / 2.0 + 1.5 * H(2.0 - 0.75)[0]])
    fails = []
    if not np.allclose(got, want, rtol=1e-6, atol=1e-9):
        fails.append(dict(clause="delayed edges (float32 delays) read component x of hist(t - tau)", observed=got.tolist(), expected=want.tolist(),
                          queried=sorted(set(asked))[:6]))
    return dict(status="violated" if fails else "ok", fails=fails)


def case_fn(c):
    if c["kind"] == "complex_delay":
        return complex_delay_case(c)
    if c["kind"] == "float32_delay":
        return float32_delay_case(c)
    if c["kind"] == "param_delay":
        return param_delay_case(c)
    return cases.case_fn(c)


def main():
    chk = Check("C10", "other")
    # who may write the history of a delayed model: the adaptive DDE solvers change it only through DDEHistory.update, unconditionally per accepted step
    chk.run_frames()
    # deductive core: the history object is the piecewise-linear interpolant with constant pre-history (DDEHistory contracts), and
    # the fixed-step loops append ((i+1)*dt, y_{i+1}) after every step (DDE variants of the solver-loop contracts)
    from checks.c03 import solver_fallback
    from checks import c19 as _c19
    chk.run_contracts("contracts.c19", fallback={"*": _c19.bounded(chk, "native-contracts-on-scripted-histories")})
    chk.run_contracts("contracts.c03", names=["BaseBackend._solve_euler[dde]", "BaseBackend._solve_heun[dde]"],
                      fallback={"*": solver_fallback(chk)})
    _cases = families(chk.tier, chk.seed)
    _results = driver.run_family(
        chk, "delayed-terms-vs-history", _cases, case_fn, site="C10/dde",
        rule="models with past(x, tau): one delay on the first variable, on the second variable, two delays on two variables, one "
             "variable at two delays, a product with a delayed factor, a negative coefficient; delayed edges (two delays from one "
             "source; a delayed and an undelayed sibling; a sibling delay below the step size; vectorize off and on) under an adaptive solver; (1) the compiled function called with a hand-made smooth history H(t): derivative == "
             "spec with component x of H(t - tau), t in time units for adaptive AND fixed-step code (step counter * dt); (2) run "
             "(scipy; thorough: euler, heun) against an RK4 method-of-steps reference with constant pre-history; distinct = (model, kind, solver)",
        sample_of=lambda c: {k: v for k, v in c.items() if k != "features"})
    driver.run_sequences(chk, "delayed-terms-vs-history-in-sequence", _cases, _results, case_fn, site="C10/dde",
                         limit=20 if chk.tier == "quick" else 120, seed=chk.seed)
    rc = chk.finish(
        explanation="Deductive core: DDEHistory returns the initial state before the start and the linear interpolant of the recorded "
                    "trajectory afterwards (class invariant + method contracts), and the fixed-step loops append ((i+1)*dt, y_{i+1}) "
                    "after every step through DDEHistory.update's contract. Bounded: the compiled function evaluates each delayed "
                    "term as component x of hist(t - tau) for hand-made histories; run() against a method-of-steps reference.",
        assumptions=["as for C19/C03 (floats as reals, one representative component, documented bisect_right / np.empty contracts)",
                     "spec_rhs with hist (harness)", "method-of-steps reference: RK4, h = 1e-3, linear history interpolation"])
    sys.exit(rc)


if __name__ == "__main__":
    main()
