"""C10 check: delayed terms read the true past (bounded); DDEHistory and the history feed are proved under C19 / C03."""
import os
import sys

HERE = os.path.dirname(os.path.dirname(os.path.abspath(__file__)))
sys.path.insert(0, HERE)

from vlib.harness import Check            # noqa: E402
from rtc import gen, driver, cases        # noqa: E402


def families(tier, seed):
    out = []
    for tag, feats, model in gen.dde_models():
        for solver in ("scipy", "euler"):
            if feats.get("edges") and solver == "euler":
                continue          # fixed-step delayed edges use the ring buffer (C09), not hist
            out.append(dict(tag=f"{tag}/field/{solver}", features=dict(feats, solver=solver), kind="dde_field", model=model, solver=solver, seed=seed))
            if solver == "euler" and tag.split("-")[0] in ("H1", "H3", "H4"):
                # a step size that needs more than six decimals: the generated hist(t*dt - d) must carry it exactly
                out.append(dict(tag=f"{tag}/field-small-dt/{solver}", features=dict(feats, solver=solver, small_dt=True), kind="dde_field", model=model,
                                solver=solver, seed=seed, dt=6.25e-5))
            if feats.get("edges"):
                out.append(dict(tag=f"{tag}/field-vec/{solver}", features=dict(feats, solver=solver, vec=True), kind="dde_field", model=model,
                                solver=solver, seed=seed, vec=True))
        for solver in (("scipy", "euler") if tier == "quick" else ("scipy", "euler", "heun")):
            if feats.get("edges") and solver != "scipy":
                continue
            out.append(dict(tag=f"{tag}/run/{solver}", features=dict(feats, solver=solver), kind="dde_run", model=model, solver=solver, T=2.0))
        if tag.split("-")[0] in ("H1", "H3", "H6"):
            out.append(dict(tag=f"{tag}/run-method-RK45/scipy", features=dict(feats, solver="scipy", method="RK45"), kind="dde_run", model=model,
                            solver="scipy", T=2.0, method="RK45"))
        # coarse sampling (sampling step larger than the delays): the history must still contain every accepted step
        out.append(dict(tag=f"{tag}/run-coarse/scipy", features=dict(feats, solver="scipy", coarse=True), kind="dde_run", model=model,
                        solver="scipy", T=2.0, dts=1.0))
    for vec in (False, True):
        out.append(dict(tag="H13-per-node-delay-parameter", features=dict(param_delay=True, vec=vec), kind="param_delay", vec=vec))
    return out


def param_delay_case(c):
    """past(x, d) with d a PARAMETER that differs between two nodes of one type: each node reads hist(t - its own d)."""
    import numpy as np
    from pyrates import OperatorTemplate, NodeTemplate, CircuitTemplate
    op = OperatorTemplate(name="dd", equations=["d/dt * x = -x + k*past(x, d)"], variables={"x": "output(0.6)", "k": 0.5, "d": 0.3}, path=None)
    n1 = NodeTemplate(name="n1", operators=[op], path=None)
    n2 = NodeTemplate(name="n2", operators={op: {"d": 0.7, "k": 1.5}}, path=None)
    tpl = CircuitTemplate(name="net", nodes={"a": n1, "b": n2})
    try:
        f, a, names, m = tpl.get_run_func("vf", step_size=1e-2, vectorize=c["vec"], verbose=False, float_precision="float64", file_name="pd_mod",
                                          solver="scipy")
    except Exception as exn:
        return dict(status="violated", fails=[dict(clause="get_run_func returns a function for a delayed model", observed=f"{type(exn).__name__}: {exn}")])
    hi = list(names).index("hist")

    def H(t):
        return np.array([np.sin(3 * t), np.cos(2 * t)])
    args = list(a)
    args[hi] = H
    fails = []
    for t, y in ((1.0, np.array([0.2, -0.4])), (2.5, np.array([-0.7, 0.1]))):
        got = np.array(f(t, y.copy(), *args[2:]), dtype=float).reshape(-1)
        want = np.array([-y[0] + 0.5 * H(t - 0.3)[0], -y[1] + 1.5 * H(t - 0.7)[1]])
        if got.shape != want.shape or not np.allclose(got, want, rtol=1e-9, atol=1e-12):
            fails.append(dict(clause="delayed terms read component x of hist(t - tau) with tau the node's OWN delay parameter", t=t,
                              observed=got.tolist(), expected=want.tolist()))
            break
    return dict(status="violated" if fails else "ok", fails=fails)


def case_fn(c):
    if c["kind"] == "param_delay":
        return param_delay_case(c)
    return cases.case_fn(c)


def main():
    chk = Check("C10", "other")
    # deductive core: the history object is the piecewise-linear interpolant with constant pre-history (DDEHistory contracts), and
    # the fixed-step loops append ((i+1)*dt, y_{i+1}) after every step (DDE variants of the solver-loop contracts)
    from checks.c03 import solver_fallback
    from checks import c19 as _c19
    chk.run_contracts("contracts.c19", fallback={"*": _c19.bounded(chk, "native-contracts-on-scripted-histories")})
    chk.run_contracts("contracts.c03", names=["BaseBackend._solve_euler[dde]", "BaseBackend._solve_heun[dde]"],
                      fallback={"*": solver_fallback(chk)})
    _cases = families(chk.tier, chk.seed)
    _results = driver.run_family(
        chk, "delayed-terms-vs-history", _cases, case_fn, site="C10/dde",
        rule="models with past(x, tau): one delay on the first variable, on the second variable, two delays on two variables, one "
             "variable at two delays, a product with a delayed factor, a negative coefficient; delayed edges (two delays from one "
             "source; a delayed and an undelayed sibling; a sibling delay below the step size; vectorize off and on) under an adaptive solver; (1) the compiled function called with a hand-made smooth history H(t): derivative == "
             "spec with component x of H(t - tau), t in time units for adaptive AND fixed-step code (step counter * dt); (2) run "
             "(scipy; thorough: euler, heun) against an RK4 method-of-steps reference with constant pre-history; distinct = (model, kind, solver)",
        sample_of=lambda c: {k: v for k, v in c.items() if k != "features"})
    driver.run_sequences(chk, "delayed-terms-vs-history-in-sequence", _cases, _results, case_fn, site="C10/dde",
                         limit=20 if chk.tier == "quick" else 120, seed=chk.seed)
    rc = chk.finish(
        explanation="Deductive core: DDEHistory returns the initial state before the start and the linear interpolant of the recorded "
                    "trajectory afterwards (class invariant + method contracts), and the fixed-step loops append ((i+1)*dt, y_{i+1}) "
                    "after every step through DDEHistory.update's contract. Bounded: the compiled function evaluates each delayed "
                    "term as component x of hist(t - tau) for hand-made histories; run() against a method-of-steps reference.",
        assumptions=["as for C19/C03 (floats as reals, one representative component, documented bisect_right / np.empty contracts)",
                     "spec_rhs with hist (harness)", "method-of-steps reference: RK4, h = 1e-3, linear history interpolation"])
    sys.exit(rc)


if __name__ == "__main__":
    main()
