"""C10 check: delayed terms read the true past (bounded); DDEHistory and the history feed are proved under C19 / C03."""
import os
import sys

HERE = os.path.dirname(os.path.dirname(os.path.abspath(__file__)))
sys.path.insert(0, HERE)

from vlib.harness import Check            # noqa: E402
from rtc import gen, driver, cases        # noqa: E402


def families(tier, seed):
    out = []
    for tag, feats, model in gen.dde_models():
        for solver in ("scipy", "euler"):
            if feats.get("edges") and solver == "euler":
                continue          # fixed-step delayed edges use the ring buffer (C09), not hist
            out.append(dict(tag=f"{tag}/field/{solver}", features=dict(feats, solver=solver), kind="dde_field", model=model, solver=solver, seed=seed))
        for solver in (("scipy", "euler") if tier == "quick" else ("scipy", "euler", "heun")):
            if feats.get("edges") and solver != "scipy":
                continue
            out.append(dict(tag=f"{tag}/run/{solver}", features=dict(feats, solver=solver), kind="dde_run", model=model, solver=solver, T=2.0))
        # coarse sampling (sampling step larger than the delays): the history must still contain every accepted step
        out.append(dict(tag=f"{tag}/run-coarse/scipy", features=dict(feats, solver="scipy", coarse=True), kind="dde_run", model=model,
                        solver="scipy", T=2.0, dts=1.0))
    return out


def main():
    chk = Check("C10", "exploration")
    driver.run_family(
        chk, "delayed-terms-vs-history", families(chk.tier, chk.seed), cases.case_fn, site="C10/dde",
        rule="models with past(x, tau): one delay on the first variable, on the second variable, two delays on two variables, one "
             "variable at two delays, a product with a delayed factor, a negative coefficient; delayed edges (two delays from one "
             "source) under an adaptive solver; (1) the compiled function called with a hand-made smooth history H(t): derivative == "
             "spec with component x of H(t - tau), t in time units for adaptive AND fixed-step code (step counter * dt); (2) run "
             "(scipy; thorough: euler, heun) against an RK4 method-of-steps reference with constant pre-history; distinct = (model, kind, solver)",
        sample_of=lambda c: {k: v for k, v in c.items() if k != "features"})
    rc = chk.finish(
        explanation="Bounded. The unbounded parts of C10 are discharged elsewhere: DDEHistory is the piecewise-linear interpolant "
                    "(C19, proof) and the fixed-step loops append ((i+1)*dt, y_{i+1}) after every step (C03, deductive).",
        assumptions=["spec_rhs with hist (harness)", "method-of-steps reference: RK4, h = 1e-3, linear history interpolation"])
    sys.exit(rc)


if __name__ == "__main__":
    main()
