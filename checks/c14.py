"""C14 check: read-only and copy-making operations leave a template unchanged (bounded)."""
import itertools
import os
import random
import sys

HERE = os.path.dirname(os.path.dirname(os.path.abspath(__file__)))
sys.path.insert(0, HERE)

from vlib.harness import Check            # noqa: E402
from rtc import gen, driver, cases, oracle   # noqa: E402


def models():
    ms = []
    c7 = {t: m for t, f, m, o in gen.c07_cases()}
    ms.append(("flat-shared-template", c7["U1-single-node-const"]))
    ms.append(("interleaved-templates", c7["U11-interleaved-templates-array"]))
    ms.append(("hierarchy", c7["U13-hierarchy-single"]))
    st = {t: m for t, f, m in gen.c01_structured()}
    ms.append(("per-node-overrides", st["F2-parallel-2"]))
    ms.append(("hierarchy-2", st["F7-hierarchy-2"]))
    # variables declared in the explicit dictionary form, ONE operator shared by the nodes of a hierarchy, overrides on some nodes
    ms.append(("dictvars-hierarchy", st["F7-hierarchy-1"]))
    # one edge template used by several edge groups, one edge overriding a parameter of the edge operator
    v5 = {t: m for t, f, m in gen.c04_extra()}["V5-edge-template-three-groups"]
    import json
    v5 = json.loads(json.dumps(v5))
    v5["edges"][3]["eover"] = {"gain": 3.0}
    ms.append(("edge-template-per-edge-override", v5))
    # a hierarchy whose sub-circuits contain EdgeTemplate edges with a string-valued attribute (a second edge input bound to a node
    # path that is relative to the sub-circuit)
    v10 = {t: m for t, f, m in gen.c04_extra()}["V10-edge-template-second-input-by-path-target-last"]
    ms.append(("hierarchy-edge-template-path-inputs",
               dict(ops={}, nodes={}, edges=[gen.edge("c1/b/lin/x", "c2/a/lin/s_in", 0.3)], circuits={"c1": v10, "c2": json.loads(json.dumps(v10))})))
    return ms


def families(tier, seed):
    rng = random.Random(seed)
    out = []
    ops = oracle.READ_ONLY_OPS
    for mtag, model in models():
        for op in ops:
            if op == "run_inputs" and mtag == "hierarchy-2":
                continue        # extrinsic inputs on a depth-2 hierarchy fail for an unrelated reason (see C08)
            out.append(dict(tag=f"{mtag}/{op}", features=dict(model=mtag, ops=[op]), kind="readonly", model=model, ops=[op], seed=seed,
                            dict_vars=mtag.startswith("dictvars")))
        if mtag == "flat-shared-template":
            # fixed witness of the listed finding KF-C14-state-values-cached-on-template (present in every run, whatever the seed)
            sq = ["run_inputs", "get_run_func"]
            out.append(dict(tag=f"{mtag}/{'+'.join(sq)}", features=dict(model=mtag, ops=sq), kind="readonly", model=model, ops=sq, seed=seed,
                            dict_vars=False))
        seqs = [list(p) for p in itertools.permutations(ops, 2)]
        rng.shuffle(seqs)
        seqs = [q for q in seqs if not ("run_inputs" in q and mtag == "hierarchy-2")]
        for sq in seqs[: (6 if tier == "quick" else 120)]:
            out.append(dict(tag=f"{mtag}/{'+'.join(sq)}", features=dict(model=mtag, ops=sq), kind="readonly", model=model, ops=sq, seed=seed,
                            dict_vars=mtag.startswith("dictvars")))
        if tier == "thorough":
            seq3 = [list(p) for p in itertools.permutations(ops, 3)]
            rng.shuffle(seq3)
            for sq in [q for q in seq3 if not ("run_inputs" in q and mtag == "hierarchy-2")][:100]:
                out.append(dict(tag=f"{mtag}/{'+'.join(sq)}", features=dict(model=mtag, ops=sq), kind="readonly", model=model, ops=sq, seed=seed))
    return out


def main():
    chk = Check("C14", "exploration")
    driver.run_family(
        chk, "read-only-operations-leave-template-unchanged", families(chk.tier, chk.seed), cases.case_fn, site="C14/read-only",
        rule="templates: three nodes sharing one NodeTemplate, two interleaved templates sharing operators, per-node overrides, "
             "hierarchies of depth 1 and 2 with reused sub-circuits; operations: get_nodes, get_edges, get_edge, collect_edges, "
             "get_node_template, __getitem__, to_yaml, deepcopy, update_template (not in place), get_run_func / get_jacobian_func / "
             "run with in_place=False; every single operation and seeded sequences of 2 (thorough: 3); after each operation a deep "
             "snapshot (equations, variable values, overrides, edges, sub-circuits) must be unchanged, afterwards the vector field "
             "equals the spec and run(in_place=False) twice is identical; distinct = (template, sequence)",
        sample_of=cases.sample_of)
    rc = chk.finish(
        explanation="Bounded: deep snapshots of the same in-memory template before/after each listed operation plus the C01 clauses afterwards.",
        assumptions=["snapshot_template (harness) reads the public attributes nodes/edges/circuits/operators/equations/variables"])
    sys.exit(rc)


if __name__ == "__main__":
    main()
