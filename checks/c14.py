"""C14 check: read-only and copy-making operations leave a template unchanged (bounded)."""
import itertools
import os
import random
import sys

HERE = os.path.dirname(os.path.dirname(os.path.abspath(__file__)))
sys.path.insert(0, HERE)

from vlib.harness import Check            # noqa: E402
from rtc import gen, driver, cases, oracle   # noqa: E402


def models():
    ms = []
    c7 = {t: m for t, f, m, o in gen.c07_cases()}
    ms.append(("flat-shared-template", c7["U1-single-node-const"]))
    ms.append(("interleaved-templates", c7["U11-interleaved-templates-array"]))
    ms.append(("hierarchy", c7["U13-hierarchy-single"]))
    st = {t: m for t, f, m in gen.c01_structured()}
    ms.append(("per-node-overrides", st["F2-parallel-2"]))
    ms.append(("hierarchy-2", st["F7-hierarchy-2"]))
    # variables declared in the explicit dictionary form, ONE operator shared by the nodes of a hierarchy, overrides on some nodes
    ms.append(("dictvars-hierarchy", st["F7-hierarchy-1"]))
    # one edge template used by several edge groups, one edge overriding a parameter of the edge operator
    v5 = {t: m for t, f, m in gen.c04_extra()}["V5-edge-template-three-groups"]
    import json
    v5 = json.loads(json.dumps(v5))
    v5["edges"][3]["eover"] = {"gain": 3.0}
    ms.append(("edge-template-per-edge-override", v5))
    # a hierarchy whose sub-circuits contain EdgeTemplate edges with a string-valued attribute (a second edge input bound to a node
    # path that is relative to the sub-circuit)
    v10 = {t: m for t, f, m in gen.c04_extra()}["V10-edge-template-second-input-by-path-target-last"]
    ms.append(("hierarchy-edge-template-path-inputs",
               dict(ops={}, nodes={}, edges=[gen.edge("c1/b/lin/x", "c2/a/lin/s_in", 0.3)], circuits={"c1": v10, "c2": json.loads(json.dumps(v10))})))
    return ms


POP_OPS = ["update_template_name", "update_template_description", "deepcopy", "get_nodes", "get_run_func", "get_jacobian_func", "run"]


def population_case(c):
    """A circuit built from PopulationTemplate / Connectivity objects: the read-only / copy-making operations leave its populations,
    connections and nodes as they were, and run(in_place=False) returns the same result afterwards."""
    import copy
    import numpy as np
    ps = c["ps"]
    tpl = oracle.build_population_circuit(ps)
    outs = {f"{p}.{o}": f"{p}/{o}/{[l for l, k, _ in ps['ops'][o]['eqs'] if k == 'de'][0]}" for p, pp in ps["pops"].items() for o in pp["ops"]}

    def snap():
        pops = {k: (id(v.node), v.n, {kk: np.asarray(vv, dtype=float).tolist() for kk, vv in (v.params or {}).items()}) for k, v in tpl.populations.items()}
        conns = [(cn.source, cn.target, np.asarray(cn.weights, dtype=float).tolist(), getattr(cn, "delays", None), getattr(cn, "spread", None))
                 for cn in tpl.connections]
        return dict(nodes=sorted(tpl.nodes), all_nodes=sorted(tpl.get_nodes(["all"])), populations=pops, connections=conns,
                    edges=len(tpl.edges), circuits=sorted(tpl.circuits))

    def sim():
        df = tpl.run(simulation_time=0.3, step_size=0.05, solver="euler", outputs=dict(outs), verbose=False, clear=True, in_place=False,
                     float_precision="float64")
        return np.asarray(df.values, dtype=float)
    fails = []
    try:
        s0, r0 = snap(), sim()
    except Exception as exn:
        return dict(status="skipped", fails=[], detail=dict(note=f"baseline: {type(exn).__name__}: {exn}"))
    kw = dict(step_size=1e-3, backend="default", verbose=False, float_precision="float64", in_place=False, clear=True)
    for op in c["ops"]:
        try:
            if op == "update_template_name":
                tpl.update_template(name="other_name")
            elif op == "update_template_description":
                tpl.update_template(description="a copy with another description")
            elif op == "deepcopy":
                copy.deepcopy(tpl)
            elif op == "get_nodes":
                tpl.get_nodes(["all"])
            elif op == "get_run_func":
                tpl.get_run_func("vf", vectorize=True, file_name="pop_ro", **kw)
            elif op == "get_jacobian_func":
                tpl.get_jacobian_func("jf", vectorize=True, file_name="pop_roj", **kw)
            elif op == "run":
                sim()
        except Exception as exn:
            fails.append(dict(clause=f"operation `{op}` on a population circuit succeeds", observed=f"{type(exn).__name__}: {exn}"))
            break
        s1 = snap()
        if s1 != s0:
            diff = {k: dict(before=s0[k], after=s1[k]) for k in s0 if s0[k] != s1[k]}
            fails.append(dict(clause=f"`{op}` leaves the populations, connections and nodes of the template unchanged", observed=str(diff)[:600]))
            break
    if not fails:
        try:
            r1 = sim()
            if r1.shape != r0.shape or not np.allclose(r1, r0, rtol=0, atol=1e-12):
                fails.append(dict(clause=f"run(in_place=False) returns the same result after {'+'.join(c['ops'])}", observed=r1[-1].tolist(), expected=r0[-1].tolist()))
        except Exception as exn:
            fails.append(dict(clause=f"run(in_place=False) still works after {'+'.join(c['ops'])}", observed=f"{type(exn).__name__}: {exn}"))
    return dict(status="violated" if fails else "ok", fails=fails[:2])


def case_fn(c):
    if c.get("kind") == "population_readonly":
        return population_case(c)
    return cases.case_fn(c)


def families(tier, seed):
    rng = random.Random(seed)
    out = []
    ops = oracle.READ_ONLY_OPS
    for mtag, model in models():
        for op in ops:
            if op == "run_inputs" and mtag == "hierarchy-2":
                continue        # extrinsic inputs on a depth-2 hierarchy fail for an unrelated reason (see C08)
            out.append(dict(tag=f"{mtag}/{op}", features=dict(model=mtag, ops=[op]), kind="readonly", model=model, ops=[op], seed=seed,
                            dict_vars=mtag.startswith("dictvars")))
        if mtag == "flat-shared-template":
            # fixed witness of the listed finding KF-C14-state-values-cached-on-template (present in every run, whatever the seed)
            sq = ["run_inputs", "get_run_func"]
            out.append(dict(tag=f"{mtag}/{'+'.join(sq)}", features=dict(model=mtag, ops=sq), kind="readonly", model=model, ops=sq, seed=seed,
                            dict_vars=False))
        seqs = [list(p) for p in itertools.permutations(ops, 2)]
        rng.shuffle(seqs)
        seqs = [q for q in seqs if not ("run_inputs" in q and mtag == "hierarchy-2")]
        for sq in seqs[: (6 if tier == "quick" else 120)]:
            out.append(dict(tag=f"{mtag}/{'+'.join(sq)}", features=dict(model=mtag, ops=sq), kind="readonly", model=model, ops=sq, seed=seed,
                            dict_vars=mtag.startswith("dictvars")))
        if tier == "thorough":
            seq3 = [list(p) for p in itertools.permutations(ops, 3)]
            rng.shuffle(seq3)
            for sq in [q for q in seq3 if not ("run_inputs" in q and mtag == "hierarchy-2")][:100]:
                out.append(dict(tag=f"{mtag}/{'+'.join(sq)}", features=dict(model=mtag, ops=sq), kind="readonly", model=model, ops=sq, seed=seed))
    # a circuit built from PopulationTemplate / Connectivity objects
    c16 = {t: ps for t, f, ps in gen.c16_cases(seed)}
    for ptag in ("P1-single-pop-n3-signed-sparse", "P2-two-pops-nonsquare-signed"):
        if ptag not in c16:
            continue
        for op in POP_OPS:
            out.append(dict(tag=f"population-{ptag.split('-')[0]}/{op}", features=dict(model="population", ops=[op]), kind="population_readonly",
                            ps=c16[ptag], ops=[op]))
        sq = [list(p) for p in itertools.permutations(POP_OPS, 2)]
        rng.shuffle(sq)
        for q in sq[: (4 if tier == "quick" else 40)]:
            out.append(dict(tag=f"population-{ptag.split('-')[0]}/{'+'.join(q)}", features=dict(model="population", ops=q), kind="population_readonly",
                            ps=c16[ptag], ops=q))
    return out


def main():
    chk = Check("C14", "other")
    # deductive core: frame (ownership) contracts of the functions this property rests on (contracts/frames.py)
    chk.run_frames()
    driver.run_family(
        chk, "read-only-operations-leave-template-unchanged", families(chk.tier, chk.seed), case_fn, site="C14/read-only",
        rule="templates: three nodes sharing one NodeTemplate, two interleaved templates sharing operators, per-node overrides, "
             "hierarchies of depth 1 and 2 with reused sub-circuits, circuits built from PopulationTemplate / Connectivity objects; operations: get_nodes, get_edges, get_edge, collect_edges, "
             "get_node_template, __getitem__, to_yaml, deepcopy, update_template (not in place), get_run_func / get_jacobian_func / "
             "run with in_place=False; every single operation and seeded sequences of 2 (thorough: 3); after each operation a deep "
             "snapshot (equations, variable values, overrides, edges, sub-circuits) must be unchanged, afterwards the vector field "
             "equals the spec and run(in_place=False) twice is identical; distinct = (template, sequence)",
        sample_of=cases.sample_of)
    rc = chk.finish(
        explanation="Bounded: deep snapshots of the same in-memory template before/after each listed operation plus the C01 clauses afterwards.",
        assumptions=["snapshot_template (harness) reads the public attributes nodes/edges/circuits/operators/equations/variables"])
    sys.exit(rc)


if __name__ == "__main__":
    main()
