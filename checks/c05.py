"""C05 check: the equation language means what its arithmetic says — both evaluation paths (bounded)."""
import os
import random
import sys

HERE = os.path.dirname(os.path.dirname(os.path.abspath(__file__)))
sys.path.insert(0, HERE)

from vlib.harness import Check            # noqa: E402
from rtc import gen, driver, cases        # noqa: E402


def array_cases():
    """(equation, python expression of the expected value over A (3x4), w (4,), v (4,), x, a) — vectors and matrices."""
    return [
        ("d/dt * x = vsum(w)", "np.sum(w)"),
        ("d/dt * x = vsum(A)", "np.sum(A)"),
        ("d/dt * v = vsum(A) - v", "np.sum(A) - v"),
        ("d/dt * x = mean(w) + x", "np.mean(w) + x"),
        ("d/dt * x = a*index(w, 2) + x", "a*w[2] + x"),
        ("d/dt * x = index_2d(A, 1, 2) * x", "A[1, 2]*x"),
        ("d/dt * x = vsum(index_range(w, 1, 3)) - x", "np.sum(w[1:3]) - x"),
        ("d/dt * x = vsum(index_axis(A, 1, 1))", "np.sum(A[:, 1])"),
        ("d/dt * x = vsum(index(A, 1))", "np.sum(A[1])"),
        ("d/dt * v = w*a - v", "w*a - v"),
        ("d/dt * v = index(A, 2) + v*a", "A[2] + v*a"),
        ("d/dt * v = tanh(w)*sin(v)^2", "np.tanh(w)*np.sin(v)**2"),
        ("d/dt * x = mean(vsum(A)) - x", "np.mean(np.sum(A)) - x"),
        ("d/dt * x = a - index(w, 2)", "a - w[2]"),
        # index_axis along the FIRST axis (rows) and the second (columns), on a non-square and on a square matrix
        ("d/dt * v = index_axis(A, 2, 0) + v*a", "A[2] + v*a"),
        ("d/dt * v = index_axis(Mq, 1, 0) - v", "Mq[1] - v"),
        ("d/dt * v = index_axis(Mq, 1, 1) - v", "Mq[:, 1] - v"),
        ("d/dt * x = vsum(index_axis(A, 0, 0)) - x", "np.sum(A[0]) - x"),
    ]


def array_case(c):
    import numpy as np
    from copy import deepcopy
    from pyrates.backend.parser import parse_equations
    from pyrates.backend.computegraph import ComputeGraph

    def VV(value, vtype="constant", dtype="float64"):
        value = np.asarray(value, dtype=dtype)
        return {"vtype": vtype, "value": value, "dtype": dtype, "shape": value.shape}
    rng = np.random.default_rng(c["seed"])
    A = np.round(rng.uniform(-2, 2, size=(3, 4)), 2)
    w = np.round(rng.uniform(-2, 2, size=4), 2)
    v = np.round(rng.uniform(-1, 1, size=4), 2)
    x, a = 0.3, 1.7
    Mq = np.round(rng.uniform(-2, 2, size=(4, 4)), 2)
    ARGS = {"n/op/Mq": VV(Mq), "n/op/A": VV(A), "n/op/w": VV(w), "n/op/v": VV(v, "state_var"), "n/op/x": VV(x, "state_var"), "n/op/a": VV(a)}
    want = np.asarray(eval(c["expected"], dict(np=np, A=A, Mq=Mq, w=w, v=v, x=x, a=a)), dtype=float).ravel()
    fails = []
    try:
        cg = ComputeGraph(backend="default")
        parse_equations([(c["eq"], "n/op")], deepcopy(ARGS), cg=cg, def_shape=())
        direct = np.asarray(cg.eval_nodes(cg.var_updates["DEs"].values())[0], dtype=float).ravel()
        if direct.shape != want.shape or not np.allclose(direct, want, rtol=2e-5, atol=2e-6):
            fails.append(dict(clause="direct evaluation of the parsed expression equals the NumPy value (arrays)", expr=c["eq"],
                              observed=direct.tolist(), expected=want.tolist()))
    except Exception as exn:
        fails.append(dict(clause="expression parses and evaluates (direct evaluation path, arrays)", expr=c["eq"], observed=f"{type(exn).__name__}: {exn}"))
    try:
        cg2 = ComputeGraph(backend="default")
        parse_equations([(c["eq"], "n/op")], deepcopy(ARGS), cg=cg2, def_shape=())
        func, fargs, _, _ = cg2.to_func("rhs_func", to_file=False)
        gen_ = np.array(func(*fargs), dtype=float).ravel()
        if gen_.shape != want.shape or not np.allclose(gen_, want, rtol=2e-5, atol=2e-6):
            fails.append(dict(clause="generated code evaluates to the NumPy value (arrays)", expr=c["eq"], observed=gen_.tolist(), expected=want.tolist()))
    except Exception as exn:
        fails.append(dict(clause="generated code can be produced and called (arrays)", expr=c["eq"], observed=f"{type(exn).__name__}: {exn}"))
    return dict(status="violated" if fails else "ok", fails=fails[:2])


def dispatch(c):
    if c["kind"] == "lookup_interp":
        from checks import c02 as _c02
        return _c02.lookup_interp_case(c)
    if c["kind"] == "array_expr":
        return array_case(c)
    return cases.case_fn(c)


def families(tier, seed):
    out = []
    n, depth = (60, 4) if tier == "quick" else (700, 6)
    models = gen.c05_models(seed, n, depth) + gen.c05_models(seed + 1, n // 3, 2)
    rng = random.Random(seed)
    for tag, feats, model in models:
        from rtc import mdl as _mdl
        feats = dict(feats, **_mdl.tree_features(model["ops"]["eo"]["eqs"][0][2], seed))
        styles = (0, 1, 2, 3) if tier == "thorough" else (rng.choice([0, 1]), rng.choice([2, 3]))
        for st in styles:
            out.append(dict(tag=f"{tag}/code/s{st}", features=dict(feats, style=st, path="code"), kind="field", model=model, vec=False,
                            seed=seed + 7, style=st, n_states=3, n_param_draws=1))
        op = model["ops"]["eo"]
        tree = op["eqs"][0][2]
        vals = {k: (v[1] if v[0] == "const" else round(rng.uniform(-1, 1), 3)) for k, v in op["vars"].items()}
        out.append(dict(tag=f"{tag}/eval", features=dict(feats, path="eval"), kind="expr_eval", tree=tree, values=vals, style=rng.choice([0, 1, 2, 3])))
    # the generated source code of the compiled backend: the same value as the arithmetic (expressions that call the documented functions,
    # whose Fortran bodies are emitted as source text next to the equations)
    import json as _json
    n_f = 0
    with_calls = [(t_, f_, m_) for t_, f_, m_ in models if '"call"' in _json.dumps(m_["ops"]["eo"]["eqs"][0][2])]
    with_calls.sort(key=lambda x: '"sigmoid"' not in _json.dumps(x[2]["ops"]["eo"]["eqs"][0][2]))        # the functions with a hand-written Fortran body first
    for tag, feats, model in with_calls:
        tf = _mdl.tree_features(model["ops"]["eo"]["eqs"][0][2], seed)
        if n_f < (4 if tier == "quick" else 16) and not tf.get("const_call_funcs") and not tf.get("nested_same_function"):
            n_f += 1
            out.append(dict(tag=f"{tag}/code/fortran", features=dict(feats, path="code", backend="fortran"), kind="field", model=model, vec=False,
                            seed=seed + 7, style=0, n_states=3, n_param_draws=1, backend="fortran"))
    # fixed witness (fixed defect: the Fortran module declared PI = 4.0*atan(1.0), a single-precision value in a double-precision model)
    for cname in ("pi",):        # (the constant E is a listed finding of its own on every backend)
        wm = dict(ops={"eo": dict(name="eo", eqs=[["x", "de", ["+", ["/", ["var", cname], ["+", ["num", 2.0], ["var", "a"]]], ["var", "x"]]]],
                                  vars={"x": ["output", 0.21], "a": ["const", 1.06]})}, nodes={"p": dict(ops=["eo"])}, edges=[])
        out.append(dict(tag=f"W-constant-{cname}/code/fortran", features=dict(path="code", backend="fortran", constant=cname), kind="field", model=wm, vec=False,
                        seed=seed + 7, style=0, n_states=3, n_param_draws=1, backend="fortran"))
    # fixed witness of a listed finding: decimal literals of an equation in the generated Fortran code (single precision)
    wl = dict(ops={"eo": dict(name="eo", eqs=[["x", "de", ["-", ["num", 0.7], ["*", ["num", 0.1], ["var", "x"]]]]], vars={"x": ["output", 0.21]})},
              nodes={"p": dict(ops=["eo"])}, edges=[])
    out.append(dict(tag="W-literal-0.1/code/fortran", features=dict(path="code", backend="fortran", literal=0.1), kind="field", model=wl, vec=False,
                    seed=seed + 7, style=0, n_states=3, n_param_draws=1, backend="fortran"))
    # sequences of expressions in one process (direct evaluation): random batches, and pairs whose non-commutative node has compound
    # operands of different kinds with the longer operand on opposite sides
    # (expressions with the structure of a listed finding — a function of numerically constant arguments, a function nested in
    #  itself — fail on their own and are left out of the batches)
    singles = [c for c in out if c["kind"] == "expr_eval" and not c["features"].get("const_call_funcs")
               and not c["features"].get("nested_same_function")]
    for b in range(3 if tier == "quick" else 12):
        chunk = singles[b::(3 if tier == "quick" else 12)][:15]
        out.append(dict(tag=f"eval-sequence-{b}", features=dict(path="eval", sequence=True), kind="expr_eval_seq",
                        items=[(c["tree"], c["values"], c["style"]) for c in chunk]))
    V_ = lambda n: ["var", n]
    mul = lambda *xs: xs[0] if len(xs) == 1 else ["*", mul(*xs[:-1]), xs[-1]]
    add = lambda *xs: xs[0] if len(xs) == 1 else ["+", add(*xs[:-1]), xs[-1]]
    a_, b_, c_, v_ = V_("a"), V_("b"), V_("c"), V_("v")
    pos = dict(a=1.3, b=0.7, c=1.9, v=0.6)
    pairs = [
        ("pow-mul-add", [["^", mul(a_, b_, c_, v_), add(a_, b_)], ["^", mul(a_, v_), add(a_, b_, c_, v_)]]),
        ("pow-add-mul", [["^", add(a_, b_, c_, v_), mul(a_, v_)], ["^", add(a_, b_), mul(a_, b_, c_, v_)]]),
        ("pow-call-add", [["^", ["call", "exp", mul(a_, b_, c_)], add(a_, v_)], ["^", ["call", "exp", a_], add(a_, b_, c_, v_)]]),
        ("pow-mul-add-swapped-roles", [["^", add(a_, b_), mul(a_, b_, c_, v_)], ["^", mul(a_, v_), add(a_, b_, c_, v_)], ["^", mul(a_, b_, c_, v_), add(a_, b_)]]),
    ]
    for name, trees in pairs:
        for st in (0, 1):
            out.append(dict(tag=f"eval-pair-{name}/s{st}", features=dict(path="eval", sequence=True), kind="expr_eval_seq",
                            items=[(t, pos, st) for t in trees]))
    for tag, feats, model in gen.c05_structured():
        for st in (0, 1):
            out.append(dict(tag=f"{tag}/code/s{st}", features=dict(feats, path="code", style=st), kind="field", model=model, vec=False, seed=seed + 3,
                            style=st, n_states=3, n_param_draws=1))
        op = model["ops"]["eo"]
        vals = {k: (v[1] if v[0] == "const" else 0.45) for k, v in op["vars"].items()}
        out.append(dict(tag=f"{tag}/eval", features=dict(feats, path="eval"), kind="expr_eval", tree=op["eqs"][0][2], values=vals, style=0))
    # the documented functions at negative, zero and positive arguments, direct evaluation on every Python backend (each backend
    # brings its own table of stand-in functions for this path)
    for b in ("default", "jax", "torch"):
        for fn in gen.C05_FUNCS1:
            for xv in (-1.7, -0.3, 0.0, 0.45, 2.1):
                tree = ["+", ["call", fn, V_("a")], ["*", V_("b"), ["call", fn, ["neg", V_("a")]]]]
                out.append(dict(tag=f"fn-table/{fn}/{xv}/{b}", features=dict(path="eval", fn=fn, backend=b), kind="expr_eval", tree=tree,
                                values=dict(a=xv, b=0.5), style=0, backend=b))
        for fn in gen.C05_FUNCS2:
            for xv in (-1.7, 0.45):
                out.append(dict(tag=f"fn-table/{fn}/{xv}/{b}", features=dict(path="eval", fn=fn, backend=b), kind="expr_eval",
                                tree=["call", fn, V_("a"), V_("b")], values=dict(a=xv, b=0.5), style=0, backend=b))
    for tag, feats, model in gen.c05_witnesses():
        from rtc import mdl as _mdl
        feats = dict(feats, **_mdl.tree_features(model["ops"]["eo"]["eqs"][0][2], seed))
        out.append(dict(tag=tag, features=dict(feats, path="code"), kind="field", model=model, vec=False, seed=seed, style=0))
    # operator inputs rewritten textually (summed multi-source inputs), incl. as the last token of the equation
    for tag, feats, model in gen.c01_structured():
        if tag.startswith(("F3-", "F10-")):
            out.append(dict(tag=tag, features=dict(feats, path="code"), kind="field", model=model, vec=False, seed=seed, style=0))
    # interp(x, grid, values) as a lookup table on a non-uniform grid, queried inside, at and outside the grid (generated code of the
    # Python backends; C02 runs the same on Fortran)
    for b in ("default", "torch", "jax"):
        out.append(dict(tag=f"lookup-interp-nonuniform-grid/{b}", features=dict(path="code", backend=b, lookup_interp=True), kind="lookup_interp", backend=b))
    for i, (eq, exp) in enumerate(array_cases()):
        out.append(dict(tag=f"A{i}", features=dict(eq=eq), kind="array_expr", eq=eq, expected=exp, seed=seed + i))
    return out


def main():
    chk = Check("C05", "other")
    # deductive core: names that sympy would resolve to a constant / singleton / function class (pi, E, I, beta, exp, ...) and
    # names with the parts of generated variables are refused by check_vname, so they can never silently evaluate to something else
    from checks import c20 as _c20
    cache = {}

    def vn():
        if "r" not in cache:
            cache["r"] = [dict(f, site="C05/check_vname") for f in _c20.vname_native(chk)]
        return cache["r"]
    chk.run_contracts("contracts.c20", names=["check_vname"], fallback={"*": vn})
    for f in vn():
        chk.report_failure(f)
    _cases = families(chk.tier, chk.seed)
    _results = driver.run_family(
        chk, "expression-trees-both-paths", _cases, dispatch, site="C05/expressions",
        rule="seeded random expression trees (depth <= 4 quick / 6 thorough) over + - * / ** and ^, unary minus, nested calls of sin "
             "cos tanh exp sigmoid absv arctan sinh cosh maxi mini, pi, literals (plus a fixed list of shapes: sums of quotients whose terms "
             "print to the same length, pairs of functions whose names are prefixes of one another in both orders), over identifier sets whose names are prefixes / "
             "suffixes of one another or look generated (r/rr, r_in/r_in0, x_v1, weight, m_in2, tau/taux); each tree rendered in "
             "styles {minimal parentheses, x' and ^, no spaces, fully parenthesised}; (1) as the one-equation operator x' = <expr> "
             "through get_run_func at 3 states x 2 parameter draws, (2) through ExpressionParser + eval_node, singly and as sequences of expressions "
             "in one process (random batches; pairs of general powers whose operands are compound and of different kinds with the longer "
             "one on opposite sides); value == direct evaluation of the tree with NumPy float64; distinct = (tree, style, path)",
        sample_of=lambda c: {k: v for k, v in c.items() if k not in ("features",)}, timeout=90)
    driver.run_sequences(chk, "expression-trees-both-paths-in-sequence", _cases, _results, dispatch, site="C05/expressions",
                         limit=20 if chk.tier == "quick" else 120, seed=chk.seed)
    rc = chk.finish(
        explanation="Deductive core: check_vname raises exactly on the reserved names (sympy constants / singletons / function classes, "
                    "PyRates-internal slots) and on names containing a reserved part, for every string. Bounded: both evaluation paths "
                    "against a tree evaluator that never sees the equation string.",
        assumptions=["rtc.mdl.ev / to_str (harness; to_str is self-tested against Python's own evaluation)",
                     "vector/matrix expressions (vsum, mean, index, index_range, index_axis, index_2d) come from a fixed table, not from the random generator, and run through parse_equations/to_func at the compute graph's default float32 precision (tolerance 2e-5)"])
    sys.exit(rc)


if __name__ == "__main__":
    main()
