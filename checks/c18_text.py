"""C18 tier B: text-level consistency contract on the files emitted for auto-07p (bounded).

The generated <file>.f90 and c.* files are parsed; clauses:
  slots      pairwise distinct, outside 11..14, in DECLARATION order of the model's parameters
  same slot  parnames[k] == p  <=>  STPNT writes args(k) with p's value  <=>  the call forwards args(k) at p's position in the
             subroutine signature  <=>  the DFDP column of p is k
  states     unames / y(i) follow the state layout with the declared initial values;  NDIM, NPAR
  field      the emitted dy(i) expressions, DFDU and DFDP evaluate (as arithmetic) to the model's vector field and its partial
             derivatives (central differences of the spec)
"""
import re

import numpy as np

from rtc import gen, driver, mdl
from rtc.mdl import N, V


def auto_models(seed):
    """Scalar one-node models with n parameters (crossing 9/10/15), declaration order != first-use order."""
    rng = np.random.default_rng(seed)
    out = []
    for n in (3, 9, 10, 11, 12, 16, 25):
        names = [f"k{i}" for i in range(1, n + 1)]
        half = max(1, n // 2)
        # first equation uses the LAST-declared half in reverse order, second equation the first half (first use != declaration)
        t1 = None
        for nm in reversed(names[half:]):
            term = ["*", V(nm), V("x2")]
            t1 = term if t1 is None else ["+", t1, term]
        t1 = ["-", t1 if t1 is not None else N(0.0), V("x1")]
        t2 = None
        for nm in names[:half]:
            term = V(nm)
            t2 = term if t2 is None else ["+", t2, term]
        t2 = ["-", ["*", V("x1"), t2], V("x2")]
        vars_ = {"x1": ["output", 0.9], "x2": ["state", 0.5]}
        for i, nm in enumerate(names):
            vars_[nm] = ["const", round(0.1 * (i + 1) + float(rng.integers(0, 9)) * 0.01, 3)]
        op = dict(name="opx", eqs=[["x1", "de", t1], ["x2", "de", t2]], vars=vars_)
        out.append((f"AU-{n}-params", dict(n_params=n), gen.model([op], {"p": dict(ops=["opx"])})))
        if n in (3, 12):
            # the differential equations are listed in the opposite order of the declaration of the states
            op2 = dict(name="opx", eqs=[["x2", "de", t2], ["x1", "de", t1]], vars=vars_)
            out.append((f"AU-{n}-params-equations-reversed", dict(n_params=n, reversed=True), gen.model([op2], {"p": dict(ops=["opx"])})))
    # values with many decimals / small magnitudes (STPNT must carry the model's values, not a rounded spelling of them)
    small = dict(name="opx", eqs=[["x1", "de", ["-", ["*", V("k1"), V("x2")], ["*", V("k3"), V("x1")]]],
                                  ["x2", "de", ["-", ["*", V("k2"), V("x1")], V("x2")]]],
                 vars={"x1": ["output", 0.912345678912], "x2": ["state", 2.0 ** -13], "k1": ["const", 2.0 ** -20], "k2": ["const", 0.123456789012],
                       "k3": ["const", 1234.5678912345]})
    out.append(("AU-small-and-long-values", dict(n_params=3, small=True), gen.model([small], {"p": dict(ops=["opx"])})))
    # single-letter parameter names, among them letters of the names the generator uses itself (`dy`, `t`, `y`)
    sl = dict(name="opx", eqs=[["x1", "de", ["+", ["-", ["*", V("d"), V("x2")], ["*", V("e"), V("x1")]], V("g")]],
                               ["x2", "de", ["-", ["*", V("a"), V("x1")], V("x2")]]],
              vars={"x1": ["output", 0.9], "x2": ["state", 0.5], "a": ["const", 0.7], "d": ["const", 1.3], "e": ["const", 0.4], "g": ["const", 0.25]})
    out.append(("AU-single-letter-parameter-names", dict(n_params=4), gen.model([sl], {"p": dict(ops=["opx"])})))
    # a second-order system: the FIRST equation has no parameter at all, the second has three
    so = dict(name="opx", eqs=[["x1", "de", V("x2")],
                               ["x2", "de", ["+", ["-", ["neg", ["*", V("k1"), V("x1")]], ["*", V("k2"), V("x2")]], V("k3")]]],
              vars={"x1": ["output", 0.9], "x2": ["state", 0.5], "k1": ["const", 1.3], "k2": ["const", 0.4], "k3": ["const", 0.25]})
    out.append(("AU-second-order-parameter-free-first-equation", dict(n_params=3), gen.model([so], {"p": dict(ops=["opx"])})))
    so3 = dict(name="opx", eqs=[["x1", "de", ["*", V("k1"), V("x2")]], ["x2", "de", V("x3")],
                                ["x3", "de", ["-", ["*", V("k2"), V("x1")], ["*", V("k3"), V("x3")]]]],
               vars={"x1": ["output", 0.9], "x2": ["state", 0.5], "x3": ["state", -0.2], "k1": ["const", 1.3], "k2": ["const", 0.4], "k3": ["const", 0.25]})
    out.append(("AU-parameter-free-middle-equation", dict(n_params=3), gen.model([so3], {"p": dict(ops=["opx"])})))
    # boundary-value export: two parameters that only the boundary / integral residuals read, each named in TWO residuals; ten parameters
    # in all, so the extra ones land beyond the reserved range
    bv = dict(name="opx", eqs=[["x1", "de", ["*", V("k1"), ["+", V("x2"), ["*", ["*", V("k2"), V("k3")], V("x1")]]]],
                               ["x2", "de", ["+", ["*", V("k1"), ["-", ["*", V("k5"), V("x2")], ["*", V("k4"), V("x1")]]], ["*", V("k6"), ["*", V("k7"), V("k8")]]]]],
              vars={"x1": ["output", 0.25], "x2": ["state", 0.1], "k1": ["const", 6.5], "k2": ["const", 0.1], "k3": ["const", -0.2], "k4": ["const", 1.0],
                    "k5": ["const", 0.5], "k6": ["const", 0.3], "k7": ["const", 0.4], "k8": ["const", 1.25], "amp": ["const", 2.0], "intval": ["const", 0.75]})
    out.append(("AU-bvp-extra-parameters-in-two-residuals", dict(n_params=10, bvp=True,
                                                                  extra_kw=dict(auto_constants=("bvp", "lc"),
                                                                                boundary_conditions=["u1_x1 - u0_x1", "u1_x2 - u0_x2", "u0_x1 - par_amp"],
                                                                                integral_constraints=["u_x1*u_x1 + u_x2*u_x2 - par_intval*par_amp",
                                                                                                      "u_x1*upold_x1 + u_x2*upold_x2 - par_intval"])),
                gen.model([bv], {"p": dict(ops=["opx"])})))
    return out


def _py(expr, A, Y):
    e = re.sub(r"args\((\d+)\)", lambda m: f"A[{m.group(1)}]", expr)
    e = re.sub(r"\by\((\d+)\)", lambda m: f"Y[{m.group(1)}]", e)
    e = re.sub(r"(\d)d0\b", r"\1", e)
    return eval(e, {"A": A, "Y": Y, "sin": np.sin, "cos": np.cos, "exp": np.exp, "tanh": np.tanh, "sqrt": np.sqrt, "abs": abs,
                    "PI": np.pi, "pi": np.pi})


def case_fn(c):
    import os
    os.environ["PATH"] = "/venv/bin:" + os.environ.get("PATH", "")
    model = c["model"]
    op = model["ops"]["opx"]
    declared = [v for v, (vt, _) in op["vars"].items() if vt == "const"]
    values = {v: d for v, (vt, d) in op["vars"].items()}
    for pre in c.get("pre_models", []):
        # earlier exports into the SAME directory under the same file name (their files stay on disk; only the in-memory caches are reset)
        from pyrates import clear_frontend_caches
        try:
            mdl.build_templates(pre).get_run_func("vfx", step_size=1e-3, file_name="auto_mod", backend="fortran", float_precision="float64", auto=True,
                                                  vectorize=False, solver="scipy", verbose=False)
        except Exception:
            pass
        clear_frontend_caches()
    tpl = mdl.build_templates(model)
    try:
        tpl.get_run_func("vfx", step_size=1e-3, file_name="auto_mod", backend="fortran", float_precision="float64", auto=True,
                         vectorize=False, solver="scipy", verbose=False, **c.get("features", {}).get("extra_kw", {}))
    except Exception as exn:
        if not os.path.exists("auto_mod.f90"):
            return dict(status="violated", fails=[dict(clause="auto-07p export writes its files", observed=f"{type(exn).__name__}: {exn}")])
    src = open("auto_mod.f90").read().replace("&\n     &", " ").replace("&\n", " ")
    src = re.sub(r"&\s*\n\s*&", " ", src)
    cfile = open("c.ivp" if os.path.exists("c.ivp") else sorted(f_ for f_ in os.listdir(".") if f_.startswith("c."))[0]).read()
    fails = []

    def fail(clause, **kw):
        fails.append(dict(clause=clause, **kw))
    parnames = {int(k): v for k, v in re.findall(r"(\d+)\s*:\s*'([^']+)'", re.search(r"parnames\s*=\s*\{([^}]*)\}", cfile).group(1))}
    unames = {int(k): v for k, v in re.findall(r"(\d+)\s*:\s*'([^']+)'", re.search(r"unames\s*=\s*\{([^}]*)\}", cfile).group(1))}
    ndim = int(re.search(r"NDIM\s*=\s*(\d+)", cfile).group(1))
    npar = int(re.search(r"NPAR\s*=\s*(\d+)", cfile).group(1))
    slots = sorted(parnames)
    if len(set(parnames.values())) != len(parnames) or sorted(parnames.values()) != sorted(declared):
        fail("auto: parnames names exactly the model's parameters, each once", observed=parnames, expected=declared)
        return dict(status="violated", fails=fails[:2])
    if any(11 <= s <= 14 for s in slots):
        fail("auto: parameter slots avoid PAR(11)..PAR(14)", observed=slots)
    if [parnames[s] for s in slots] != declared:
        fail("auto: parameter slots follow the declaration order of the model's parameters", observed=[parnames[s] for s in slots], expected=declared)
    slot_of = {v: k for k, v in parnames.items()}
    # subroutine signature and the forwarding call
    sig = re.search(r"subroutine vfx\(([^)]*)\)", src).group(1).replace(" ", "").split(",")
    call = re.search(r"call vfx\((.*?)\)\s*\n", src, re.S).group(1)
    call_args = [a.strip() for a in re.sub(r"\s+", " ", call).split(",")]
    if len(sig) != len(call_args):
        fail("auto: the call forwards one argument per subroutine parameter", observed=[sig, call_args])
    else:
        for name, arg in zip(sig[3:], call_args[3:]):
            m = re.fullmatch(r"args\((\d+)\)", arg)
            if not m or name not in slot_of or int(m.group(1)) != slot_of[name]:
                fail("auto: the call forwards PAR(slot of p) at p's position in the subroutine signature", var=name,
                     observed=arg, expected=f"args({slot_of.get(name)})")
                break
    # STPNT
    st = src[src.index("subroutine stpnt"):src.index("end subroutine stpnt")]
    for k, val, name in re.findall(r"args\((\d+)\)\s*=\s*([^!\n]+?)\s*!\s*(\S+)", st):
        if name not in slot_of or int(k) != slot_of[name] or abs(float(val.replace("d", "e")) - values[name]) > 1e-12 * abs(values[name]) + 1e-300:
            fail("auto: STPNT writes every parameter's value into its own slot", var=name, observed=f"args({k}) = {val}",
                 expected=f"args({slot_of.get(name)}) = {values.get(name)}")
            break
    ystp = {int(i): (float(val.replace("d", "e")), name) for i, val, name in re.findall(r"\by\((\d+)\)\s*=\s*([^!\n]+?)\s*!\s*(\S+)", st)}
    if len(re.findall(r"args\(\d+\)\s*=", st)) != len(declared):
        fail("auto: STPNT initialises every parameter exactly once", observed=len(re.findall(r"args\(\d+\)\s*=", st)), expected=len(declared))
    states = [l for l, k, _ in op["eqs"] if k == "de"]
    for i, (val, name) in ystp.items():
        if unames.get(i) != name or abs(val - values[name]) > 1e-12 * abs(values[name]) + 1e-300:
            fail("auto: unames / STPNT y(i) follow the state layout with the declared initial values", var=name,
                 observed=dict(unames=unames.get(i), y=val), expected=values[name])
    body0 = src[src.index("subroutine vfx"):src.index("end subroutine")]
    read = {int(i): nm for nm, i in re.findall(r"^\s*(\w+)\s*=\s*y\((\d+)\)\s*$", body0, re.M)}
    for i, nm in read.items():
        if unames.get(i) != nm:
            fail("auto: unames(i) names the state variable the vector field reads from y(i)", var=nm, observed=unames.get(i), expected=nm)
            break
    if ndim != len(states) or sorted(unames.values()) != sorted(states):
        fail("auto: NDIM and unames match the model's state variables", observed=dict(NDIM=ndim, unames=unames), expected=states)
    if npar < max(slots) or npar > max(max(slots), 36):
        fail("auto: NPAR covers every used slot", observed=npar, expected=f">= {max(slots)}")
    if fails:
        return dict(status="violated", fails=fails[:2])
    # the exported field, DFDU and DFDP as arithmetic
    rng = np.random.default_rng(c["seed"])
    body = src[src.index("subroutine vfx"):src.index("end subroutine")]
    fsrc = src[src.index("subroutine func"):src.index("end subroutine func")]
    pos = {name: i for i, name in unames.items()}
    for _ in range(2):
        Y = {i: float(np.round(rng.uniform(-1, 1), 3)) for i in unames}
        pv = {p: float(np.round(rng.uniform(0.5, 1.5), 3)) for p in declared}
        A = {slot_of[p]: v for p, v in pv.items()}
        A[14] = 0.0
        env = dict(pv)
        for name, i in pos.items():
            env[name] = Y[i]
        # body of the subroutine uses parameter NAMES and local state names
        local = dict(env)
        dy = {}
        for lhs, rhs in re.findall(r"^\s*(\w+(?:\(\d+\))?)\s*=\s*(.+)$", body, re.M):
            rhs_py = re.sub(r"\by\((\d+)\)", lambda m: f"Y[{m.group(1)}]", rhs)
            try:
                val = eval(rhs_py, {"Y": Y, "sin": np.sin, "cos": np.cos, "exp": np.exp, "tanh": np.tanh, "PI": np.pi}, local)
            except Exception:
                continue
            m = re.fullmatch(r"dy\((\d+)\)", lhs)
            if m:
                dy[int(m.group(1))] = val
            else:
                local[lhs] = val

        def spec(yd, pd):
            d, _ = mdl.spec_rhs(model, {f"p/opx/{s}": yd[pos[s]] for s in states}, {f"p/opx/{p}": v for p, v in pd.items()})
            return {pos[s]: d[f"p/opx/{s}"] for s in states}
        want = spec(Y, pv)
        for i in want:
            if i not in dy or abs(dy[i] - want[i]) > 1e-9 * max(1, abs(want[i])):
                fail("auto: the exported vector field equals the model's", var=unames[i], observed=dy.get(i), expected=want[i])
                break
        h = 1e-6
        for i, j, expr in re.findall(r"dfdu\((\d+),(\d+)\)\s*=\s*(.+)", fsrc):
            i, j = int(i), int(j)
            yp, ym = dict(Y), dict(Y)
            yp[j] += h
            ym[j] -= h
            fd = (spec(yp, pv)[i] - spec(ym, pv)[i]) / (2 * h)
            try:
                got = _py(expr, A, Y)
            except KeyError as exn:
                fail("auto: DFDU expressions read only PAR slots that hold a parameter", entry=[i, j], observed=f"args({exn.args[0]}) in `{expr.strip()}`",
                     expected=sorted(parnames))
                break
            if abs(got - fd) > 1e-5 * max(1, abs(fd)):
                fail("auto: DFDU(i,j) == d f_i / d y_j", entry=[i, j], observed=float(got), expected=float(fd))
                break
        seen_cols = set()
        for i, k, expr in re.findall(r"dfdp\((\d+),(\d+)\)\s*=\s*(.+)", fsrc):
            i, k = int(i), int(k)
            seen_cols.add(k)
            if k not in parnames:
                fail("auto: DFDP column index is the slot of a parameter", entry=[i, k], observed=k, expected=sorted(parnames))
                break
            p = parnames[k]
            pp, pm = dict(pv), dict(pv)
            pp[p] += h
            pm[p] -= h
            fd = (spec(Y, pp)[i] - spec(Y, pm)[i]) / (2 * h)
            try:
                got = _py(expr, A, Y)
            except KeyError as exn:
                fail("auto: DFDP expressions read only PAR slots that hold a parameter", entry=[i, k], observed=f"args({exn.args[0]}) in `{expr.strip()}`",
                     expected=sorted(parnames))
                break
            if abs(got - fd) > 1e-5 * max(1, abs(fd)):
                fail("auto: DFDP(i, slot of p) == d f_i / d p", entry=[i, k], var=p, observed=float(got), expected=float(fd))
                break
        if fails:
            break
    return dict(status="violated" if fails else "ok", fails=fails[:2])


def run(chk, site="C18/auto-files", sizes=None):
    cases = []
    for tag, feats, model in auto_models(chk.seed):
        if sizes is None or (feats["n_params"] in sizes and not feats.get("reversed")):
            cases.append(dict(tag=tag, features=feats, model=model, seed=chk.seed))
    # a second (third) export into a directory that already holds the files of an earlier one: the same model with the first two
    # parameter declarations swapped (texts of equal length), then with other values of equal printed width
    import json as _json
    for tag, feats, model in auto_models(chk.seed):
        if tag in ("AU-3-params", "AU-12-params") and (sizes is None or feats["n_params"] in sizes):
            vars_ = model["ops"]["opx"]["vars"]
            consts = [k for k, v in vars_.items() if v[0] == "const"]
            swapped = _json.loads(_json.dumps(model))
            order = [k for k in vars_ if k not in consts] + [consts[1], consts[0]] + consts[2:]
            swapped["ops"]["opx"]["vars"] = {k: vars_[k] for k in order}
            other = _json.loads(_json.dumps(model))
            for k in consts:
                other["ops"]["opx"]["vars"][k] = ["const", round(vars_[k][1] + 0.001, 3)]
            cases.append(dict(tag=tag + "/third-export-into-the-same-directory", features=dict(feats, re_export=True), model=model, seed=chk.seed,
                              pre_models=[swapped, other]))
            cases.append(dict(tag=tag + "/swapped-declaration-after-first-export", features=dict(feats, re_export=True), model=swapped, seed=chk.seed,
                              pre_models=[model]))
    driver.run_family(
        chk, "auto07p-text-consistency", cases, case_fn, site=site,
        rule="two-state models with 3, 9, 10, 11, 12, 16 and 25 parameters whose order of first use in the equations differs from "
             "the declaration order (last-declared half used first, in reverse): get_run_func(backend='fortran', auto=True) writes "
             "<file>.f90 and c.ivp, which are parsed: slots distinct / outside 11..14 / in declaration order; parnames <-> STPNT <-> "
             "forwarding call <-> DFDP columns use the same slot per parameter; unames / y(i) / NDIM / NPAR; the dy, DFDU and DFDP "
             "expressions evaluated as arithmetic against the spec and its central differences; re-exports into a directory that already holds "
             "the files of an earlier export (declarations swapped / other values); distinct = parameter counts",
        sample_of=lambda c: dict(tag=c["tag"], n_params=c["features"]["n_params"]), timeout=900)


def compiled_case(c):
    """The exported module COMPILED (f2py) and called: STPNT holds the model's parameter values and initial state, FUNC(y, PAR) equals the
    model's right-hand sides — at states on both sides of every sigmoid's threshold (helper functions such as fsigmoid are emitted as
    Fortran source text that the text-level contract above can only take by its mathematical meaning)."""
    import os, sys, importlib
    import numpy as np
    os.environ["PATH"] = "/venv/bin:" + os.environ.get("PATH", "")
    from pyrates import OperatorTemplate, NodeTemplate, CircuitTemplate
    P = [("tau1", 1.5), ("tau2", 0.8), ("k1", 2.0), ("k2", -1.25), ("s1", 1.7), ("s2", 0.9), ("th1", 0.4), ("th2", -0.3), ("c", 0.35), ("g1", 1.1), ("g2", 0.7)]
    S = [("r1", 0.2), ("r2", -0.1)]
    op = OperatorTemplate(name="opx", path=None,
                          equations=["r1' = (-r1 + g1*k1*sigmoid(s1*(r2 - th1))) / tau1", "r2' = (-r2 + g2*k2*sigmoid(s2*(r1 - th2)) + c) / tau2"],
                          variables=dict({n: v for n, v in P}, r1="output(0.2)", r2="variable(-0.1)"))
    net = CircuitTemplate(name="sg", path=None, nodes={"p": NodeTemplate(name="pn", path=None, operators=[op])})

    def ref(y, p):
        sg = lambda x: 1.0 / (1.0 + np.exp(-x))
        return np.array([(-y[0] + p["g1"] * p["k1"] * sg(p["s1"] * (y[1] - p["th1"]))) / p["tau1"],
                         (-y[1] + p["g2"] * p["k2"] * sg(p["s2"] * (y[0] - p["th2"])) + p["c"]) / p["tau2"]])
    try:
        net.get_run_func("vfx", step_size=1e-3, file_name="auto_cmp", backend="fortran", float_precision="float64", auto=True, auto_jac=False,
                         vectorize=False, solver="scipy", verbose=False)
        sys.path.insert(0, os.getcwd())
        mod = importlib.import_module("auto_cmp")
        cfile = open("c.ivp" if os.path.exists("c.ivp") else sorted(f_ for f_ in os.listdir(".") if f_.startswith("c."))[0]).read()
        parnames = {int(k): v for k, v in re.findall(r"(\d+)\s*:\s*'([^']+)'", re.search(r"parnames\s*=\s*\{([^}]*)\}", cfile).group(1))}
        unames = {int(k): v for k, v in re.findall(r"(\d+)\s*:\s*'([^']+)'", re.search(r"unames\s*=\s*\{([^}]*)\}", cfile).group(1))}
        npar = max(36, int(re.search(r"NPAR\s*=\s*(\d+)", cfile).group(1)))
        par, y0 = np.full(npar, np.nan), np.full(2, np.nan)
        mod.stpnt(y0, par, 0.0)
    except Exception as exn:
        return dict(status="violated", fails=[dict(clause="auto-07p export (auto_jac=False) compiles and STPNT can be called", observed=f"{type(exn).__name__}: {str(exn)[:300]}")])
    fails = []
    slot_of = {v.split("/")[-1]: k for k, v in parnames.items()}
    pos_of = {v.split("/")[-1]: k - 1 for k, v in unames.items()}
    if sorted(slot_of) != sorted(n for n, _ in P) or sorted(pos_of) != ["r1", "r2"]:
        return dict(status="violated", fails=[dict(clause="compiled export: parnames / unames name the model's parameters and states", observed=dict(parnames=parnames, unames=unames))])
    for n, v in P:
        if par[slot_of[n] - 1] != v:
            fails.append(dict(clause="compiled export: STPNT holds the model's parameter values", var=n, observed=float(par[slot_of[n] - 1]), expected=v))
    for n, v in S:
        if y0[pos_of[n]] != v:
            fails.append(dict(clause="compiled export: STPNT holds the model's initial state", var=n, observed=float(y0[pos_of[n]]), expected=v))
    if fails:
        return dict(status="violated", fails=fails[:2])

    def exported(ym, pv):
        y = np.zeros(2)
        for n in ("r1", "r2"):
            y[pos_of[n]] = ym[n]
        pvec = np.where(np.isnan(par), 0.0, par)
        for n, v in pv.items():
            pvec[slot_of[n] - 1] = v
        out = np.asarray(mod.func(y, np.array([1], dtype=np.int32), pvec, 0, np.zeros((2, 2), order="F"), np.zeros((2, npar), order="F")), dtype=float)
        return np.array([out[pos_of["r1"]], out[pos_of["r2"]]])
    base = dict(P)
    rng = np.random.default_rng(c.get("seed", 0))
    points = [dict(r1=0.2, r2=-0.1), dict(r1=2.0, r2=3.0), dict(r1=-3.0, r2=-1.0), dict(r1=0.1, r2=1.7)] + \
             [dict(r1=float(a), r2=float(b)) for a, b in np.round(rng.uniform(-4, 4, size=(4, 2)), 3)]
    for ym in points:
        got, want = exported(ym, base), ref([ym["r1"], ym["r2"]], base)
        if not np.allclose(got, want, rtol=1e-9, atol=1e-12):
            fails.append(dict(clause="compiled export: FUNC(y, PAR) equals the model's right-hand sides", state=ym, observed=got.tolist(), expected=want.tolist()))
            break
    for n, v in P:
        pm = dict(base)
        pm[n] = v * 1.5 + 0.25
        ym = points[3]
        got, want = exported(ym, pm), ref([ym["r1"], ym["r2"]], pm)
        if not np.allclose(got, want, rtol=1e-9, atol=1e-12):
            fails.append(dict(clause="compiled export: FUNC follows the model's dependence on every parameter through its own slot", var=n, observed=got.tolist(), expected=want.tolist()))
            break
    return dict(status="violated" if fails else "ok", fails=fails[:2])


def run_compiled(chk, site="C18/compiled-export"):
    driver.run_family(
        chk, "auto07p-compiled-export", [dict(tag="AUC-two-states-eleven-parameters-sigmoid", features=dict(n_params=11, compiled=True), seed=chk.seed),
                                         dict(tag="AUC-two-states-eleven-parameters-sigmoid/second-seed", features=dict(n_params=11, compiled=True, second=True), seed=chk.seed + 101)],
        compiled_case, site=site,
        rule="one two-state model with sigmoidal coupling and 11 parameters (crossing the reserved range), exported with auto=True, auto_jac=False, compiled by "
             "f2py: STPNT against the declared values and initial state, FUNC at fixed and seeded states on both sides of the thresholds and with every "
             "parameter perturbed through its own PAR slot, against the closed form; distinct = (model, state seed)",
        sample_of=lambda c: dict(tag=c["tag"]), timeout=900)
