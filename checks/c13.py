"""C13 check: results do not depend on what the process did before (bounded, histories of <= 3 API calls)."""
import itertools
import os
import random
import sys

import numpy as np

HERE = os.path.dirname(os.path.dirname(os.path.abspath(__file__)))
sys.path.insert(0, HERE)

from vlib.harness import Check            # noqa: E402
from rtc import gen, driver, mdl, oracle  # noqa: E402


def pool():
    """Models that share names / operator structure / file names with one another."""
    li = gen.op_li("op", x="r", ins=("r_in",), tau=2.0, x0=0.4)
    li_b = gen.op_li("op", x="r", ins=("r_in",), tau=2.0, x0=0.4, in_coefs={"r_in": 2.0}, extra=["*", mdl.N(-0.5), mdl.V("r")])   # same NAME, other equation
    other = gen.op_li("zz", x="q", ins=("w",), tau=1.0, x0=-0.3)
    E = gen.edge
    return {
        "A": gen.model([li], {"p1": dict(ops=["op"]), "p2": dict(ops=["op"])}, [E("p1/op/r", "p2/op/r_in", 1.5), E("p2/op/r", "p1/op/r_in", 0.5)]),
        "B-same-op-name-other-equation": gen.model([li_b], {"p1": dict(ops=["op"]), "p2": dict(ops=["op"])},
                                                     [E("p1/op/r", "p2/op/r_in", 1.5), E("p2/op/r", "p1/op/r_in", 0.5)]),
        "C-same-structure-other-values": gen.model([li], {"p1": dict(ops=["op"], over={"op/tau": 5.0}), "p2": dict(ops=["op"]), "p3": dict(ops=["op"])},
                                                   [E("p1/op/r", "p2/op/r_in", -1.0), E("p3/op/r", "p1/op/r_in", 2.5)]),
        "D-unrelated": gen.model([other], {"n1": dict(ops=["zz"]), "n2": dict(ops=["zz"], over={"zz/tau": 3.0})}, [E("n1/zz/q", "n2/zz/w", 0.7)]),
        # a model that calls a backend function (sigmoid) — the target after another model ran with user-supplied `ops`
        "F-calls-sigmoid": gen.model([dict(name="sg", eqs=[["s", "de", ["+", ["neg", ["/", mdl.V("s"), mdl.V("tau")]],
                                                                  ["*", mdl.V("k"), ["call", "sigmoid", mdl.V("s")]]]]],
                                           vars={"s": ["output", 0.5], "tau": ["const", 1.0], "k": ["const", 2.0]})], {"q1": dict(ops=["sg"])}),
        # other operator names, but an input variable called r_in like model A's
        "E-other-ops-same-input-name": gen.model([gen.op_li("ee", x="g", ins=("r_in",), tau=1.5, x0=0.2)],
                                                 {"k1": dict(ops=["ee"]), "k2": dict(ops=["ee"], over={"ee/tau": 0.5})}, [E("k1/ee/g", "k2/ee/r_in", -0.4)]),
    }


def input_for(mname, model, which=0):
    first = mdl.state_vars(model)[0]
    node_op = first.rsplit("/", 1)[0]
    nodes, _ = mdl.flatten(model)
    node, ops = nodes[node_op.rsplit("/", 1)[0]]
    o = node_op.rsplit("/", 1)[1]
    iv = [v for v, (vt, _) in ops[o]["vars"].items() if vt == "input"][0]
    arr = (np.arange(8) * (0.25 if which == 0 else -0.5) + (which + 1)).astype(float)
    return f"{node_op}/{iv}", arr


SAME = {}       # model name -> the template object a history operation worked on in place (route "same_object")

OPS = ["compile", "compile_vec", "compile_noclear", "run", "run_noclear", "jacobian", "yaml", "update_var", "clear", "clear_frontend",
       "yaml_update_run_clear", "compile_inputs_noclear", "compile_decorator", "update_var_shared", "run_user_ops", "yaml_edge_update_clear", "yaml_derive_edge_update", "run_inplace_keep", "run_inplace_keep_vec"]
UNCLEARED = ("compile_noclear", "run_noclear", "compile_inputs_noclear")
CLEARING = ("compile", "compile_vec", "run", "jacobian", "yaml", "update_var", "update_var_shared", "clear", "yaml_update_run_clear",
            "compile_decorator", "run_user_ops", "yaml_edge_update_clear", "yaml_derive_edge_update", "run_inplace_keep", "run_inplace_keep_vec")


def negate(f):
    def g(*a, **k):
        return -1.0 * np.array(f(*a, **k), dtype=float)
    return g


NODE_CACHE, OPS_CACHE = {}, {}


def build_shared(mname, model):
    """Circuits of one process are built from the SAME OperatorTemplate / NodeTemplate objects (per model name)."""
    return mdl.build_templates(model, node_cache=NODE_CACHE.setdefault(mname, {}), ops_cache=OPS_CACHE.setdefault(mname, {}))


def do_op(op, mname, model, keep):
    from pyrates import clear, clear_frontend_caches, CircuitTemplate
    kw = dict(step_size=1e-3, backend="default", verbose=False, float_precision="float64", file_name="shared_name")
    if op in ("compile", "compile_vec", "compile_noclear"):
        tpl = mdl.build_templates(model)
        f, a, n, s = tpl.get_run_func("vf", vectorize=op == "compile_vec", clear=False, in_place=op != "compile", **kw)
        keep.append((mname, dict(func=f, args=a, names=n, smap=s, tpl=tpl), op == "compile_vec"))
        if op != "compile_noclear":
            clear(tpl)
    elif op in ("run", "run_noclear"):
        tpl = mdl.build_templates(model)
        tpl.run(simulation_time=0.2, step_size=0.05, solver="euler", outputs={"o": mdl.state_vars(model)[0]}, vectorize=True, verbose=False,
                clear=op == "run", in_place=False, float_precision="float64")
    elif op == "jacobian":
        tpl = mdl.build_templates(model)
        tpl.get_jacobian_func("jf", vectorize=False, clear=True, in_place=False, **kw)
    elif op == "yaml":
        tpl = CircuitTemplate.from_yaml(mdl.write_yaml(model, path=f"y_{mname[0]}/m.yaml"))
        tpl.get_run_func("vf", vectorize=True, clear=True, in_place=False, **kw)
    elif op in ("update_var", "update_var_shared"):
        tpl = build_shared(mname, model) if op == "update_var_shared" else mdl.build_templates(model)
        first = mdl.state_vars(model)[0]
        tpl.update_var(node_vars={first.rsplit("/", 1)[0] + "/tau": 9.0})
        tpl.get_run_func("vf", vectorize=True, clear=True, in_place=False, **kw)
    elif op == "clear":
        tpl = mdl.build_templates(model)
        tpl.get_run_func("vf", vectorize=True, clear=False, in_place=True, **kw)
        clear(tpl)
    elif op == "clear_frontend":
        clear_frontend_caches()
    elif op == "yaml_update_run_clear":
        path = mdl.write_yaml(model, path=f"y_{mname[0]}/m.yaml")
        tpl = CircuitTemplate.from_yaml(path)
        first = mdl.state_vars(model)[0]
        tpl.update_var(node_vars={first.rsplit("/", 1)[0] + "/tau": 9.0})
        tpl.run(simulation_time=0.2, step_size=0.05, solver="euler", outputs={"o": first}, vectorize=True, verbose=False, clear=True,
                in_place=True, float_precision="float64")
        clear(tpl)
    elif op == "run_user_ops":
        # a run with user-supplied backend function definitions (a replacement for sigmoid), followed by a full clear
        tpl = mdl.build_templates(model)
        my_ops = {"sigmoid": {"call": "sigmoid", "def": "\ndef sigmoid(x):\n    return 0.5*x\n"}}
        tpl.run(simulation_time=0.2, step_size=0.05, solver="euler", outputs={"o": mdl.state_vars(model)[0]}, vectorize=False, verbose=False,
                clear=True, in_place=False, float_precision="float64", ops=my_ops)
        clear_frontend_caches()
    elif op == "yaml_edge_update_clear":
        # load from YAML, change an EDGE attribute in place, run, clear everything: a later load of the same path is unaffected
        path = mdl.write_yaml(model, path=f"y_{mname[0]}/m.yaml")
        tpl = CircuitTemplate.from_yaml(path)
        edges = tpl.edges
        if edges:
            src, tgt = edges[0][0], edges[0][1]
            tpl.update_var(edge_vars=[(src, tgt, {"weight": 10.0})])
        tpl.run(simulation_time=0.2, step_size=0.05, solver="euler", outputs={"o": mdl.state_vars(model)[0]}, vectorize=True, verbose=False, clear=True,
                in_place=True, float_precision="float64")
        clear(tpl)
    elif op == "yaml_derive_edge_update":
        # load from YAML, DERIVE a circuit with one more edge (update_template), change an inherited edge on the derived circuit, run it
        # (clear=True): the loaded base (also the copy the loader keeps for later loads of the same path) is unaffected
        path = mdl.write_yaml(model, path=f"y_{mname[0]}/m.yaml")
        base = CircuitTemplate.from_yaml(path)
        edges = base.edges
        if edges:
            src, tgt = edges[0][0], edges[0][1]
            derived = base.update_template(name="derived_" + mname[0], edges=[(edges[-1][0], tgt, None, {"weight": 0.123})])
            derived.update_var(edge_vars=[(src, tgt, {"weight": 10.0})])
            derived.run(simulation_time=0.2, step_size=0.05, solver="euler", outputs={"o": mdl.state_vars(model)[0]}, vectorize=True, verbose=False,
                        clear=True, in_place=True, float_precision="float64")      # (run's own clear=True; the loader's cache is kept on purpose)
    elif op in ("run_inplace_keep", "run_inplace_keep_vec"):
        # an in-place simulation (default clear=True) on a template object that is used again afterwards (also with the OTHER vectorize setting)
        tpl = SAME.get(mname) or mdl.build_templates(model)
        SAME[mname] = tpl
        tpl.run(simulation_time=0.3, step_size=0.05, solver="euler", outputs={"o": mdl.state_vars(model)[0]}, vectorize=op.endswith("_vec"), verbose=False,
                clear=True, in_place=True, float_precision="float64")
    elif op == "compile_inputs_noclear":
        tpl = mdl.build_templates(model)
        ipath, arr = input_for(mname, model, which=1)
        tpl.get_run_func("vf", vectorize=False, clear=False, in_place=True, inputs={ipath: arr}, **kw)
    elif op == "compile_decorator":
        tpl = mdl.build_templates(model)
        tpl.get_run_func("vf", vectorize=False, clear=True, in_place=False, decorator=negate, **kw)
    else:
        raise ValueError(op)


def case_fn(c):
    P = pool()
    keep = []
    fails = []
    for op, mname in c["history"]:
        try:
            do_op(op, mname, P[mname], keep)
        except Exception as exn:
            return dict(status="violated", fails=[dict(clause=f"history operation `{op}({mname})` succeeds", observed=f"{type(exn).__name__}: {exn}")])
    target = P[c["target"]]
    rng = np.random.default_rng(c["seed"])
    route = c.get("route", "python")
    try:
        tpl = None
        if route == "yaml":
            from pyrates import CircuitTemplate
            tpl = CircuitTemplate.from_yaml(mdl.write_yaml(target, path=f"y_{c['target'][0]}/m.yaml"))
        inputs = None
        if route == "inputs":
            ipath, arr = input_for(c["target"], target, which=0)
            inputs = {ipath: arr}
        if route == "shared":
            tpl = build_shared(c["target"], target)
        if route == "same_object":
            tpl = SAME.get(c["target"])
        comp = oracle.compile_model(target, vectorize=c["vec"], file_name="shared_name", tpl=tpl, inputs=inputs)
    except Exception as exn:
        return dict(status="violated", fails=[dict(clause="get_run_func of the target model after the history succeeds",
                                                   observed=f"{type(exn).__name__}: {exn}")])
    if route == "inputs":
        # the compiled function must read THIS model's input array: derivative at integer step k uses sample k
        pos = oracle.positions(comp, target)
        svars = mdl.state_vars(target)
        n = len(np.asarray(comp["args"][1]).reshape(-1))
        ff = []
        for k in (0, 3, 6):
            yv = np.round(rng.uniform(-1, 1, size=n), 3)
            want, _ = mdl.spec_rhs(target, {v: float(yv[pos[v]]) for v in svars}, ext={ipath: float(arr[k])})
            got = oracle.eval_field(comp, yv, t=k)
            for v in svars:
                if not oracle.close(got[pos[v]], want[v], 1e-8, 1e-10):
                    ff.append(dict(clause="vector field: derivative equals the equation with THIS model's input sample", var=v, step=k,
                                   observed=float(got[pos[v]]), expected=float(want[v])))
            if ff:
                break
    else:
        ff = oracle.check_vector_field(target, comp, rng, n_states=2, n_param_draws=0, vectorized=c["vec"])
    for f in ff:
        f["clause"] = "after the history the target model compiles to its own vector field (" + f["clause"] + ")"
    fails += ff
    # functions returned earlier keep computing their own model
    for mname, comp0, vec0 in keep:
        ff = oracle.check_vector_field(P[mname], comp0, np.random.default_rng(c["seed"] + 1), n_states=1, n_param_draws=0, vectorized=vec0)
        for f in ff:
            f["clause"] = f"a function returned earlier (model {mname}) still computes its own model (" + f["clause"] + ")"
        fails += ff
    return dict(status="violated" if fails else "ok", fails=fails[:2])


def features_of(history, target):
    names = [m for _, m in history]
    noclear = [(o, m) for o, m in history if o in ("compile_noclear", "run_noclear", "compile_inputs_noclear")]

    def opnames(m):
        return {"A": {"op"}, "B": {"op"}, "C": {"op"}, "D": {"zz"}, "E": {"ee"}, "F": {"sg"}}[m[0]]
    # an uncleared compilation/run of a model, followed — WITHOUT any operation in between that clears the process-global caches —
    # by a model (or the target) that shares an operator NAME with it
    stale = False
    pending = set()
    for o, m in list(history) + [("target", target)]:
        if opnames(m) & pending:
            stale = True
        if o in UNCLEARED:
            pending |= opnames(m)
        elif o in CLEARING:
            pending = set()
    return dict(history=[list(h) for h in history], target=target, uncleared=[list(x) for x in noclear], stale_shared_operator_name=stale)


def families(tier, seed):
    rng = random.Random(seed)
    P = list(pool())
    out = []
    singles = [(o, m) for o in OPS for m in P if not (o == "clear_frontend" and m != "A")
               and not (o == "compile_inputs_noclear" and m.startswith("F"))]       # model F has no input variable
    hist = [[h] for h in singles]
    pairs = [list(p) for p in itertools.product(singles, repeat=2)]
    rng.shuffle(pairs)
    hist += pairs[: (40 if tier == "quick" else 1500)]
    if tier == "thorough":
        triples = [list(p) for p in itertools.product(singles, repeat=3)]
        rng.shuffle(triples)
        hist += triples[:1000]
    for i, h in enumerate(hist):
        tgt = P[i % len(P)]
        for vec in ((True,) if tier == "quick" and i % 2 else (False, True)):
            out.append(dict(tag=f"H{i}", features=features_of(h, tgt), history=h, target=tgt, vec=vec, seed=seed))
    # targeted histories: the target is loaded from YAML / compiled with inputs / compiled after a decorated twin
    for m in P:
        out.append(dict(tag=f"T-user-ops-then-sigmoid-{m[0]}", features=features_of([("run_user_ops", m)], "F-calls-sigmoid"),
                        history=[("run_user_ops", m)], target="F-calls-sigmoid", vec=False, seed=seed))
        if m[0] in "ABCDE":
            out.append(dict(tag=f"T-yaml-edge-{m[0]}", features=features_of([("yaml_edge_update_clear", m)], m), history=[("yaml_edge_update_clear", m)],
                            target=m, vec=False, seed=seed, route="yaml"))
        if m[0] in "ABCDE":
            out.append(dict(tag=f"T-yaml-derive-edge-{m[0]}", features=features_of([("yaml_derive_edge_update", m)], m),
                            history=[("yaml_derive_edge_update", m)], target=m, vec=False, seed=seed, route="yaml"))
        for vecs in ((True, False), (False, True)):
            h = [("run_inplace_keep_vec" if vecs[0] else "run_inplace_keep", m)]
            out.append(dict(tag=f"T-same-object-other-vectorize-{'vs' if vecs[0] else 'sv'}-{m[0]}", features=features_of(h, m), history=h, target=m,
                            vec=vecs[1], seed=seed, route="same_object"))
        for reps in (1, 2):
            h = [("run_inplace_keep", m)] * reps
            out.append(dict(tag=f"T-same-object-after-{reps}-runs-{m[0]}", features=features_of(h, m), history=h, target=m, vec=False, seed=seed,
                            route="same_object"))
        out.append(dict(tag=f"T-yaml-{m[0]}", features=features_of([("yaml_update_run_clear", m)], m), history=[("yaml_update_run_clear", m)],
                        target=m, vec=False, seed=seed, route="yaml"))
        out.append(dict(tag=f"T-decorator-{m[0]}", features=features_of([("compile_decorator", m)], m), history=[("compile_decorator", m)],
                        target=m, vec=False, seed=seed))
        # another circuit built from the SAME template objects after update_var on the first one
        out.append(dict(tag=f"T-shared-templates-{m[0]}", features=features_of([("update_var_shared", m)], m), history=[("update_var_shared", m)],
                        target=m, vec=False, seed=seed, route="shared"))
    # a model compiled to file F / function G and left uncleared, another model compiled to the same F and G, everything cleared,
    # then the first model again (unrelated operator names, so the listed cache finding does not apply)
    for a, b in (("D-unrelated", "A"), ("E-other-ops-same-input-name", "D-unrelated")):
        h = [("compile_noclear", a), ("compile", b), ("clear", b)]
        out.append(dict(tag=f"T-same-file-{a[0]}-{b[0]}", features=features_of(h, a), history=h, target=a, vec=False, seed=seed))
    for m, t in (("E-other-ops-same-input-name", "A"), ("A", "E-other-ops-same-input-name"), ("D-unrelated", "A")):
        h = [("compile_inputs_noclear", m)]
        out.append(dict(tag=f"T-inputs-{m[0]}-{t[0]}", features=features_of(h, t), history=h, target=t, vec=False, seed=seed, route="inputs"))
    return out


def main():
    chk = Check("C13", "other")
    # deductive core: frame (ownership) contracts of the functions this property rests on (contracts/frames.py)
    chk.run_frames()
    driver.run_family(
        chk, "history-independence", families(chk.tier, chk.seed), case_fn, site="C13/history",
        rule="pool of 4 models (A; B = same operator NAME, other equation; C = same operator structure, other values/nodes; D = "
             "unrelated) and operations {get_run_func (in_place T/F, clear T/F, vectorize T/F), run (clear T/F), get_jacobian_func, "
             "from_yaml+compile, update_var+compile (node and edge variables), a run with user-supplied `ops`, clear(), clear_frontend_caches()}, all writing the same generated file name: every "
             "single operation and seeded histories of 2 (thorough: 3) operations run in ONE process, then the target model must "
             "satisfy the C01 clauses against its own spec, and every function returned during the history must still compute its "
             "own model; distinct = (history, target, vectorize)",
        sample_of=lambda c: {k: v for k, v in c.items() if k != "features"})
    rc = chk.finish(
        explanation="Bounded: the history is the input. The fresh-interpreter baseline of a model is its spec (the C01 check "
                    "establishes that equality for these models in fresh processes).",
        assumptions=["spec_rhs as baseline", "histories of length <= 3 over 4 models"])
    sys.exit(rc)


if __name__ == "__main__":
    main()
