"""C06 check: a variable path addresses the same variable in outputs for every request form (bounded)."""
import os
import sys

HERE = os.path.dirname(os.path.dirname(os.path.abspath(__file__)))
sys.path.insert(0, HERE)

from vlib.harness import Check            # noqa: E402
from rtc import gen, driver, cases        # noqa: E402


def families(tier, seed):
    out = []
    for tag, feats, model in gen.c06_families():
        for i, (form, req) in enumerate(gen.c06_requests(tag, model)):
            for vec in (False, True):
                out.append(dict(tag=f"{tag}/{form}{i}", features=dict(feats, form=form, req=i), kind="outputs", model=model, request=req,
                                form=form, vec=vec))
    # repeated runs on ONE template instance with different vectorize settings: the labels of the last run must not depend on
    # the grouping of an earlier one
    for tag, feats, model in gen.c06_families():
        reqs = gen.c06_requests(tag, model)
        for i, (form, req) in enumerate(reqs):
            if i % 3 != (0 if tier == "quick" else i % 3):
                continue
            for pre, vec in (((True,), False), ((False,), True), ((True, False), True)):
                out.append(dict(tag=f"{tag}/{form}{i}/after-{'-'.join('v' if p else 'n' for p in pre)}", features=dict(feats, form=form, req=i, pre=list(pre)),
                                kind="outputs", model=model, request=req, form=form, vec=vec, pre_runs=list(pre)))
    # the same paths through get_variable_positions once a function has been compiled (the state layout is cached on the template)
    for tag, feats, model in gen.c06_families():
        for vec in (False, True):
            out.append(dict(tag=f"{tag}/positions-after-get_run_func", features=dict(feats, positions=True), kind="positions", model=model, vec=vec))
    # the same paths in `inputs` (C08 has the full set): one column per addressed node, in declaration order
    for tag, feats, model, inputs in gen.c08_cases(seed):
        if tag.split("-")[0] in ("I4", "I11", "I12", "I15"):
            out.append(dict(tag=f"{tag}/euler", features=dict(feats, solver="euler", inputs=True), kind="inputs", model=model, inputs=inputs, solver="euler",
                            vec=True, T=1.0, dt=0.05))
    # the same paths in update_var (C07 has the full set of override scenarios)
    for tag, feats, model, ops in gen.c07_cases():
        if tag.split("-")[0] in ("U1", "U4", "U11", "U13", "U14"):
            for vec in (False, True):
                out.append(dict(tag=tag, features=feats, kind="overrides", model=model, ops=ops, vec=vec, seed=seed))
    return out


def positions_case(c):
    """After get_run_func(clear=False) on a template, get_variable_positions(path) (dict form, string form with a wildcard) names the
    position of exactly that variable in the state vector the returned function works on (checked through the initial values,
    which differ from node to node, and through the returned state map)."""
    import numpy as np
    from rtc import oracle, mdl
    model = c["model"]
    comp = oracle.compile_model(model, vectorize=c["vec"], clear=False)
    tpl, smap = comp["tpl"], comp["smap"]
    want = oracle.positions(comp, model)            # from the returned map + the relative index (the way run() resolves a path)
    bnames = {}
    for bn in tpl.compute_graph.state_vars:          # backend name of every state variable, from the compute graph itself
        try:
            bnames[tpl._ir.get_frontend_varname(bn)] = bn
        except Exception:
            pass
    y0 = np.asarray(comp["args"][1], dtype=float).ravel()
    init = mdl.initial_state(model)
    fails_new, fails_structural = [], []
    for v, pos in want.items():
        if abs(y0[pos] - init[v]) > 1e-12:
            continue                                 # the reference position itself is not confirmed by the initial value: not judged here
        saved = tpl._state_var_indices
        tpl._state_var_indices = {}
        try:
            bk = tpl.get_variable_positions({"k": v})[1]["k"]
        finally:
            tpl._state_var_indices = saved
        rng = smap[bk]
        feats = dict(positions_after_compile=True, layout_scalar=not isinstance(rng, tuple),
                     backend_name_differs=bk in bnames and bnames[bk] != v.split("/")[-1])
        try:
            got = tpl.get_variable_positions({"k": v})[0]["k"]
            got = int(np.asarray(got).squeeze()) if np.size(got) == 1 else [int(x) for x in np.ravel(got)]
        except Exception as exn:
            got = f"{type(exn).__name__}: {exn}"
        if got != pos:
            rec = dict(clause="after get_run_func(clear=False): get_variable_positions(path) is the position of that variable in the state vector",
                       var=v, observed=got, expected=pos, features=feats)
            (fails_structural if (feats["layout_scalar"] or feats["backend_name_differs"]) else fails_new).append(rec)
    import pyrates
    pyrates.clear(tpl)
    fails = fails_new[:2] + fails_structural[:max(0, 2 - len(fails_new))]
    return dict(status="violated" if fails else "ok", fails=fails)


def case_fn(c):
    if c.get("kind") == "positions":
        return positions_case(c)
    return cases.case_fn(c)


def indexed_var_native(chk):
    """_get_indexed_var_str's contract evaluated natively on the real function: every index list of length 1..4 over {0..3} and a
    few longer ones (identity, permutations that keep the end points, shifted, repeated) x var_length 1..5."""
    import itertools
    from pyvc import native
    from contracts import c06 as K
    c = K.CONTRACTS[0]
    fn, _ = native.real_function(c["target"])
    lists = [list(p) for n in range(1, 5) for p in itertools.product(range(4), repeat=n)]
    lists += [list(range(12)), [0, 7, 3, 9, 1, 5, 10, 2, 8, 4, 6, 11], [0, 2, 1, 3, 4, 5], list(range(1, 7)), [0, 1, 2, 3, 4, 4], [5, 4, 3, 2, 1, 0]]
    fails, n = [], 0
    for idx in lists:
        for vl in sorted({len(idx), len(idx) + 1, max(1, len(idx) - 1)}):
            n += 1
            status, fl = native.check_call(c, {}, dict(var="v", idx=list(idx), var_length=vl, reduce=False, idx_str="v_idx", arg_dict={}), fn=fn)
            if status == "violated":
                fails.append(dict(site="C06/_get_indexed_var_str", clauses=fl[:2], input=dict(idx=idx, var_length=vl), features=dict(idx=idx),
                                  rerun=dict(kind="contract", module="contracts.c06", contract=c["name"],
                                             model=dict(var="v", idx=list(idx), var_length=vl, reduce=False, idx_str="v_idx", arg_dict={}))))
                if len(fails) > 3:
                    break
    chk.add_bounded("native-_get_indexed_var_str", n, len(lists),
                    "every index list of length 1..4 over {0..3} plus identity / end-point-preserving permutations / shifted / repeated "
                    "lists of length 6 and 12, var_length = len and len +- 1: un-indexed iff the list is the identity selection; distinct = lists",
                    [dict(idx=[0, 2, 1, 3], var_length=4)])
    return fails


def main():
    chk = Check("C06", "other")
    # deductive core: whether a vectorised edge variable is used un-indexed (identity selection) or indexed
    cache = {}

    def fb():
        if "r" not in cache:
            cache["r"] = indexed_var_native(chk)
        return cache["r"]
    chk.run_contracts("contracts.c06", fallback={"*": fb})
    for f in fb():
        chk.report_failure(f)
    driver.run_family(
        chk, "run-outputs-vs-per-variable-spec", families(chk.tier, chk.seed), case_fn, site="C06/run-outputs",
        rule="circuits whose nodes all differ in a parameter: two node types interleaved in 5 declaration orders, a 3-node loop "
             "declared in non-alphabetic order, a depth-1 hierarchy; requests: every variable by its own key, `all` wildcards at "
             "every level, several keys in non-alphabetic order, list form with one / two (reversed) / wildcard paths; vectorize "
             "off and on, and after earlier run() calls on the same template instance with the other vectorize setting; get_variable_positions of every state variable after get_run_func(clear=False); clauses: columns == requested variables, one column each, column == that variable's spec trajectory "
             "(and which variable a wrong column really carries); distinct = (model, request, vectorize)",
        sample_of=cases.sample_of)
    rc = chk.finish(
        explanation="Deductive (small core): _get_indexed_var_str uses a vectorised edge variable un-indexed exactly when the index list is the "
                    "identity selection 0..var_length-1 (loop with break, all lengths). Bounded: the DataFrame returned by run() is compared "
                    "column by column with the per-variable reference trajectories.",
        assumptions=["spec_fixed_step (harness)", "column labels as documented: key, (key, nodes..., 'op/var') for wildcards, path for list form"])
    sys.exit(rc)


if __name__ == "__main__":
    main()
