"""C06 check: a variable path addresses the same variable in outputs for every request form (bounded)."""
import os
import sys

HERE = os.path.dirname(os.path.dirname(os.path.abspath(__file__)))
sys.path.insert(0, HERE)

from vlib.harness import Check            # noqa: E402
from rtc import gen, driver, cases        # noqa: E402


def families(tier, seed):
    out = []
    for tag, feats, model in gen.c06_families():
        for i, (form, req) in enumerate(gen.c06_requests(tag, model)):
            for vec in (False, True):
                out.append(dict(tag=f"{tag}/{form}{i}", features=dict(feats, form=form, req=i), kind="outputs", model=model, request=req,
                                form=form, vec=vec))
    # repeated runs on ONE template instance with different vectorize settings: the labels of the last run must not depend on
    # the grouping of an earlier one
    for tag, feats, model in gen.c06_families():
        reqs = gen.c06_requests(tag, model)
        for i, (form, req) in enumerate(reqs):
            if i % 3 != (0 if tier == "quick" else i % 3):
                continue
            for pre, vec in (((True,), False), ((False,), True), ((True, False), True)):
                out.append(dict(tag=f"{tag}/{form}{i}/after-{'-'.join('v' if p else 'n' for p in pre)}", features=dict(feats, form=form, req=i, pre=list(pre)),
                                kind="outputs", model=model, request=req, form=form, vec=vec, pre_runs=list(pre)))
    # the same paths in update_var (C07 has the full set of override scenarios)
    for tag, feats, model, ops in gen.c07_cases():
        if tag.split("-")[0] in ("U1", "U4", "U11", "U13", "U14"):
            for vec in (False, True):
                out.append(dict(tag=tag, features=feats, kind="overrides", model=model, ops=ops, vec=vec, seed=seed))
    return out


def main():
    chk = Check("C06", "exploration")
    driver.run_family(
        chk, "run-outputs-vs-per-variable-spec", families(chk.tier, chk.seed), cases.case_fn, site="C06/run-outputs",
        rule="circuits whose nodes all differ in a parameter: two node types interleaved in 5 declaration orders, a 3-node loop "
             "declared in non-alphabetic order, a depth-1 hierarchy; requests: every variable by its own key, `all` wildcards at "
             "every level, several keys in non-alphabetic order, list form with one / two (reversed) / wildcard paths; vectorize "
             "off and on, and after earlier run() calls on the same template instance with the other vectorize setting; clauses: columns == requested variables, one column each, column == that variable's spec trajectory "
             "(and which variable a wrong column really carries); distinct = (model, request, vectorize)",
        sample_of=cases.sample_of)
    rc = chk.finish(
        explanation="Bounded: the DataFrame returned by run() is compared column by column with the per-variable reference trajectories.",
        assumptions=["spec_fixed_step (harness)", "column labels as documented: key, (key, nodes..., 'op/var') for wildcards, path for list form"])
    sys.exit(rc)


if __name__ == "__main__":
    main()
