"""C03 check: solver-loop contracts (deductive) + bounded native contract checks + run() vs spec iterates."""
import os
import sys

HERE = os.path.dirname(os.path.dirname(os.path.abspath(__file__)))
sys.path.insert(0, HERE)

from vlib.harness import Check          # noqa: E402
from pyvc import native                 # noqa: E402
from contracts import c03 as K          # noqa: E402
from checks import solver_native        # noqa: E402


def solver_fallback(chk):
    cache = {}

    def run():
        if "r" in cache:
            return cache["r"]
        _, mod = native.real_function(f"{K.F}::BaseBackend")
        by = {}
        for c in K.CONTRACTS:
            if "_solve_" in c["name"]:
                method = c["target"].split(".")[-1]
                by[(method, "dde" if "[dde]" in c["name"] else "ode")] = c
        fails, evals, distinct, samples = solver_native.run(
            by, K.CLASSES, chk.tier, chk.seed, mod.DDEHistory,
            lambda c: getattr(mod.BaseBackend, c["target"].split(".")[-1]))
        chk.add_bounded("native-contracts-on-solver-loops", evals, distinct,
                        "real BaseBackend._solve_euler/_solve_heun called with affine vector fields (ODE and delayed), "
                        "steps 0..6 (quick) / 0..12 (thorough) x store cadence 1..3 x t0 in {0,3}; contract clauses "
                        "evaluated natively against memoised reference iterates; distinct = (method, variant, steps, m, t0) "
                        "with steps > m", samples)
        # ComputeGraph._index_state_var natively: the selected columns are exactly the variable's positions
        import numpy as np
        fn, _ = native.real_function("pyrates/backend/computegraph.py::ComputeGraph._index_state_var")
        yrec = np.arange(5 * 7, dtype=float).reshape(5, 7)
        n_idx = 0
        for a in range(7):
            for idx, want in [(a, yrec[:, a:a + 1])] + [((a, b), yrec[:, a:b]) for b in range(a + 1, 8)]:
                n_idx += 1
                try:
                    got = np.asarray(fn(yrec, idx))
                    ok = got.shape == want.shape and np.array_equal(got, want)
                except Exception as exn:
                    got, ok = f"{type(exn).__name__}: {exn}", False
                if not ok:
                    fails.append(dict(site="C03/ComputeGraph._index_state_var", clauses=["columns selected == positions of the variable"],
                                      input=dict(idx=idx), observed=str(got)[:120], features=dict(idx=str(idx))))
        chk.add_bounded("native-index-state-var", n_idx, n_idx, "real _index_state_var on a 5x7 record for every int index and every "
                        "half-open pair: result == y[:, a:b]; distinct = indices", [dict(idx=[2, 5])])
        cache["r"] = fails
        return fails
    return run


def run_case(c):
    from rtc import oracle
    if c.get("kind") in ("loops", "inputs_backend"):
        from checks import c02 as _c02
        return _c02.dispatch(c)
    if c.get("kind") == "dde_run":
        from rtc import cases as _cases
        return _cases.case_fn(c)
    if c["solver"] == "scipy":
        fails = oracle.check_adaptive_run(c["model"], c["T"], c["dt"], c["dts"], c["vec"], method=c.get("method", "RK45"))
    else:
        fails = oracle.check_fixed_step_run(c["model"], c["T"], c["dt"], c["dts"], c["solver"], c["vec"], c.get("cutoff", 0.0))
    return dict(status="violated" if fails else "ok", fails=fails[:2])


def run_cases_for(chk):
    from rtc import gen, driver
    pick = ("F1-chain-123", "F6-fanin-two-inputs", "F2-parallel-2", "F7-hierarchy-1", "F8-ring2-6")
    if chk.tier == "thorough":
        pick = pick + ("F1-chain-321", "F3-multi-input-wu", "F8-dense-4", "F5-names-r-rr")
    fam = [x for x in gen.c01_structured() if x[0] in pick]
    grid = [(1.0, 0.1, None), (1.0, 0.1, 0.2), (0.9, 0.1, 0.3), (1.0, 0.05, 0.25), (0.5, 0.1, 0.5), (1.0, 0.025, 0.125), (0.45, 0.00125, 0.00375),
            # decimal pairs whose float quotient lies just below an integer (0.3/0.1, 0.7/0.1, 0.6/0.2): counts are round(.), never floor(.)
            (0.3, 0.1, None), (0.7, 0.1, None), (0.6, 0.1, 0.2)]
    if chk.tier == "thorough":
        grid += [(2.0, 0.01, 0.05), (1.2, 0.1, 0.1), (1.5, 0.05, 0.15), (0.3, 0.1, 0.1), (0.1, 0.1, None)]
    cuts = [0.0, 0.25] if chk.tier == "quick" else [0.0, 0.25, 0.5, 0.07]
    cases = []
    for t, f, m in fam:
        for solver in ("euler", "heun"):
            for (T, dt, dts) in grid:
                for cutoff in cuts:
                    if cutoff and cutoff > T / 2:
                        continue          # keep at least half of the rows
                    for vec in ((False,) if chk.tier == "quick" and cutoff else (False, True)):
                        cases.append(dict(tag=f"{t}/{solver}/{T}/{dt}/{dts}/{cutoff}", features=dict(f, solver=solver, T=T, dt=dt, dts=dts, cutoff=cutoff),
                                          model=m, solver=solver, T=T, dt=dt, dts=dts, vec=vec, cutoff=cutoff))
        for method in (("RK45", "DOP853") if chk.tier == "quick" else ("RK45", "DOP853", "LSODA", "Radau")):
            for vec in (False, True):
                cases.append(dict(tag=f"{t}/scipy-{method}", features=dict(f, solver="scipy", method=method), model=m, solver="scipy",
                                  method=method, T=1.0, dt=0.01, dts=0.1, vec=vec))
    # delayed models (past(x, tau) with tau a multiple of the step): the Euler / Heun iterates of the DDE with the piecewise-linear
    # history of the computed iterates — exact comparison
    for t_, f_, m_ in gen.dde_models():
        if t_.split("-")[0] in ("H1", "H2", "H3", "H4", "H5"):
            for solver in ("euler", "heun"):
                cases.append(dict(tag=f"{t_}/{solver}", features=dict(f_, solver=solver, dde=True), model=m_, solver=solver, T=2.0, dt=0.05,
                                  dts=0.1, vec=False, cutoff=0.0))
    # a delayed model with a step size that needs more than six decimals (dt = 6.25e-5, delay = 50 steps): rows == Euler / Heun iterates
    from rtc.mdl import V, N
    dshort = dict(name="ds", eqs=[["x", "de", ["*", N(-1.0), ["past", "x", 0.003125]]]], vars={"x": ["output", 1.0]})
    m_short = gen.model([dshort], {"p": dict(ops=["ds"])})
    for solver in ("euler", "heun"):
        cases.append(dict(tag=f"H16-short-delay-small-step/{solver}", features=dict(solver=solver, dde=True, small_dt=True), model=m_short, solver=solver,
                          T=0.02, dt=6.25e-5, dts=0.0005, vec=False, cutoff=0.0))
    # delayed models under the adaptive solver with a sampling step LARGER than the delay: every accepted step enters the history
    for t_, f_, m_ in gen.dde_models():
        if t_.split("-")[0] in ("H1", "H3"):
            cases.append(dict(tag=f"{t_}/scipy-coarse", features=dict(f_, solver="scipy", dde=True, coarse=True), kind="dde_run", model=m_, solver="scipy",
                              T=2.0, dts=1.0))
    # the listed known finding: T is not a multiple of the sampling step and one more sample is due than rows exist
    t, f, m = fam[0]
    for solver in ("euler", "heun"):
        cases.append(dict(tag=f"W-T-not-multiple/{solver}", features=dict(solver=solver, T=0.9, dt=0.1, dts=0.2), model=m, solver=solver,
                          T=0.9, dt=0.1, dts=0.2, vec=False, cutoff=0.0))
    # the backends' OWN fixed-step implementations (Torch, JAX): called directly and through run()
    from checks import c02 as _c02
    for c in _c02.families(chk.tier, chk.seed):
        if c["kind"] == "loops" or (c["kind"] == "inputs_backend" and c["backend"] in ("torch", "jax") and c["solver"] in ("euler", "heun", "scipy")):
            cases.append(c)        # (scipy: the adaptive path of the Torch / JAX backends with a time-dependent input, i.e. through their own `interp`)
    results = driver.run_family(
        chk, "run-vs-spec-iterates", cases, run_case, site="C03/run",
        rule="models F1/F2/F6/F7/F8 x euler/heun x (T, dt, dts) grid with dts/dt in {1,2,3,5} x cut-offs (off-grid and on-grid) x "
             "vectorize off/on: row count, index, first row and every value against spec_fixed_step(spec_rhs) at rtol 1e-7; scipy "
             "RK45 and DOP853 (thorough: + LSODA, Radau) against a tight DOP853 reference on spec_rhs; distinct = distinct (model, solver, T, dt, dts, cutoff, vectorize)",
        sample_of=lambda c: {k: v for k, v in c.items() if k not in ("model", "features")})
    driver.run_sequences(chk, "run-vs-spec-iterates-in-sequence", cases, results, run_case, site="C03/run",
                         limit=15 if chk.tier == "quick" else 100, seed=chk.seed)


def main():
    chk = Check("C03", "other")
    # who may write the history of a delayed model: the adaptive DDE solvers change it only through DDEHistory.update, unconditionally per accepted step
    chk.run_frames()
    fb = solver_fallback(chk)
    chk.run_contracts("contracts.c03", fallback={"*": fb})
    for f in fb():
        chk.report_failure(f)
    run_cases_for(chk)
    rc = chk.finish(
        explanation="Tier A (deductive, unbounded in the number of steps, the cadence and the state): the real "
                    "_solve_euler/_solve_heun loops satisfy: row k of the record is the k*m-th Euler/Heun iterate (row 0 = "
                    "initial state), the record has round(T/dts) rows, the vector field is called with the integer step counter "
                    "i+t0 (both Heun stages), and with a DDE history the record ((i+1)*dt, y_{i+1}) is appended after every step "
                    "through DDEHistory.update's contract. Tier B (bounded): the same clauses run natively; run() against "
                    "spec iterates.",
        assumptions=["floats are mathematical reals", "one representative real component per state vector",
                     "the vector field returns a fresh value on every call and is a function of (step, state, number of "
                     "history records) (value semantics; a generated function that returns a shared output buffer is outside "
                     "this assumption and is exercised by the bounded run() check)",
                     "int(np.round(x)) is left uninterpreted: the proof holds for whatever integers the three roundings "
                     "produce, provided steps <= store_steps*store_step (otherwise the real loop raises IndexError)"])
    sys.exit(rc)


if __name__ == "__main__":
    main()
