"""C03 check: solver-loop contracts (deductive) + bounded native contract checks + run() vs spec iterates."""
import os
import sys

HERE = os.path.dirname(os.path.dirname(os.path.abspath(__file__)))
sys.path.insert(0, HERE)

from vlib.harness import Check          # noqa: E402
from pyvc import native                 # noqa: E402
from contracts import c03 as K          # noqa: E402
from checks import solver_native        # noqa: E402


def solver_fallback(chk):
    cache = {}

    def run():
        if "r" in cache:
            return cache["r"]
        _, mod = native.real_function(f"{K.F}::BaseBackend")
        by = {}
        for c in K.CONTRACTS:
            if "_solve_" in c["name"]:
                method = c["target"].split(".")[-1]
                by[(method, "dde" if "[dde]" in c["name"] else "ode")] = c
        fails, evals, distinct, samples = solver_native.run(
            by, K.CLASSES, chk.tier, chk.seed, mod.DDEHistory,
            lambda c: getattr(mod.BaseBackend, c["target"].split(".")[-1]))
        chk.add_bounded("native-contracts-on-solver-loops", evals, distinct,
                        "real BaseBackend._solve_euler/_solve_heun called with affine vector fields (ODE and delayed), "
                        "steps 0..6 (quick) / 0..12 (thorough) x store cadence 1..3 x t0 in {0,3}; contract clauses "
                        "evaluated natively against memoised reference iterates; distinct = (method, variant, steps, m, t0) "
                        "with steps > m", samples)
        cache["r"] = fails
        return fails
    return run


def main():
    chk = Check("C03", "other")
    fb = solver_fallback(chk)
    chk.run_contracts("contracts.c03", fallback={"*": fb})
    for f in fb():
        chk.report_failure(f)
    rc = chk.finish(
        explanation="Tier A (deductive, unbounded in the number of steps, the cadence and the state): the real "
                    "_solve_euler/_solve_heun loops satisfy: row k of the record is the k*m-th Euler/Heun iterate (row 0 = "
                    "initial state), the record has round(T/dts) rows, the vector field is called with the integer step counter "
                    "i+t0 (both Heun stages), and with a DDE history the record ((i+1)*dt, y_{i+1}) is appended after every step "
                    "through DDEHistory.update's contract. Tier B (bounded): the same clauses run natively; run() against "
                    "spec iterates.",
        assumptions=["floats are mathematical reals", "one representative real component per state vector",
                     "the vector field returns a fresh value on every call and is a function of (step, state, number of "
                     "history records) (value semantics; a generated function that returns a shared output buffer is outside "
                     "this assumption and is exercised by the bounded run() check)",
                     "int(np.round(x)) is left uninterpreted: the proof holds for whatever integers the three roundings "
                     "produce, provided steps <= store_steps*store_step (otherwise the real loop raises IndexError)"])
    sys.exit(rc)


if __name__ == "__main__":
    main()
