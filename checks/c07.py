"""C07 check: overrides reach exactly their targets (bounded)."""
import os
import sys

HERE = os.path.dirname(os.path.dirname(os.path.abspath(__file__)))
sys.path.insert(0, HERE)

from vlib.harness import Check            # noqa: E402
from rtc import gen, driver, cases        # noqa: E402


def families(tier, seed):
    out = []
    for tag, feats, model, ops in gen.c07_cases():
        for vec in (False, True):
            out.append(dict(tag=tag, features=feats, kind="overrides", model=model, ops=ops, vec=vec, seed=seed,
                            share=feats.get("share", True)))
    return out


def main():
    chk = Check("C07", "exploration")
    _cases = families(chk.tier, chk.seed)
    _results = driver.run_family(
        chk, "overrides-vs-spec-args", _cases, cases.case_fn, site="C07/overrides",
        rule="three nodes built from ONE NodeTemplate object, two templates interleaved T1,T2,T1,T2, a hierarchy whose "
             "sub-circuits reuse templates; operations: update_var on one node (first / middle / last), on initial values, with "
             "per-node arrays over `all` (constants and initial values), repeated and mixed sequences of up to 4 calls, an edge "
             "weight, apply(node_values=...) after update_var and on a shared template, node_values dictionaries with a scalar over `all` "
             "followed by narrower entries (single node, per-node array, hierarchy), node templates that are distinct objects derived "
             "from one another (update_template(name=...)) or built from one overrides dictionary; afterwards the compiled arguments, "
             "initial state and vector field must equal those of the model with exactly the addressed nodes overridden; "
             "vectorize off and on; distinct = (scenario, vectorize)",
        sample_of=cases.sample_of)
    driver.run_sequences(chk, "overrides-vs-spec-args-in-sequence", _cases, _results, cases.case_fn, site="C07/overrides",
                         limit=20 if chk.tier == "quick" else 120, seed=chk.seed)
    rc = chk.finish(
        explanation="Bounded: each scenario applies the operations through the real API and to the MDL (harness) and checks the "
                    "C01 clauses (layout, argument values, derivative) against the overridden MDL.",
        assumptions=["mdl_override (harness): array values are distributed one per addressed node in declaration (path) order", "spec_rhs"])
    sys.exit(rc)


if __name__ == "__main__":
    main()
