"""C07 check: overrides reach exactly their targets (bounded)."""
import os
import sys

HERE = os.path.dirname(os.path.dirname(os.path.abspath(__file__)))
sys.path.insert(0, HERE)

from vlib.harness import Check            # noqa: E402
from rtc import gen, driver, cases        # noqa: E402


def families(tier, seed):
    out = []
    for tag, feats, model, ops in gen.c07_cases():
        for vec in (False, True):
            out.append(dict(tag=tag, features=feats, kind="overrides", model=model, ops=ops, vec=vec, seed=seed,
                            share=feats.get("share", True)))
    m_e = {t: mm for t, f, mm, o in gen.c07_cases()}["U1-single-node-const"]
    for which in ("base", "variant"):
        for vec in (False, True):
            out.append(dict(tag=f"U27-edge-override-on-derived-circuit/{which}", features=dict(derived=True, which=which), kind="derived_edge", model=m_e,
                            which=which, vec=vec, seed=seed))
    for how in ("update_var", "node_values"):
        for vec in (False, True):
            out.append(dict(tag=f"U28-complex-and-numpy-scalar-overrides/{how}", features=dict(complex_override=True, how=how),
                            kind="complex_override", how=how, vec=vec))
    for how in ("update_var", "node_values"):
        for vec in (False, True):
            out.append(dict(tag=f"U30-one-subcircuit-object-used-twice/{how}", features=dict(shared_subcircuit_object=True, how=how),
                            kind="shared_subcircuit", how=how, vec=vec))
    for how in ("update_var", "node_values"):
        out.append(dict(tag=f"U31-real-declared-parameter-complex-override/{how}", features=dict(float_declared_complex=True, how=how),
                        kind="float_declared_complex", how=how, vec=False))
    for which in ("base", "derived"):
        for vec in (False, True):
            out.append(dict(tag=f"U33-update_var-on-hierarchy-derived-out-of-place/{which}", features=dict(derived_hierarchy=True, which=which),
                            kind="derived_hierarchy", which=which, vec=vec))
    out.append(dict(tag="U32-nano-scale-overrides-through-a-yaml-round-trip", features=dict(tiny_roundtrip=True), kind="tiny_roundtrip", vec=False))
    for how in ("edge attributes", "update_var"):
        for vec in (False, True):
            out.append(dict(tag=f"U34-nano-scale-edge-weights-on-a-twelve-node-ring/{how}", features=dict(tiny_edge_ring=True, how=how), kind="tiny_edge_ring", how=how, vec=vec))
    for vec in (False, True):
        out.append(dict(tag="U29-to_yaml-between-two-compilations", features=dict(yaml_between=True), kind="yaml_between", vec=vec))
    for how in ("update_var", "node_values"):
        for vec in (False, True):
            out.append(dict(tag=f"U26-integer-declared-parameter/{how}", features=dict(int_declared=True, how=how), kind="int_param", how=how, vec=vec))
    return out


def int_param_case(c):
    """A parameter DECLARED with an integer literal (`k: 2`, as in many YAML templates) and overridden with a non-integer value:
    the compiled argument must carry the override."""
    import numpy as np
    from pyrates import OperatorTemplate, NodeTemplate, CircuitTemplate
    op = OperatorTemplate(name="o", equations=["d/dt * x = -x*k + b"], variables={"x": "output(0.5)", "k": 2, "b": 1}, path=None)
    tpl = CircuitTemplate(name="n", nodes={"p": NodeTemplate(name="nt", operators=[op], path=None)})
    kw = dict(step_size=1e-3, vectorize=c["vec"], verbose=False, float_precision="float64", file_name="intp_mod")
    if c["how"] == "update_var":
        tpl.update_var(node_vars={"p/o/k": 2.5, "p/o/b": 0.25})
    else:
        kw["node_values"] = {"p/o/k": 2.5, "p/o/b": 0.25}
    f, a, names, m = tpl.get_run_func("vf", **kw)
    got = {n.split("/")[-1]: float(np.asarray(v).reshape(-1)[0]) for n, v in zip(names[3:], a[3:])}
    dx = float(np.asarray(f(*a)).reshape(-1)[0])
    fails = []
    if abs(got.get("k", 0) - 2.5) > 1e-12 or abs(got.get("b", 0) - 0.25) > 1e-12 or abs(dx - (-0.5 * 2.5 + 0.25)) > 1e-9:
        fails.append(dict(clause="an override of a parameter declared with an integer literal reaches the compiled function unchanged",
                          observed=dict(args=got, dx=dx), expected=dict(args={"k": 2.5, "b": 0.25}, dx=-1.0)))
    return dict(status="violated" if fails else "ok", fails=fails)


def derived_edge_case(c):
    """base -> variant = base.update_template(edges=[extra]); variant.update_var(edge weight); the BASE compiles with its own weight."""
    import numpy as np
    from rtc import mdl, oracle
    m = c["model"]
    base = mdl.build_templates(m)
    e0 = m["edges"][0]
    variant = base.update_template(name="variant", edges=[(m["edges"][1]["src"], m["edges"][0]["tgt"], None, {"weight": 0.123})])
    variant.update_var(edge_vars=[(e0["src"], e0["tgt"], {"weight": 7.0})])
    if c["which"] == "base":
        expected, tpl = m, base
    else:
        import json
        expected = json.loads(json.dumps(m))
        expected["edges"][0]["w"] = 7.0
        expected["edges"].append(dict(src=m["edges"][1]["src"], tgt=m["edges"][0]["tgt"], w=0.123, d=None, s=None))
        tpl = variant
    try:
        comp = oracle.compile_model(expected, vectorize=c["vec"], tpl=tpl)
    except Exception as exn:
        return dict(status="violated", fails=[dict(clause="derived / base circuit compiles", observed=f"{type(exn).__name__}: {exn}")])
    fails = oracle.check_vector_field(expected, comp, np.random.default_rng(c.get("seed", 0)), n_states=2, n_param_draws=0, vectorized=c["vec"])
    for f in fails:
        f["clause"] = f"edge override on a derived circuit ({c['which']} circuit afterwards): " + f["clause"]
    return dict(status="violated" if fails else "ok", fails=fails[:2])


def complex_override_case(c):
    """Complex-valued constants / initial values overridden per node (array over `all`) and on single nodes with numpy scalar
    types: the compiled arguments, the initial state and the vector field carry exactly those values."""
    import numpy as np
    from pyrates import OperatorTemplate, NodeTemplate, CircuitTemplate
    op = OperatorTemplate(name="zo", equations=["d/dt * z = (g - k)*z + u"], path=None,
                          variables={"z": "output(complex)", "u": "input(complex)", "k": 1.5, "g": 0.5 + 0.0j})
    nt = NodeTemplate(name="zn", operators=[op], path=None)
    tpl = CircuitTemplate(name="zc", nodes={"p": nt, "q": nt, "r": nt}, edges=[("p/zo/z", "q/zo/u", None, {"weight": 0.25})])
    g = np.array([0.5 + 1.0j, -2.0 + 0.5j, 1.0j])
    z0 = np.array([0.3 - 0.1j, 0.2j, -0.6 + 0.0j])
    k = np.array([1.5, 1.5, 1.5])
    kw = dict(step_size=1e-3, vectorize=c["vec"], verbose=False, float_precision="complex128", file_name="cplx_mod")
    if c["how"] == "update_var":
        tpl.update_var(node_vars={"all/zo/g": g, "all/zo/z": z0})
        tpl.update_var(node_vars={"q/zo/k": np.float64(2.75), "r/zo/g": np.complex128(0.125 - 0.5j)})
    else:
        kw["node_values"] = {"all/zo/g": g, "all/zo/z": z0, "q/zo/k": np.float64(2.75), "r/zo/g": np.complex128(0.125 - 0.5j)}
    g = g.copy()
    g[2], k[1] = 0.125 - 0.5j, 2.75
    f, a, names, m = tpl.get_run_func("vf", **kw)
    am = dict(zip(names, a))
    fails = []

    def cmp(what, obs, exp):
        obs, exp = np.asarray(obs, dtype=complex).ravel(), np.asarray(exp, dtype=complex).ravel()
        if obs.shape != exp.shape or not np.allclose(obs, exp, rtol=1e-12, atol=1e-12):
            fails.append(dict(clause=f"complex / numpy-scalar override reaches the compiled function unchanged: {what}",
                              observed=[str(x) for x in obs], expected=[str(x) for x in exp]))
    got_g = np.concatenate([np.asarray(v, dtype=complex).ravel() for n, v in am.items() if n.endswith("/zo/g")])
    got_k = np.concatenate([np.asarray(v, dtype=complex).ravel() for n, v in am.items() if n.endswith("/zo/k")])
    cmp("g (p, q, r)", got_g, g)
    cmp("k (p, q, r)", got_k, k)
    cmp("initial state", am["y"], z0)
    cmp("vector field at the initial state", f(*a), (g - k) * z0 + np.array([0.0, 0.25 * z0[0], 0.0]))
    return dict(status="violated" if fails else "ok", fails=fails[:3])


def yaml_between_compiles_case(c):
    """Overrides given through the node-template route on a SHARED OperatorTemplate; the circuit is compiled, written with
    to_yaml and compiled again: every node keeps exactly its own values (both compilations are compared with the spec)."""
    import json
    import numpy as np
    from pyrates import OperatorTemplate, NodeTemplate, CircuitTemplate
    from rtc import mdl, oracle
    op = OperatorTemplate(name="o", equations=["d/dt * x = (k - x)/tau + u"], path=None,
                          variables={"x": "output(0.1)", "u": "input(0.0)", "k": 1.5, "tau": 2.0})
    over = {"a": {"tau": 5.0}, "b": {}, "c": {"k": 3.0, "x": 0.7}, "d": {"k": -1.0}}
    nodes = {n: NodeTemplate(name=f"nt_{n}", operators={op: dict(o)} if o else [op], path=None) for n, o in over.items()}
    tpl = CircuitTemplate(name="yc", nodes=nodes, edges=[("a/o/x", "b/o/u", None, {"weight": 0.5}), ("c/o/x", "d/o/u", None, {"weight": -0.5})])
    exp = {n: dict(dict(k=1.5, tau=2.0, x=0.1), **o) for n, o in over.items()}
    fails = []
    for stage in ("before to_yaml", "after to_yaml"):
        f, a, names, m = tpl.get_run_func("vf", step_size=1e-3, vectorize=c["vec"], verbose=False, float_precision="float64",
                                          file_name="yb_mod", in_place=False, clear=True)
        am = dict(zip(names, a))
        for v in ("k", "tau"):
            got = np.concatenate([np.asarray(val, dtype=float).ravel() for n, val in am.items() if n.endswith(f"/o/{v}")])
            want = np.array([exp[n][v] for n in over])
            if got.shape != want.shape or not np.allclose(got, want, rtol=0, atol=1e-12):
                fails.append(dict(clause=f"{stage}: parameter {v} of the nodes (a, b, c, d) built on one shared operator",
                                  observed=got.tolist(), expected=want.tolist()))
        y0 = np.asarray(am["y"], dtype=float).ravel()
        want = np.array([exp[n]["x"] for n in over])
        if y0.shape != want.shape or not np.allclose(y0, want, atol=1e-12):
            fails.append(dict(clause=f"{stage}: initial state of the nodes (a, b, c, d)", observed=y0.tolist(), expected=want.tolist()))
        if stage == "before to_yaml":
            tpl.to_yaml("yb_dump")
    return dict(status="violated" if fails else "ok", fails=fails[:3])


def derived_hierarchy_case(c):
    """A hierarchical circuit derived out of place (update_template(circuits=...)) and then edited with update_var: the circuit it was
    derived from compiles with its own values (and the derived one with the edited ones)."""
    import numpy as np
    from pyrates import OperatorTemplate, NodeTemplate, CircuitTemplate
    op = OperatorTemplate(name="o", path=None, equations=["d/dt * x = -k*x + inp"], variables={"x": "output(0.5)", "k": 2.0, "inp": "input(0.0)"})
    node = NodeTemplate(name="pop", path=None, operators=[op])

    def sub(name):
        return CircuitTemplate(name=name, path=None, nodes={"a": node, "b": node}, edges=[("a/o/x", "b/o/inp", None, {"weight": 0.5})])
    base = CircuitTemplate(name="H", path=None, circuits={"c1": sub("S1"), "c2": sub("S2")}, edges=[("c1/a/o/x", "c2/a/o/inp", None, {"weight": 0.1})])
    ext = base.update_template(name="H2", circuits={"c3": sub("S3")}, in_place=False)
    ext.update_var(node_vars={"c1/a/o/k": 9.0, "c2/b/o/x": 0.1})
    which = base if c["which"] == "base" else ext
    f, a, names, m = which.get_run_func("vf", step_size=1e-3, vectorize=c["vec"], verbose=False, in_place=False, clear=True, float_precision="float64",
                                        file_name="dh_mod")
    am = dict(zip(names, a))
    got_k = np.concatenate([np.asarray(v, dtype=float).ravel() for n, v in am.items() if n.endswith("/o/k")])
    y0 = np.asarray(am["y"], dtype=float).ravel()
    if c["which"] == "base":
        want_k, want_y = [2.0] * 4, [0.5] * 4
    else:
        want_k, want_y = [9.0, 2.0, 2.0, 2.0, 2.0, 2.0], [0.5, 0.5, 0.5, 0.1, 0.5, 0.5]
    fails = []
    if got_k.tolist() != want_k or not np.allclose(sorted(y0.tolist()), sorted(want_y)):
        fails.append(dict(clause=f"update_var on a hierarchical circuit derived out of place: the {c['which']} circuit has its own values",
                          observed=dict(k=got_k.tolist(), y0=y0.tolist()), expected=dict(k=want_k, y0_sorted=sorted(want_y))))
    return dict(status="violated" if fails else "ok", fails=fails)


def tiny_override_roundtrip_case(c):
    """Overrides of SI-scale constants (nano-units) that differ from the default by a few 1e-9 survive to_yaml / from_yaml and reach
    exactly the addressed node (the dump must keep definitions apart that differ at all, however little)."""
    import numpy as np
    from pyrates import OperatorTemplate, NodeTemplate, CircuitTemplate, clear_frontend_caches
    op = OperatorTemplate(name="lk", path=None, equations=["d/dt * v = (-g_l*(v - e_l) + i_ext + i_syn) / c_m"],
                          variables={"v": "output(-0.065)", "g_l": 5e-9, "e_l": -0.065, "c_m": 1e-10, "i_ext": 2e-10, "i_syn": "input(0.0)"})
    node = NodeTemplate(name="lkn", path=None, operators=[op])
    net = CircuitTemplate(name="tn", path=None, nodes={f"n{i}": node for i in range(4)}, edges=[("n0/lk/v", "n3/lk/i_syn", None, {"weight": 1e-9})])
    # (the overridden nodes carry no edges: a dumped override renames the operator and edges on it are the listed C15 finding)
    net.update_var(node_vars={"n1/lk/g_l": 8e-9, "n2/lk/e_l": -0.07, "n2/lk/g_l": 5.000001e-9})
    want = {"g_l": [5e-9, 8e-9, 5.000001e-9, 5e-9], "e_l": [-0.065, -0.065, -0.07, -0.065]}
    fails = []
    for stage in ("in memory", "after to_yaml / from_yaml"):
        if stage != "in memory":
            net.to_yaml("tiny_rt/net.yaml")
            clear_frontend_caches()
            net = CircuitTemplate.from_yaml("tiny_rt/net/tn")
        f, a, names, m = net.get_run_func("vf", step_size=1e-4, vectorize=False, verbose=False, in_place=False, clear=True,
                                          float_precision="float64", file_name="tiny_mod")
        for var, exp in want.items():
            got = []
            for i in range(4):
                v_ = [np.asarray(val, dtype=float).ravel()[0] for nm, val in zip(names, a) if nm.startswith(f"n{i}/") and nm.endswith(f"/{var}")]
                got.append(float(v_[0]) if len(v_) == 1 else None)
            if got != exp:
                fails.append(dict(clause=f"{stage}: every node keeps exactly its own value of {var} (values a few 1e-9 apart)", observed=got, expected=exp))
    return dict(status="violated" if fails else "ok", fails=fails[:2])


def float_declared_complex_case(c):
    """A parameter declared with a real literal in a complex-valued model, overridden with a complex value."""
    import numpy as np
    from pyrates import OperatorTemplate, NodeTemplate, CircuitTemplate
    op = OperatorTemplate(name="o", path=None, equations=["d/dt * z = -k*z"], variables={"z": "output(complex)", "k": 2.0})
    tpl = CircuitTemplate(name="fc", path=None, nodes={"a": NodeTemplate(name="pop", path=None, operators=[op])})
    kw = dict(step_size=1e-3, vectorize=c["vec"], verbose=False, in_place=False, clear=True, float_precision="complex128", file_name="fdc")
    if c["how"] == "update_var":
        tpl.update_var(node_vars={"a/o/k": 1.0 + 2.0j})
    else:
        kw["node_values"] = {"a/o/k": 1.0 + 2.0j}
    f, a, names, m = tpl.get_run_func("vf", **kw)
    got = complex(np.asarray(dict(zip(names, a))["a/o/k"]).ravel()[0])
    fails = []
    if abs(got - (1.0 + 2.0j)) > 1e-12:
        fails.append(dict(clause="a complex override of a parameter declared with a real literal reaches the compiled function unchanged",
                          observed=str(got), expected=str(1.0 + 2.0j)))
    return dict(status="violated" if fails else "ok", fails=fails)


def shared_subcircuit_case(c):
    """A hierarchy whose two sub-circuits are ONE CircuitTemplate object: update_var / node_values addressed to c1/... leaves c2/... alone."""
    import numpy as np
    from pyrates import OperatorTemplate, NodeTemplate, CircuitTemplate
    op = OperatorTemplate(name="o", path=None, equations=["d/dt * x = -k*x + inp"], variables={"x": "output(1.0)", "k": 2.0, "inp": "input(0.0)"})
    node = NodeTemplate(name="pop", path=None, operators=[op])
    sub = CircuitTemplate(name="S", path=None, nodes={"a": node, "b": node}, edges=[("a/o/x", "b/o/inp", None, {"weight": 0.5})])
    top = CircuitTemplate(name="T", path=None, circuits={"c1": sub, "c2": sub}, edges=[("c1/a/o/x", "c2/a/o/inp", None, {"weight": 0.1})])
    kw = dict(step_size=1e-3, vectorize=c["vec"], verbose=False, in_place=False, clear=True, float_precision="float64", file_name="shsub")
    if c["how"] == "update_var":
        top.update_var(node_vars={"c1/a/o/k": 9.0})
    else:
        kw["node_values"] = {"c1/a/o/k": 9.0}
    f, a, names, m = top.get_run_func("vf", **kw)
    got = np.concatenate([np.asarray(v, dtype=float).ravel() for n, v in zip(names, a) if n.endswith("/o/k")])
    want = np.array([9.0, 2.0, 2.0, 2.0])
    fails = []
    if got.shape != want.shape or not np.allclose(got, want):
        fails.append(dict(clause="an override addressed to c1/a leaves the equally built c2/a alone (sub-circuits that are one object)",
                          observed=got.tolist(), expected=want.tolist()))
    return dict(status="violated" if fails else "ok", fails=fails)


def tiny_edge_ring_case(c):
    """Twelve nodes sharing one NodeTemplate, one edge i-1 -> i each, per-edge weights of a few 1e-9 that all differ (given as edge attributes
    or overridden with update_var(edge_vars=...)): every edge delivers its OWN weight — dv_i = (w_i*v_(i-1) - g*v_i)/c_m at the initial state."""
    import numpy as np
    from pyrates import OperatorTemplate, NodeTemplate, CircuitTemplate
    n, g, cm = 12, 5e-9, 1e-10
    v0 = [-0.06 + 0.001 * i for i in range(n)]
    w = [(1.0 + 0.25 * i) * 1e-9 for i in range(n)]
    op = OperatorTemplate(name="lk", path=None, equations=["d/dt * v = (i_syn - g_l*v) / c_m"],
                          variables={"v": "output(0.0)", "g_l": g, "c_m": cm, "i_syn": "input(0.0)"})
    node = NodeTemplate(name="lkn", path=None, operators=[op])
    given = c["how"] == "edge attributes"
    net = CircuitTemplate(name="ring12", path=None, nodes={f"n{i}": node for i in range(n)},
                          edges=[(f"n{(i - 1) % n}/lk/v", f"n{i}/lk/i_syn", None, {"weight": w[i] if given else 2e-9}) for i in range(n)])
    net.update_var(node_vars={f"n{i}/lk/v": v0[i] for i in range(n)})
    if not given:
        net.update_var(edge_vars=[(f"n{(i - 1) % n}/lk/v", f"n{i}/lk/i_syn", {"weight": w[i]}) for i in range(n)])
    f, a, names, m = net.get_run_func("vf", step_size=1e-4, vectorize=c["vec"], verbose=False, in_place=False, clear=True, float_precision="float64",
                                      file_name="ring12_mod")
    y = np.asarray(a[1], dtype=float).copy()
    dy = np.asarray(f(*a), dtype=float).copy()
    from rtc import oracle
    pos = {i: oracle.position_of(net, m, f"n{i}/lk/v") for i in range(n)} if hasattr(oracle, "position_of") else None
    fails = []
    if pos is None or any(p_ is None for p_ in pos.values()):
        # layout by value: the initial states are pairwise different
        pos = {i: int(np.argmin(np.abs(y - v0[i]))) for i in range(n)}
    got = [float(dy[pos[i]]) for i in range(n)]
    want = [(w[i] * v0[(i - 1) % n] - g * v0[i]) / cm for i in range(n)]
    if not np.allclose(got, want, rtol=1e-9, atol=1e-12):
        bad = int(np.argmax(np.abs(np.asarray(got) - np.asarray(want))))
        fails.append(dict(clause=f"weights given by {c['how']}: every edge of the ring delivers its own (nano-scale) weight", var=f"n{bad}/lk/v",
                          observed=got[bad], expected=want[bad]))
    return dict(status="violated" if fails else "ok", fails=fails)


def case_fn(c):
    if c["kind"] == "tiny_edge_ring":
        return tiny_edge_ring_case(c)
    if c["kind"] == "derived_hierarchy":
        return derived_hierarchy_case(c)
    if c["kind"] == "tiny_roundtrip":
        return tiny_override_roundtrip_case(c)
    if c["kind"] == "float_declared_complex":
        return float_declared_complex_case(c)
    if c["kind"] == "shared_subcircuit":
        return shared_subcircuit_case(c)
    if c["kind"] == "complex_override":
        return complex_override_case(c)
    if c["kind"] == "yaml_between":
        return yaml_between_compiles_case(c)
    if c["kind"] == "int_param":
        return int_param_case(c)
    if c["kind"] == "derived_edge":
        return derived_edge_case(c)
    return cases.case_fn(c)


def main():
    chk = Check("C07", "other")
    # deductive core: frame (ownership) contracts of the functions this property rests on (contracts/frames.py)
    chk.run_frames()
    _cases = families(chk.tier, chk.seed)
    _results = driver.run_family(
        chk, "overrides-vs-spec-args", _cases, case_fn, site="C07/overrides",
        rule="three nodes built from ONE NodeTemplate object, two templates interleaved T1,T2,T1,T2, a hierarchy whose "
             "sub-circuits reuse templates; operations: update_var on one node (first / middle / last), on initial values, with "
             "per-node arrays over `all` (constants and initial values), repeated and mixed sequences of up to 4 calls, an edge "
             "weight, apply(node_values=...) after update_var and on a shared template, node_values dictionaries with a scalar over `all` "
             "followed by narrower entries (single node, per-node array, hierarchy), node templates that are distinct objects derived "
             "from one another (update_template(name=...)) or built from one overrides dictionary; afterwards the compiled arguments, "
             "initial state and vector field must equal those of the model with exactly the addressed nodes overridden; "
             "vectorize off and on; distinct = (scenario, vectorize)",
        sample_of=cases.sample_of)
    driver.run_sequences(chk, "overrides-vs-spec-args-in-sequence", _cases, _results, case_fn, site="C07/overrides",
                         limit=20 if chk.tier == "quick" else 120, seed=chk.seed)
    rc = chk.finish(
        explanation="Bounded: each scenario applies the operations through the real API and to the MDL (harness) and checks the "
                    "C01 clauses (layout, argument values, derivative) against the overridden MDL.",
        assumptions=["mdl_override (harness): array values are distributed one per addressed node in declaration (path) order", "spec_rhs"])
    sys.exit(rc)


if __name__ == "__main__":
    main()
