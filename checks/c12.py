"""C12 check: get_jacobian_func is the derivative of get_run_func (bounded)."""
import os
import sys

HERE = os.path.dirname(os.path.dirname(os.path.abspath(__file__)))
sys.path.insert(0, HERE)

from vlib.harness import Check            # noqa: E402
from rtc import gen, driver, cases        # noqa: E402


def families(tier, seed):
    out = []
    for tag, feats, model in gen.c12_models():
        for sparse in (False, True):
            out.append(dict(tag=tag, features=dict(feats, sparse=sparse), kind="jacobian", model=model, seed=seed + 5, sparse=sparse))
    if tier == "thorough":
        for tag, feats, model in gen.c01_random(seed + 50, 40):
            out.append(dict(tag=tag, features=dict(feats, sparse=False), kind="jacobian", model=model, seed=seed + 6, sparse=False))
    return out


def main():
    chk = Check("C12", "other")
    # deductive part: the state-layout loop of get_jacobian_func satisfies the same contract as to_func's (same state ordering)
    chk.run_contracts("contracts.c01", names=["ComputeGraph.get_jacobian_func@state-layout"], fallback={"*": lambda: []})
    _cases = families(chk.tier, chk.seed)
    _results = driver.run_family(
        chk, "jacobian-vs-central-differences", _cases, cases.case_fn, site="C12/jacobian",
        rule="scalar (vectorize=False) models: linear networks, algebraic chains and diamonds, fan-in, sigmoid / sin / cos / tanh / "
             "exp / absv non-linearities, products and quotients, two-state operators, a state with a state-independent right-hand "
             "side that is not last, delayed models with the delayed variable first / second, two delays on two variables, one "
             "variable at two delays, a product with a delayed factor; dense and sparse; J(t,y) against central differences "
             "(h = 1e-6, float64, rtol 1e-5) of the get_run_func field at random states in the SAME ordering (maps compared); history "
             "matrices by perturbing a hand-made hist vector; distinct = (model, sparse)",
        sample_of=lambda c: {k: v for k, v in c.items() if k != "features"})
    # auto-07p DFDU / DFDP blocks: the same identity with respect to state and parameters (text-level, see checks/c18_text.py)
    from checks import c18_text
    c18_text.run(chk, site="C12/auto-jacobian", sizes=(3, 12))
    driver.run_sequences(chk, "jacobian-vs-central-differences-in-sequence", _cases, _results, cases.case_fn, site="C12/jacobian",
                         limit=20 if chk.tier == "quick" else 120, seed=chk.seed)
    rc = chk.finish(
        explanation="Deductive (small core): the state-layout loop of get_jacobian_func satisfies the SAME contract as the one in "
                    "to_func (checked under C01); the contract determines the layout uniquely, hence the same state ordering for any "
                    "model. Bounded: the matrix returned by the real Jacobian function against finite differences of the real vector field.",
        assumptions=["central differences with h = 1e-6 in float64 (truncation error 1e-10 on these models)",
                     "for several delays only the SUM of the history matrices is compared (no assumption on their order)"])
    sys.exit(rc)


if __name__ == "__main__":
    main()
