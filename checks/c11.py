"""C11 check: distributed delays (gamma kernels) against the explicitly augmented linear-chain ODE (bounded)."""
import os
import sys

HERE = os.path.dirname(os.path.dirname(os.path.abspath(__file__)))
sys.path.insert(0, HERE)

from vlib.harness import Check            # noqa: E402
from rtc import gen, driver, cases        # noqa: E402


def families(tier, seed):
    out = []
    grid = [(0.5, 0.01)] if tier == "quick" else [(0.5, 0.01), (1.0, 0.005), (0.3, 0.002)]
    for tag, feats, model in gen.delay_families("gamma"):
        for (T, dt) in grid:
            for vec in (False, True):
                out.append(dict(tag=f"{tag}/{T}/{dt}", features=dict(feats, dt=dt), kind="run", model=model, T=T, dt=dt, dts=None,
                                solver="euler", vec=vec))
                if tier == "thorough":
                    out.append(dict(tag=f"{tag}/{T}/{dt}/heun", features=dict(feats, dt=dt), kind="run", model=model, T=T, dt=dt,
                                    dts=None, solver="heun", vec=vec))
    # Connectivity (matrix) edges: same meaning as on scalar edges (C16 has the full population family)
    for tag, feats, ps in gen.c16_cases(seed):
        if tag.startswith("P6"):
            dt = feats.get("dt", 0.05)
            out.append(dict(tag=tag, features=feats, kind="population", ps=ps, T=10 * dt if dt >= 0.05 else 0.5, dt=dt))
    return out


def main():
    chk = Check("C11", "exploration")
    _cases = families(chk.tier, chk.seed)
    _results = driver.run_family(
        chk, "run-vs-explicit-gamma-chain", _cases, cases.case_fn, site="C11/run",
        rule="edges with (delay, spread) pairs rounding to equal and to different orders, same order with different rate, same "
             "delay with different spread, shared sources, shared targets, mixtures with undelayed edges, 4-node rings; "
             "vectorize off and on; every user state variable, every row against the explicit chain of n = round((d/s)^2) "
             "first-order stages of rate n/d (spec_fixed_step); distinct = distinct (model, T, dt, solver, vectorize)",
        sample_of=lambda c: {k: v for k, v in c.items() if k not in ('features',)})
    driver.run_sequences(chk, "run-vs-explicit-gamma-chain-in-sequence", _cases, _results, cases.case_fn, site="C11/run",
                         limit=20 if chk.tier == "quick" else 120, seed=chk.seed)
    rc = chk.finish(
        explanation="Bounded: run() of every family member against the explicitly written augmented ODE system integrated "
                    "with the same fixed-step scheme by the spec. Unit gain and mean delay d follow from the chain definition "
                    "(n stages of rate n/d) that the spec uses; they are not re-derived here.",
        assumptions=["spec_fixed_step (harness) writes the chain of the property statement: n = round((d/s)^2) stages, rate n/d, "
                     "zero initial chain state, target receives w * last stage"])
    sys.exit(rc)


if __name__ == "__main__":
    main()
