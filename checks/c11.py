"""C11 check: distributed delays (gamma kernels) against the explicitly augmented linear-chain ODE (bounded)."""
import os
import sys

HERE = os.path.dirname(os.path.dirname(os.path.abspath(__file__)))
sys.path.insert(0, HERE)

from vlib.harness import Check            # noqa: E402
from rtc import gen, driver, cases        # noqa: E402


def families(tier, seed):
    out = []
    grid = [(0.5, 0.01)] if tier == "quick" else [(0.5, 0.01), (1.0, 0.005), (0.3, 0.002)]
    for tag, feats, model in gen.delay_families("gamma"):
        for (T, dt) in grid:
            for vec in (False, True):
                out.append(dict(tag=f"{tag}/{T}/{dt}", features=dict(feats, dt=dt), kind="run", model=model, T=T, dt=dt, dts=None,
                                solver="euler", vec=vec))
                if tier == "thorough":
                    out.append(dict(tag=f"{tag}/{T}/{dt}/heun", features=dict(feats, dt=dt), kind="run", model=model, T=T, dt=dt,
                                    dts=None, solver="heun", vec=vec))
    # two parallel edges between one pair of variables with different delays (fixed witness of a listed finding)
    tag_, feats_, model_ = gen.parallel_delay_model("gamma")
    for vec in (False, True):
        T_, dt_ = (0.5, 0.01)
        out.append(dict(tag=f"{tag_}/{T_}/{dt_}", features=dict(feats_, dt=dt_), kind="run", model=model_, T=T_, dt=dt_, dts=None, solver="euler", vec=vec))
    # kernels that come from successive edits (two different node types, so every edge is a group of its own)
    pop_ = gen.op_li("op", x="r", ins=("r_in",), tau=2.0, x0=0.4, in_defaults={"r_in": 0.0})
    tgt_ = gen.op_li("tg", x="v", ins=("u",), tau=1.0, x0=0.1, in_defaults={"u": 0.0})
    m_ed = gen.model([pop_, tgt_], {"p1": dict(ops=["op"]), "t1": dict(ops=["tg"])}, [gen.edge("p1/op/r", "t1/tg/u", 1.0, 0.3, 0.1), gen.edge("t1/tg/v", "p1/op/r_in", 0.4)])
    for how, vecs in (("two-updates", (False, True)), ("parallel-pathway", (True,))):     # (parallel delayed edges do not compile non-vectorised: listed finding)
        for vec in vecs:
            out.append(dict(tag=f"G7-kernel-from-edits/{how}", features=dict(edited=how, dt=0.01), kind="edited_kernel", model=m_ed, how=how, T=0.5, dt=0.01, vec=vec))
    # a group of edges of which only some carry a spread (fixed witness of a listed finding; the non-vectorised compilation is checked)
    tag6, feats6, model6 = gen.mixed_kernel_model()
    for vec in (False, True):
        out.append(dict(tag=f"{tag6}/0.5/0.01", features=dict(feats6, dt=0.01), kind="run", model=model6, T=0.5, dt=0.01, dts=None, solver="euler", vec=vec))
    # Connectivity (matrix) edges: same meaning as on scalar edges (C16 has the full population family)
    for tag, feats, ps in gen.c16_cases(seed):
        if tag.startswith("P6"):
            dt = feats.get("dt", 0.05)
            out.append(dict(tag=tag, features=feats, kind="population", ps=ps, T=10 * dt if dt >= 0.05 else 0.5, dt=dt))
    return out


def edited_kernel_case(c):
    """(delay, spread) given to an edge by successive edits: update_var on the delay, then on the spread (the same edge twice), or a
    second, PARALLEL delayed pathway added with update_template(edges=...): the simulated kernel is the one of the final circuit."""
    import json
    import numpy as np
    from rtc import mdl, oracle
    model = json.loads(json.dumps(c["model"]))
    base = mdl.build_templates(model)
    e0 = model["edges"][0]
    T, dt = c["T"], c["dt"]
    if c["how"] == "two-updates":
        base.update_var(edge_vars=[(e0["src"], e0["tgt"], {"delay": 0.25})])
        base.update_var(edge_vars=[(e0["src"], e0["tgt"], {"spread": 0.05})])
        base.update_var(edge_vars=[(e0["src"], e0["tgt"], {"weight": -0.75})])
        e0.update(d=0.25, s=0.05, w=-0.75)
        tpl = base
    else:
        extra = dict(src=e0["src"], tgt=e0["tgt"], w=0.6, d=0.45, s=0.15)
        tpl = base.update_template(name="with_second_pathway", edges=[(extra["src"], extra["tgt"], None, {"weight": 0.6, "delay": 0.45, "spread": 0.15})])
        model["edges"].append(extra)
    svars = mdl.state_vars(model)
    outs = {f"v{i}": p for i, p in enumerate(svars)}
    try:
        df = tpl.run(simulation_time=T, step_size=dt, solver="euler", outputs=dict(outs), vectorize=c["vec"], verbose=False, clear=True, in_place=False,
                     float_precision="float64")
    except Exception as exn:
        return dict(status="violated", fails=[dict(clause="the edited circuit runs", observed=f"{type(exn).__name__}: {exn}")])
    _, ref = mdl.spec_fixed_step(model, T, dt, dt, "euler")
    fails = []
    for k, p_ in outs.items():
        g, w = np.asarray(df[k], dtype=float).reshape(len(df.index), -1)[:, 0], np.asarray(ref[p_], dtype=float)
        if g.shape != w.shape or not np.allclose(g, w, rtol=1e-7, atol=1e-10):
            bad = int(np.argmax(np.abs(g - w))) if g.shape == w.shape else -1
            fails.append(dict(clause=f"after {c['how']}: every row equals the explicit chain of the FINAL (delay, spread) values", var=p_, row=bad,
                              observed=float(g[bad]) if bad >= 0 else list(g.shape), expected=float(w[bad]) if bad >= 0 else list(w.shape)))
            break
    return dict(status="violated" if fails else "ok", fails=fails)


def case_fn(c):
    if c.get("kind") == "edited_kernel":
        return edited_kernel_case(c)
    return cases.case_fn(c)


def kernel_fallback(chk):
    """Bounded native stand-in / companion of the two kernel-arithmetic contracts: the extracted regions run natively."""
    cache = {}

    def run():
        if "r" in cache:
            return cache["r"]
        from pyvc import native
        from contracts import c11 as K
        fails, n = [], 0
        ds = (0.0, 0.2, 0.3, 0.5, 1.0, 0.127, 3.0)
        ss = (0.0, 0.05, 0.1, 0.15, 0.3, 0.5, 0.2 / 2 ** 0.5, 2.0)
        c0, c1 = K.CONTRACTS
        f0, f1 = native.region_function(c0), native.region_function(c1)
        for approx in (0, 1, 3, 7):
            for d in ds:
                for s_ in ss:
                    n += 1
                    status, fl = native.check_call(c0, K.CLASSES, dict(delays=[d, 0.4], spreads=[s_, 0.1], dde_approx=approx), fn=f0)
                    if status == "violated":
                        fails.append(dict(site="C11/" + c0["name"], clauses=fl[:2], features=dict(d=d, s=s_, dde_approx=approx),
                                          input=dict(delays=[d, 0.4], spreads=[s_, 0.1], dde_approx=approx)))
                    if d > 0:
                        n += 1
                        status, fl = native.check_call(c1, K.CLASSES, dict(delay=d, spread=s_, dde_approx=approx), fn=f1)
                        if status == "violated":
                            fails.append(dict(site="C11/" + c1["name"], clauses=fl[:2], features=dict(d=d, s=s_, dde_approx=approx),
                                              input=dict(delay=d, spread=s_, dde_approx=approx)))
        chk.add_bounded("native-kernel-order-and-rate", n, n,
                        "the two extracted regions (order / rate of the gamma kernel, scalar edges and Connectivity) run natively "
                        "on a grid of (delay, spread, dde_approx) incl. zero delay, zero spread, spread > delay, (d/s)^2 near a "
                        "tie; every contract clause evaluated on the resulting locals; distinct = grid points",
                        [dict(delay=0.3, spread=0.5, dde_approx=0)])
        cache["r"] = fails
        return fails
    return run


def main():
    chk = Check("C11", "other")
    fb = kernel_fallback(chk)
    chk.run_contracts("contracts.c11", fallback={"*": fb})
    for f in fb():
        chk.report_failure(f)
    # "vectorized and non-vectorized forms agree": the helper that decides whether the kernel output / the buffered source is
    # indexed when it is delivered to the grouped targets (contract shared with C04 / C06)
    from checks import c06 as _c06
    cache6 = {}

    def fb6():
        if "r" not in cache6:
            cache6["r"] = [dict(f, site="C11/_get_indexed_var_str") for f in _c06.indexed_var_native(chk)]
        return cache6["r"]
    chk.run_contracts("contracts.c06", fallback={"*": fb6})
    for f in fb6():
        chk.report_failure(f)
    _cases = families(chk.tier, chk.seed)
    _results = driver.run_family(
        chk, "run-vs-explicit-gamma-chain", _cases, case_fn, site="C11/run",
        rule="edges with (delay, spread) pairs rounding to equal and to different orders, same order with different rate, same "
             "delay with different spread, shared sources, shared targets, mixtures with undelayed edges, 4-node rings; "
             "vectorize off and on; every user state variable, every row against the explicit chain of n = round((d/s)^2) "
             "first-order stages of rate n/d (spec_fixed_step); distinct = distinct (model, T, dt, solver, vectorize)",
        sample_of=lambda c: {k: v for k, v in c.items() if k not in ('features',)})
    driver.run_sequences(chk, "run-vs-explicit-gamma-chain-in-sequence", _cases, _results, case_fn, site="C11/run",
                         limit=20 if chk.tier == "quick" else 120, seed=chk.seed)
    rc = chk.finish(
        explanation="Deductive: the number of stages and the stage rate of the kernel (scalar edges: the per-edge loop of "
                    "_add_edge_buffer; Connectivity: the cascade branch of _add_matrix_delay) satisfy n >= 1, rate*d == n, "
                    "n == max(1, round((d/s)^2)[, dde_approx]) for every input - i.e. mean delay d and agreement of the two forms. "
                    "Bounded: run() of every family member against the explicitly written augmented ODE system integrated "
                    "with the same fixed-step scheme by the spec. Unit gain and mean delay d follow from the chain definition "
                    "(n stages of rate n/d) that the spec uses; they are not re-derived here.",
        assumptions=["spec_fixed_step (harness) writes the chain of the property statement: n = round((d/s)^2) stages, rate n/d, "
                     "zero initial chain state, target receives w * last stage"])
    sys.exit(rc)


if __name__ == "__main__":
    main()
