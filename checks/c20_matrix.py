"""C20 tier B: the API-level guard matrix and malformed variants of valid models (bounded)."""
import json
import warnings

import numpy as np

from rtc import gen, driver, mdl, oracle
from rtc.mdl import N, V

SUPPORTED = {"default": ("euler", "heun", "scipy"), "torch": ("euler", "scipy"), "jax": ("euler", "heun", "scipy", "diffrax"),
             "fortran": ("euler", "heun", "scipy")}


def base_models():
    pop = gen.op_li("op", x="r", ins=("r_in",), tau=2.0, x0=0.4, in_defaults={"r_in": 0.0})
    E = gen.edge
    two = {"p1": dict(ops=["op"]), "p2": dict(ops=["op"], over={"op/tau": 3.0})}
    return {
        "none": gen.model([pop], two, [E("p1/op/r", "p2/op/r_in", 1.5), E("p2/op/r", "p1/op/r_in", -0.5)]),
        "discrete": gen.model([pop], two, [E("p1/op/r", "p2/op/r_in", 1.5, 0.3), E("p2/op/r", "p1/op/r_in", -0.5)]),
        "gamma": gen.model([pop], two, [E("p1/op/r", "p2/op/r_in", 1.5, 0.3, 0.1), E("p2/op/r", "p1/op/r_in", -0.5)]),
        # a plain discrete delay registered BEFORE a gamma-kernel edge (both must be seen by the guard)
        "discrete-then-gamma": gen.model([pop], dict(two, p3=dict(ops=["op"], over={"op/tau": 1.0})),
                                         [E("p1/op/r", "p2/op/r_in", 1.5, 0.3), E("p2/op/r", "p3/op/r_in", 0.7, 0.3, 0.1),
                                          E("p3/op/r", "p1/op/r_in", -0.5)]),
    }


def expected_outcome(backend, solver, vectorize, delay, sparse, what):
    """'raises' or 'returns', derived from the declared support of each backend."""
    if solver not in SUPPORTED[backend]:
        return "raises"
    if vectorize and backend == "fortran":
        return "raises"
    fixed = solver in ("euler", "heun")
    if delay in ("discrete", "discrete-then-gamma") and fixed and backend == "jax":
        return "raises"           # ring buffer on immutable arrays
    if what == "jacobian" and sparse and backend == "jax":
        return "raises"
    return "returns"


def matrix_case(c):
    model = base_models()[c["delay"]]
    tpl = mdl.build_templates(model)
    kw = dict(step_size=0.1, backend=c["backend"], vectorize=c["vectorize"], verbose=False, clear=True, in_place=False,
              float_precision="float64")
    outcome = "returns"
    detail = ""
    try:
        with warnings.catch_warnings():
            warnings.simplefilter("ignore")
            if c["what"] == "run":
                extra = {"solver": c["solver"]}
                if c["solver"] == "scipy":
                    extra["method"] = "RK23"
                df = tpl.run(simulation_time=0.5, outputs={"o": "p1/op/r"}, **kw, **extra)
                if not np.all(np.isfinite(np.asarray(df.values, dtype=float))):
                    detail = "non-finite"
            else:
                tpl.get_jacobian_func("jf", sparse=c["sparse"], solver=c["solver"], file_name="jm", **kw)
    except Exception as exn:
        outcome = "raises"
        detail = f"{type(exn).__name__}: {str(exn)[:120]}"
    exp = expected_outcome(c["backend"], c["solver"], c["vectorize"], c["delay"], c.get("sparse", False), c["what"])
    if outcome != exp:
        if exp == "raises":
            return dict(status="violated", fails=[dict(clause="an unsupported combination raises instead of returning numbers", observed="returned a result",
                                                       expected="exception")])
        # an unexpected exception on a supported combination is a C01/C02 matter unless it is the guard itself misfiring
        if "NotImplemented" in detail or "not support" in detail or "not implemented" in detail:
            return dict(status="violated", fails=[dict(clause="a supported combination is not refused", observed=detail, expected="result")])
        return dict(status="skipped")
    return dict(status="ok")


def malformed_variants():
    """(tag, expectation 'raises' | 'warns', builder)."""
    out = []

    def good():
        a = gen.op_li("rate", x="r", ins=("r_in",), tau=2.0, x0=0.4, in_defaults={"r_in": 0.0})
        b = gen.op_alg("rate_adapt", out="r_in", src="g", fn="tanh", k=0.5, c=0.1, src_default=0.2)
        return gen.model([a, b], {"p1": dict(ops=["rate", "rate_adapt"]), "p2": dict(ops=["rate"])}, [gen.edge("p1/rate/r", "p2/rate/r_in", 1.5)])
    m = good()
    out.append(("M0-valid-control", "returns", m, {}))
    # equation mentions an undeclared variable (declared only in the sibling operator whose name has this operator's name as prefix)
    # ... the sibling sits in the SAME layer of the operator graph (no connection between the two operators)
    a1 = gen.op_li("rate", x="r", ins=("r_in",), tau=2.0, x0=0.4, in_defaults={"r_in": 0.0}, extra=V("g"))
    b1 = dict(name="rate_adapt", eqs=[["a", "de", ["-", ["*", V("g"), N(0.1)], V("a")]]], vars={"a": ["output", 0.1], "g": ["const", 2.5]})
    m1 = gen.model([a1, b1], {"p1": dict(ops=["rate", "rate_adapt"]), "p2": dict(ops=["rate", "rate_adapt"])}, [gen.edge("p1/rate/r", "p2/rate/r_in", 1.5)])
    out.append(("M1-undeclared-variable-declared-in-sibling", "raises", m1, {}))
    a1s = dict(name="rate", eqs=[["r", "de", ["+", ["/", ["-", V("g"), V("r")], V("tau")], V("u")]]],
               vars={"r": ["output", 0.1], "u": ["input", 0.0], "tau": ["const", 2.0]})
    b1s = dict(name="rate_adapt", eqs=[["a", "de", ["/", ["-", ["*", V("g"), V("b")], V("a")], V("tau_a")]]],
               vars={"a": ["output", 0.0], "b": ["const", 1.0], "g": ["const", 3.0], "tau_a": ["const", 5.0]})
    out.append(("M1s-undeclared-variable-single-node", "raises", gen.model([a1s, b1s], {"p2": dict(ops=["rate", "rate_adapt"])}), {}))
    b1r = dict(b1, name="adapt_rate")
    m1b = gen.model([a1, b1r], {"p1": dict(ops=["adapt_rate", "rate"]), "p2": dict(ops=["adapt_rate", "rate"])}, [gen.edge("p1/rate/r", "p2/rate/r_in", 1.5)])
    out.append(("M1b-undeclared-variable-declared-in-other-operator", "raises", m1b, {}))
    m2 = json.loads(json.dumps(m))
    m2["ops"]["rate"]["eqs"][0][2] = ["+", m2["ops"]["rate"]["eqs"][0][2], V("nowhere")]
    out.append(("M2-undeclared-variable", "raises", m2, {}))
    for name in ("y", "dy", "source_idx", "I", "E", "beta", "exp", "x_buffer", "a_idx"):
        m3 = json.loads(json.dumps(m))
        m3["ops"]["rate"]["vars"][name] = ["const", 1.0]
        m3["ops"]["rate"]["eqs"][0][2] = ["+", m3["ops"]["rate"]["eqs"][0][2], V(name)]
        out.append((f"M3-reserved-name-{name}", "raises", m3, {}))
    out.append(("M4-node-value-for-missing-operator", "raises", m, dict(node_values={"p1/nope/tau": 3.0})))
    out.append(("M4b-node-value-wildcard-missing-operator", "raises", m, dict(node_values={"all/nope/tau": 3.0})))
    out.append(("M4c-node-value-wildcard-missing-variable", "raises", m, dict(node_values={"all/rate/taux": 3.0})))
    out.append(("M4d-node-value-missing-variable", "raises", m, dict(node_values={"p1/rate/taux": 3.0})))
    m5 = json.loads(json.dumps(m))
    m5["edges"][0]["tgt"] = "p2/rate/r_inn"
    out.append(("M5-edge-target-variable-misspelt", "raises", m5, {}))
    m6 = json.loads(json.dumps(m))
    m6["edges"][0]["src"] = "p3/rate/r"
    out.append(("M6-edge-source-node-misspelt", "raises", m6, {}))
    out.append(("M7-output-variable-misspelt", "raises", m, dict(outputs={"o": "p1/rate/rr"})))
    out.append(("M8-output-node-misspelt", "raises", m, dict(outputs={"o": "px/rate/r"})))
    out.append(("M7b-one-of-two-outputs-misspelt", "raises", m, dict(outputs={"o": "p2/rate/r", "o2": "p1/rate/rr"})))
    out.append(("M8b-one-of-two-output-nodes-misspelt", "raises", m, dict(outputs={"o": "p2/rate/r", "o2": "px/rate/r"})))
    # three structurally identical nodes (one vectorised group): a value for a variable that does not exist, addressed to a member
    # of the group other than the first
    a3 = gen.op_li("rate", x="r", ins=("r_in",), tau=2.0, x0=0.4, in_defaults={"r_in": 0.0})
    m3n = gen.model([a3], {"p1": dict(ops=["rate"]), "p2": dict(ops=["rate"], over={"rate/tau": 3.0}), "p3": dict(ops=["rate"])},
                    [gen.edge("p1/rate/r", "p2/rate/r_in", 1.5)])
    for nd in ("p1", "p2", "p3"):
        out.append((f"M4f-node-value-missing-variable-group-member-{nd}", "raises", m3n, dict(node_values={f"{nd}/rate/taux": 3.0})))
    out.append(("M4e-node-value-node-misspelt", "warns", m, dict(node_values={"px/rate/tau": 3.0})))
    m9 = json.loads(json.dumps(m))
    m9["ops"]["rate"]["vars"]["tau"] = ["output", 2.0]
    for bname in ("Fortran", "tensorflow", "JAX", "numpy2"):
        out.append((f"M14-unknown-backend-name-{bname}", "raises", m, dict(backend=bname)))
    out.append(("M9-two-outputs-in-one-operator", "raises", m9, {}))
    # cyclic operator graph inside a node
    c1 = gen.op_alg("ca", out="ua", src="ub", fn="tanh")
    c2 = gen.op_alg("cb", out="ub", src="ua", fn="tanh")
    out.append(("M10-cyclic-operator-graph", "raises", gen.model([c1, c2], {"p1": dict(ops=["ca", "cb"])}), dict(outputs={"o": "p1/ca/ua"})))
    # ... the same cycle next to an operator that has nothing to do with it / next to a two-operator chain (checked on the node
    # template itself: a cycle that gets past this point makes the compilation loop forever)
    c3 = gen.op_li("cfree", x="q", ins=("w",), tau=1.0, x0=0.1, in_defaults={"w": 0.2})
    c4 = gen.op_alg("cd", out="w", src="zz", fn="tanh", src_default=0.3)
    out.append(("M10b-cyclic-operator-graph-plus-independent-operator", "raises", gen.model([c1, c2, c3], {"p1": dict(ops=["ca", "cb", "cfree"])}),
                dict(apply_nodes_only=True)))
    out.append(("M10c-cyclic-operator-graph-plus-chain", "raises", gen.model([c1, c2, c4, c3], {"p1": dict(ops=["ca", "cb", "cd", "cfree"])}),
                dict(apply_nodes_only=True)))
    out.append(("M11-input-to-missing-variable", "warns", m, dict(inputs={"p1/rate/nope": np.linspace(0, 1, 5)})))
    out.append(("M12-input-to-missing-node", "warns", m, dict(inputs={"px/rate/r_in": np.linspace(0, 1, 5)})))
    out.append(("M13-update-var-missing-variable", "warns", m, dict(update={"p1/rate/nope": 3.0})))
    # an edge whose template has two parallel terminal operators ("exactly one output operator ... per edge"), whether or not the two
    # operators call their output variable the same; the one-operator edge is the control
    out.append(("M15-edge-one-terminal-operator-control", "returns", dict(direct="edge-terminals"), dict(direct="edge-terminals", second=None)))
    for second in ("m_b", "m_out"):
        out.append((f"M15-edge-two-terminal-operators-second-writes-{second}", "raises", dict(direct="edge-terminals", second=second),
                    dict(direct="edge-terminals", second=second)))
    return out


def direct_template(opts):
    """Models the MDL does not describe, written against the public API."""
    from pyrates import OperatorTemplate, NodeTemplate, EdgeTemplate, CircuitTemplate
    assert opts["direct"] == "edge-terminals"
    op = OperatorTemplate(name="rate", path=None, equations=["r' = -r/tau + c + r_in"], variables={"r": "output(0.1)", "tau": 1.0, "c": 1.0, "r_in": "input(0.0)"})
    node = NodeTemplate(name="lin_pop", path=None, operators=[op])
    ga = OperatorTemplate(name="gain_a", path=None, equations=["m_out = ka * x_a"], variables={"m_out": "output(0.0)", "ka": 2.0, "x_a": "input(0.0)"})
    ops, attrs = [ga], {"weight": 1.0, "two_gain/gain_a/x_a": "source"}
    if opts.get("second"):
        ops.append(OperatorTemplate(name="gain_b", path=None, equations=[f"{opts['second']} = kb * x_b"],
                                    variables={opts["second"]: "output(0.0)", "kb": 3.0, "x_b": "input(0.0)"}))
        attrs["two_gain/gain_b/x_b"] = "source"
    edge = EdgeTemplate(name="two_gain", path=None, operators=ops)
    return CircuitTemplate(name="net", path=None, nodes={"p1": node, "p2": node}, edges=[("p1/rate/r", "p2/rate/r_in", edge, attrs)])


def malformed_case(c):
    tag, exp, model, opts = c["tag"], c["expect"], c["model"], c["opts"]
    caught = []
    outcome = "returns"
    try:
        with warnings.catch_warnings(record=True) as w:
            warnings.simplefilter("always")
            tpl = direct_template(opts) if opts.get("direct") else mdl.build_templates(model)
            if opts.get("apply_nodes_only"):
                for nt in tpl.nodes.values():
                    nt.apply()
                raise_if_reached = True
            if "update" in opts:
                tpl.update_var(node_vars=opts["update"])
            kw = dict(simulation_time=0.5, step_size=0.1, solver="euler", outputs=opts.get("outputs", {"o": "p2/rate/r"}), vectorize=c["vec"],
                      verbose=False, clear=True, in_place=False, float_precision="float64")
            if "inputs" in opts:
                kw["inputs"] = opts["inputs"]
            if "node_values" in opts:
                kw["node_values"] = opts["node_values"]
            if "backend" in opts:
                kw["backend"] = opts["backend"]
            if not opts.get("apply_nodes_only"):
                tpl.run(**kw)
            caught = [str(x.message)[:100] for x in w if "pyrates" in str(x.filename).lower() or "PyRates" in type(x.message).__name__]
    except Exception as exn:
        outcome = f"raises {type(exn).__name__}"
    if exp == "returns":
        return dict(status="ok" if outcome == "returns" else "skipped")
    if exp == "raises" and not outcome.startswith("raises"):
        return dict(status="violated", fails=[dict(clause="a malformed model raises before returning a result", observed="returned a result", expected="exception")])
    if exp == "warns" and outcome == "returns" and not caught:
        return dict(status="violated", fails=[dict(clause="an input / update addressed to a variable that does not exist is at least reported by a warning",
                                                   observed="silently ignored", expected="warning or exception")])
    return dict(status="ok")


def pop_matrix_case(c):
    """Population / Connectivity circuits with matrix delays: a discrete (ring buffer) delay registered before or after a gamma-kernel
    one; a backend with immutable arrays must refuse the fixed-step run whatever the order."""
    from rtc import oracle
    pop = gen.op_li("op", x="r", ins=("r_in",), tau=2.0, x0=0.4, in_defaults={"r_in": 0.0})
    W = [[0.0, 0.5, -1.0], [0.3, 0.0, 0.8], [1.0, -0.4, 0.0]]
    conns = {"discrete-then-gamma": [dict(src="a/op/r", tgt="b/op/r_in", W=W, d=0.3), dict(src="b/op/r", tgt="a/op/r_in", W=W, d=0.3, s=0.1)],
             "gamma-then-discrete": [dict(src="a/op/r", tgt="b/op/r_in", W=W, d=0.3, s=0.1), dict(src="b/op/r", tgt="a/op/r_in", W=W, d=0.3)],
             "discrete": [dict(src="a/op/r", tgt="b/op/r_in", W=W, d=0.3)]}[c["delay"]]
    ps = dict(ops={"op": pop}, pops={"a": dict(ops=["op"], n=3, params={"op/r": [0.1, 0.2, 0.3]}), "b": dict(ops=["op"], n=3, params={"op/r": [0.3, 0.2, 0.1]})},
              conns=conns)
    outcome, detail = "returns", ""
    try:
        with warnings.catch_warnings():
            warnings.simplefilter("ignore")
            tpl = oracle.build_population_circuit(ps)
            tpl.run(simulation_time=0.5, step_size=0.1, solver=c["solver"], outputs={"o": "a/op/r"}, backend=c["backend"], verbose=False, clear=True,
                    float_precision="float64")
    except Exception as exn:
        outcome, detail = "raises", f"{type(exn).__name__}: {str(exn)[:120]}"
    exp = "raises" if c["backend"] == "jax" else "returns"
    if outcome != exp:
        if exp == "raises":
            return dict(status="violated", fails=[dict(clause="an unsupported combination raises instead of returning numbers", observed="returned a result",
                                                       expected="exception")])
        if "NotImplemented" in detail or "not support" in detail or "not implemented" in detail:
            return dict(status="violated", fails=[dict(clause="a supported combination is not refused", observed=detail, expected="result")])
        return dict(status="skipped")
    return dict(status="ok")


def dispatch(c):
    if c["kind"] == "pop_matrix":
        return pop_matrix_case(c)
    return matrix_case(c) if c["kind"] == "matrix" else malformed_case(c)


def run(chk):
    cases = []
    backends = ("default", "torch", "jax", "fortran")
    solvers = ("euler", "heun", "scipy", "diffrax", "rk45")
    for b in backends:
        for s in solvers:
            for vec in (False, True):
                for delay in ("none", "discrete", "gamma", "discrete-then-gamma"):
                    exp = expected_outcome(b, s, vec, delay, False, "run")
                    # supported combinations are exercised by C02/C03; here: every refused one, plus the cheap supported ones on the
                    # default backend as controls
                    if exp == "raises" or (b == "default" and s != "scipy") or (chk.tier == "thorough" and b != "fortran"):
                        if b == "fortran" and exp == "returns":
                            continue
                        if s == "diffrax" and exp == "returns":
                            continue
                        cases.append(dict(tag=f"{b}/{s}/{'vec' if vec else 'sca'}/{delay}", features=dict(backend=b, solver=s, vectorize=vec, delay=delay),
                                          kind="matrix", what="run", backend=b, solver=s, vectorize=vec, delay=delay))
        for sparse in (False, True):
            for delay in ("none",):
                cases.append(dict(tag=f"{b}/jacobian/{'sparse' if sparse else 'dense'}", features=dict(backend=b, sparse=sparse), kind="matrix",
                                  what="jacobian", backend=b, solver="euler", vectorize=False, delay=delay, sparse=sparse))
    for b in ("default", "jax"):
        for delay in ("discrete", "discrete-then-gamma", "gamma-then-discrete"):
            for s_ in ("euler", "heun"):
                cases.append(dict(tag=f"population/{b}/{s_}/{delay}", features=dict(backend=b, solver=s_, delay=delay, population=True), kind="pop_matrix",
                                  backend=b, solver=s_, delay=delay))
    for tag, exp, model, opts in malformed_variants():
        for vec in (False, True):
            cases.append(dict(tag=tag, features=dict(expect=exp, vec=vec), kind="malformed", expect=exp, model=model, opts=opts, vec=vec))
    driver.run_family(
        chk, "guard-matrix-and-malformed-models", cases, dispatch, site="C20/api",
        rule="backend {default, torch, jax, fortran} x solver {euler, heun, scipy, diffrax, rk45} x vectorize x delay kind {none, "
             "discrete, gamma, discrete registered before gamma} (scalar edges, and Population / Connectivity circuits with the two orders): every combination the class attributes declare unsupported must "
             "raise (supported ones on the default backend as controls); dense/sparse Jacobian per backend; malformed variants of a "
             "valid two-operator model: undeclared variable (also one that a sibling operator with a longer name declares), reserved "
             "names, node value for a missing operator, misspelt edge source/target and output paths, two outputs, a cyclic operator "
             "graph (must raise), input / update_var to a missing variable (must at least warn); distinct = case tags",
        sample_of=lambda c: {k: v for k, v in c.items() if k not in ("features", "model", "opts")}, timeout=900)
