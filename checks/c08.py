"""C08 check: extrinsic inputs hit the right time and unit (bounded) — solver-loop step counter is proved under C03."""
import os
import sys

HERE = os.path.dirname(os.path.dirname(os.path.abspath(__file__)))
sys.path.insert(0, HERE)

from vlib.harness import Check            # noqa: E402
from rtc import gen, driver, cases        # noqa: E402


def families(tier, seed):
    out = []
    for tag, feats, model, inputs in gen.c08_cases(seed):
        for solver in ("euler", "scipy") + (("heun",) if tier == "thorough" else ()):
            if feats.get("coarse") and solver != "scipy":
                continue
            for vec in (False, True):
                if feats.get("vec_only") and not vec:
                    continue
                out.append(dict(tag=f"{tag}/{solver}", features=dict(feats, solver=solver), kind="inputs", model=model, inputs=inputs,
                                solver=solver, vec=vec, T=1.0, dt=0.05))
    # two calls in one process with different input values (the second must not see the first's arrays)
    for tag, feats, model, inputs in gen.c08_cases(seed)[:3]:
        if feats.get("vec_only") or feats.get("coarse"):
            continue
        for solver in ("euler", "scipy"):
            for vec in (False,):      # (vectorize=True with kept caches raises KeyError on the second call: cache matter, C13)
                out.append(dict(tag=f"{tag}/{solver}/second-call", features=dict(feats, solver=solver, second_call=True), kind="inputs_seq", model=model,
                                inputs=inputs, solver=solver, vec=vec, T=1.0, dt=0.05))
    out.append(dict(tag="I14-input-to-population-variable", features=dict(population_input=True), kind="population_input"))
    # the Torch / JAX / Fortran backends' own fixed-step loops and input plumbing (sample k drives step k on every backend)
    from checks import c02 as _c02
    for c in _c02.families(tier, seed):
        if c["kind"] in ("loops", "inputs_backend", "inputs_backend_seq"):
            out.append(c)
    return out


def population_input_case(c):
    """An extrinsic input addressed to a variable of a Population: every unit is driven (broadcast), the output keeps one column per unit."""
    import numpy as np
    from pyrates import OperatorTemplate, NodeTemplate, CircuitTemplate
    from pyrates.frontend.template.population import PopulationTemplate, Connectivity
    op = OperatorTemplate(name="op", equations=["r' = -r/tau + r_in + u"],
                          variables={"r": "output(0.4)", "tau": 2.0, "r_in": "input(0.0)", "u": "input(0.0)"}, path=None)
    r0 = np.array([0.1, 0.2, 0.3])
    pop = PopulationTemplate(name="a", node=NodeTemplate(name="na", operators=[op], path=None), n=3, params={"op/r": r0})
    W = np.array([[0.0, 0.5, 0.0], [0.0, 0.0, -0.4], [0.3, 0.0, 0.0]])
    tpl = CircuitTemplate(name="p", populations={"a": pop}, connections=[Connectivity(source="a/op/r", target="a/op/r_in", weights=W)])
    u = np.round(np.sin(np.arange(10) * 0.7), 3)
    try:
        df = tpl.run(simulation_time=0.5, step_size=0.05, solver="euler", outputs={"r": "a/op/r"}, inputs={"a/op/u": u}, verbose=False,
                     float_precision="float64")
    except Exception as exn:
        return dict(status="violated", fails=[dict(clause="run accepts an input addressed to a population variable", observed=f"{type(exn).__name__}: {exn}"[:300])])
    ref = np.zeros((10, 3))
    y = r0.copy()
    for k in range(10):
        ref[k] = y
        y = y + 0.05 * (-y / 2.0 + W @ y + u[k])
    got = np.asarray(df.values, dtype=float)
    fails = []
    if got.shape != ref.shape:
        fails.append(dict(clause="population output under an extrinsic input: one column per unit", observed=list(got.shape), expected=list(ref.shape)))
    elif not np.allclose(got, ref, rtol=1e-7, atol=1e-10):
        fails.append(dict(clause="inputs: every unit of the population is driven by sample k during step k", observed=got[-1].tolist(), expected=ref[-1].tolist()))
    return dict(status="violated" if fails else "ok", fails=fails)


def case_fn(c):
    if c["kind"] == "population_input":
        return population_input_case(c)
    if c["kind"] in ("loops", "inputs_backend", "inputs_backend_seq"):
        from checks import c02 as _c02
        return _c02.dispatch(c)
    return cases.case_fn(c)


def main():
    chk = Check("C08", "other")
    # deductive core: "with a fixed-step solver sample k is the value used during integration step k" — every fixed-step loop
    # (NumPy, Torch, JAX; ODE and delayed) hands the vector field the integer step counter i + t0, in BOTH Heun stages
    from checks.c03 import solver_fallback
    chk.run_contracts("contracts.c03", names=[f"BaseBackend.{m}[{v}]" for m in ("_solve_euler", "_solve_heun") for v in ("ode", "dde")] + ["is_integration_adaptive"],
                      fallback={"*": solver_fallback(chk)})
    chk.run_contracts("contracts.c02", fallback={"*": lambda: []})
    _cases = families(chk.tier, chk.seed)
    _results = driver.run_family(
        chk, "run-with-inputs-vs-spec", _cases, case_fn, site="C08/inputs",
        rule="leaky integrators driven by seeded random (non-constant) input arrays: (N,), (N,1), 1-D broadcast to three nodes via "
             "`all`, (N,3) one column per node (vectorised only), one node of three plus a converging edge, two inputs to two "
             "variables, two inputs to the same variable, hierarchy with single and wildcard targets, a coarse 9-sample input under "
             "an adaptive solver; euler (sample k drives step k, exact comparison) and scipy (linear interpolation on linspace(0,T,N), "
             "tight reference); vectorize off and on; a second call in the same process with other input values; the Torch / JAX / "
             "Fortran backends with a seeded input (their own euler/heun loops with dts = 3 and 5 steps, scipy with interpolation) and "
             "their loops called directly; distinct = (scenario, solver, vectorize)",
        sample_of=lambda c: {k: v for k, v in c.items() if k not in ("features", "inputs")})
    driver.run_sequences(chk, "run-with-inputs-vs-spec-in-sequence", _cases, _results, case_fn, site="C08/inputs",
                         limit=20 if chk.tier == "quick" else 120, seed=chk.seed)
    rc = chk.finish(
        explanation="Deductive core: the fixed-step loops of the NumPy, Torch and JAX backends call the vector field with the integer step "
                    "counter i + t0 at step i (both Heun stages the same one), for every step count and cadence — the generated "
                    "`u_input[t]` then reads sample k during step k. Bounded: trajectories of integrators under extrinsic inputs against "
                    "the spec (cumulative sums for Euler, interpolated inputs for adaptive solvers); the input wiring (_add_input, "
                    "create_input_node) is covered only by these bounded cases.",
        assumptions=["as for C03/C02 (floats as reals, value semantics of the vector field, documented lax.scan semantics)",
                     "spec_fixed_step / spec_rhs with additive extrinsic terms (harness)", "scipy reference DOP853 rtol 1e-11"])
    sys.exit(rc)


if __name__ == "__main__":
    main()
