"""C15 check: YAML / Python / round-tripped / derived definitions are equivalent; equation edits are whole-identifier (bounded)."""
import os
import sys
import multiprocessing as mp

HERE = os.path.dirname(os.path.dirname(os.path.abspath(__file__)))
sys.path.insert(0, HERE)

from vlib.harness import Check            # noqa: E402
from rtc import gen, driver, cases, runner, replace_spec as RS   # noqa: E402


def _replace_chunk(args):
    first_chars, max_len = args
    runner.import_repo()
    from pyrates.backend.parser import replace
    n = 0
    bad = []
    for s in RS.strings(max_len):
        if not s or s[0] not in first_chars:
            if s:
                continue
        for term in RS.TERMS:
            if term not in s:
                continue
            n += 1
            got = replace(s, term, "Z")
            want = RS.spec_replace(s, term, "Z")
            if got != want:
                known = got == RS.pinned_replace(s, term, "Z")
                if len(bad) < 400 or not known:
                    bad.append((s, term, got, want, known))
    return n, bad


def replace_exhaustive(chk):
    max_len = 5 if chk.tier == "quick" else 6
    chunks = [([c], max_len) for c in RS.ALPHABET]
    with mp.get_context("fork").Pool(min(16, len(chunks))) as pool:
        res = pool.map(_replace_chunk, chunks)
    n = sum(r[0] for r in res)
    dev = [b for r in res for b in r[1]]
    new = [b for b in dev if not b[4]]
    known = [b for b in dev if b[4]]
    for s, term, got, want, _ in new[:4]:
        chk.report_failure(dict(site="C15/replace", clauses=["replace(eq, term, new) == token-based whole-identifier substitution"],
                                clause="replace == spec_replace", input=dict(eq=s, term=term, new="Z"), observed=got, expected=want,
                                features=dict(kind="replace")))
    if known:
        s, term, got, want, _ = known[0]
        chk.report_failure(dict(site="C15/replace", clauses=["replace == spec_replace"], clause="replace == spec_replace",
                                input=dict(eq=s, term=term, new="Z"), observed=got, expected=want,
                                features=dict(kind="replace", equals_pinned_algorithm=True)))
    chk.add_bounded("replace-bounded-exhaustive", n, n,
                    f"every string of length <= {max_len} over the alphabet {RS.ALPHABET!r} x every term of {RS.TERMS} occurring in it "
                    f"(exhaustive for that space): parser.replace(eq, term, 'Z') against the token-based spec_replace; "
                    f"{len(known)}+ deviations equal to the frozen pinned algorithm are the listed known finding", [dict(eq="rr+1", term="r")])
    return n


def edit_case(c):
    """Derived operator through YAML `base:` with an edit dictionary: equations must equal the token-based edit."""
    from pyrates import OperatorTemplate
    from ruamel.yaml import YAML
    os.makedirs("ed", exist_ok=True)
    base = dict(base="OperatorTemplate", equations=c["eqs"], variables=c["vars"])
    derived = dict(base="base_op", equations=dict(c["edit"]))
    if c.get("var_updates"):
        derived["variables"] = c["var_updates"]
    with open("ed/t.yaml", "w") as fh:
        YAML().dump(dict(base_op=base, derived_op=derived), fh)
    fails = []
    for how in ("yaml", "python"):
        try:
            if how == "yaml":
                d = OperatorTemplate.from_yaml("ed/t/derived_op")
            else:
                b = OperatorTemplate(name="base_op", equations=list(c["eqs"]), variables=dict(c["vars"]), path=None)
                import copy
                d = b.update_template(name="derived_op", equations=copy.deepcopy(c["edit"]), variables=c.get("var_updates"))
        except Exception as exn:
            fails.append(dict(clause=f"derived operator can be built ({how})", observed=f"{type(exn).__name__}: {exn}"))
            continue
        want = []
        for eq in c["eqs"]:
            e = eq
            for old, new in (c["edit"].get("replace") or {}).items():
                e = RS.spec_replace(e, old, new) if all(ch in RS.IDCH for ch in old) else e.replace(old, new)
            rem = c["edit"].get("remove") or []
            for old in ([rem] if isinstance(rem, str) else rem):
                e = e.replace(old, "")
            if c["edit"].get("append"):
                e = f"{e} {c['edit']['append']}"
            if c["edit"].get("prepend"):
                e = f"{c['edit']['prepend']} {e}"
            want.append(e)
        want += list(c["edit"].get("add", []))
        got = list(d.equations)
        if got != want:
            fails.append(dict(clause=f"equation edits change exactly the whole-identifier occurrences named ({how})", observed=got, expected=want))
        exp_vars = set(c["expected_vars"])
        if set(d.variables) != exp_vars:
            fails.append(dict(clause=f"derived operator takes over every variable it still uses ({how})", observed=sorted(d.variables), expected=sorted(exp_vars)))
        # every variable the derived template overrides carries the override (zero and other falsy values included), every other
        # one the parent's definition
        for vn in exp_vars & set(d.variables):
            wantv = (c.get("var_updates") or {}).get(vn, c["vars"].get(vn))
            gotv = d.variables[vn]
            same = (str(gotv) == str(wantv)) if isinstance(wantv, str) or isinstance(gotv, str) else (gotv == wantv and type(gotv) is type(wantv))
            if vn in c["vars"] and not same:
                fails.append(dict(clause=f"derived operator: variable definitions are the override where given, the parent's otherwise ({how})",
                                  observed={vn: repr(gotv)}, expected={vn: repr(wantv)}))
    return dict(status="violated" if fails else "ok", fails=fails[:2])


def edit_cases():
    V = {"r": "output(0.1)", "rr": 2.0, "r_in": "input(0.0)", "m_in2": "input(0.0)", "k": 1.5, "tau": 2.0}
    E = ["d/dt * r = (rr + r_in - r) / tau + k*m_in2", "d/dt * r = k*r - rr", "r' = -r/tau + rr*r_in + m_in2 + r"]
    out = []
    allv = set(V)
    out.append(dict(tag="E1-replace-r", eqs=[E[1]], vars={k: V[k] for k in ("r", "rr", "k")}, edit={"replace": {"k": "k*g"}},
                    var_updates={"g": 0.5}, expected_vars=["r", "rr", "k", "g"]))
    out.append(dict(tag="E2-replace-identifier-contained-in-others", eqs=[E[0]], vars=V, edit={"replace": {"r_in": "(r_in+1.0)"}},
                    expected_vars=list(allv)))
    out.append(dict(tag="E3-replace-last-token", eqs=[E[0]], vars=V, edit={"replace": {"m_in2": "0.5*m_in2"}}, expected_vars=list(allv)))
    out.append(dict(tag="E4-add-equation", eqs=[E[0]], vars=V, edit={"add": ["d/dt * a = r - a"]}, var_updates={"a": "variable(0.0)"},
                    expected_vars=list(allv | {"a"})))
    out.append(dict(tag="E5-append-prepend", eqs=["d/dt * r = -r/tau"], vars={"r": "output(0.1)", "tau": 2.0},
                    edit={"append": "+ k", "prepend": ""}, var_updates={"k": 1.0}, expected_vars=["r", "tau", "k"]))
    out.append(dict(tag="E6-remove-term", eqs=[E[0]], vars=V, edit={"remove": ["+ k*m_in2"]}, expected_vars=list(allv - {"k", "m_in2"})))
    out.append(dict(tag="E7-replace-r-with-rr-present", eqs=[E[1]], vars={k: V[k] for k in ("r", "rr", "k")}, edit={"replace": {"r": "r*g"}},
                    var_updates={"g": 0.5}, expected_vars=["r", "rr", "k", "g"], known_replace=True))
    from collections import OrderedDict
    out.append(dict(tag="E9-append-listed-before-replace", eqs=["d/dt * r = -r/tau"], vars={"r": "output(0.1)", "tau": 2.0},
                    edit=OrderedDict([("append", "- k*r"), ("replace", {"r": "(r - r_shift)"})]), var_updates={"k": 1.0, "r_shift": 0.5},
                    expected_vars=["r", "tau", "k", "r_shift"]))
    out.append(dict(tag="E10-prepend-and-remove-listed-first", eqs=["d/dt * r = -r/tau + k*rr"], vars={"r": "output(0.1)", "tau": 2.0, "k": 1.0, "rr": 2.0},
                    edit=OrderedDict([("prepend", ""), ("append", "+ rr"), ("remove", ["+ k*rr"]), ("replace", {"tau": "(2.0*tau)"})]),
                    expected_vars=["r", "tau", "rr"]))
    # `add` next to other edits: the edits rewrite the PARENT's equations only, the added equations are taken as written
    out.append(dict(tag="E11-add-with-replace-of-a-shared-term", eqs=["d/dt * r = -r/tau + k"], vars={"r": "output(0.1)", "tau": 2.0, "k": 1.0},
                    edit=OrderedDict([("replace", {"tau": "(2.0*tau)"}), ("add", ["d/dt * a = (r - a) / tau"])]), var_updates={"a": "variable(0.0)"},
                    expected_vars=["r", "tau", "k", "a"]))
    out.append(dict(tag="E12-add-with-append", eqs=["d/dt * r = -r/tau"], vars={"r": "output(0.1)", "tau": 2.0},
                    edit=OrderedDict([("add", ["d/dt * a = r - a"]), ("append", "+ k")]), var_updates={"a": "variable(0.0)", "k": 1.0},
                    expected_vars=["r", "tau", "k", "a"]))
    out.append(dict(tag="E13-zero-valued-variable-overrides", eqs=["d/dt * r = (eta - r)/tau + k*r"],
                    vars={"r": "output(0.1)", "tau": 2.0, "k": 1.2, "eta": 0.6}, edit={}, var_updates={"k": 0.0, "eta": 0, "tau": 0.5},
                    expected_vars=["r", "tau", "k", "eta"]))
    out.append(dict(tag="E8-two-adds-two-loads", eqs=[E[0]], vars=V, edit={"add": ["d/dt * a = r - a", "d/dt * b = a - b"]},
                    var_updates={"a": "variable(0.0)", "b": "variable(0.0)"}, expected_vars=list(allv | {"a", "b"})))
    return out


def two_spelling_case(c):
    """The same derived template addressed by two path spellings in one process (YAML cache keyed by path)."""
    from pyrates import OperatorTemplate
    from ruamel.yaml import YAML
    os.makedirs("ed2", exist_ok=True)
    base = dict(base="OperatorTemplate", equations=["d/dt * r = -r/tau"], variables={"r": "output(0.1)", "tau": 2.0})
    derived = dict(base="base_op", equations={"add": ["d/dt * a = r - a"]}, variables={"a": "variable(0.0)"})
    with open("ed2/t.yaml", "w") as fh:
        YAML().dump(dict(base_op=base, derived_op=derived), fh)
    fails = []
    want = ["d/dt * r = -r/tau", "d/dt * a = r - a"]
    for spelling in ("ed2/t/derived_op", os.path.abspath("ed2/t/derived_op"), "./ed2/t/derived_op"):
        try:
            d = OperatorTemplate.from_yaml(spelling)
            if list(d.equations) != want or "a" not in d.variables:
                fails.append(dict(clause="loading the same derived template through another path spelling gives the same template",
                                  observed=dict(spelling=spelling, equations=list(d.equations), variables=sorted(d.variables)), expected=want))
        except Exception as exn:
            fails.append(dict(clause="loading the same derived template through another path spelling succeeds",
                              observed=f"{spelling}: {type(exn).__name__}: {exn}"))
    return dict(status="violated" if fails else "ok", fails=fails[:2])


def cross_file_case(c):
    """A circuit whose `nodes:` mapping lists a FULL path into another file before a RELATIVE name that exists in both files."""
    import numpy as np
    from ruamel.yaml import YAML
    from pyrates import CircuitTemplate
    from rtc import mdl, oracle
    os.makedirs("xf", exist_ok=True)
    open("xf/__init__.py", "w").close()

    def opdef(tau):
        return dict(base="OperatorTemplate", equations=["d/dt * r = -r/tau + r_in"], variables={"r": "output(0.4)", "tau": tau, "r_in": "input(0.25)"})
    base_file = dict(op_b=opdef(5.0), pop=dict(base="NodeTemplate", operators=["op_b"]), other=dict(base="NodeTemplate", operators=["op_b"]))
    local_file = dict(op_l=opdef(2.0), pop=dict(base="NodeTemplate", operators=["op_l"]),
                      net=dict(base="CircuitTemplate", nodes={"src": "xf.base.other", "tgt": "pop"},
                               edges=[["src/op_b/r", "tgt/op_l/r_in", None, {"weight": 1.5}]]))
    for name, d in (("base", base_file), ("local", local_file)):
        with open(f"xf/{name}.yaml", "w") as fh:
            YAML().dump(d, fh)
    sys.path.insert(0, os.getcwd())
    li = lambda nm, tau: dict(name=nm, eqs=[["r", "de", ["+", ["neg", ["/", ["var", "r"], ["var", "tau"]]], ["var", "r_in"]]]],
                              vars={"r": ["output", 0.4], "tau": ["const", tau], "r_in": ["input", 0.25]})
    # expected: `tgt: pop` is the pop of local.yaml (operator op_l, tau = 2.0); `src` is base.yaml's `other` (op_b, tau = 5.0)
    model = dict(ops={"op_b": li("op_b", 5.0), "op_l": li("op_l", 2.0)}, nodes={"src": dict(ops=["op_b"]), "tgt": dict(ops=["op_l"])},
                 edges=[dict(src="src/op_b/r", tgt="tgt/op_l/r_in", w=1.5, d=None, s=None)])
    fails = []
    try:
        tpl = CircuitTemplate.from_yaml("xf.local.net")
        comp = oracle.compile_model(model, vectorize=False, tpl=tpl)
        fails = oracle.check_vector_field(model, comp, np.random.default_rng(1), n_states=2, n_param_draws=0)
        for f in fails:
            f["clause"] = "[yaml, relative reference after a full path] " + f["clause"]
    except Exception as exn:
        fails = [dict(clause="a relative template reference resolves against the circuit's own file", observed=f"{type(exn).__name__}: {exn}")]
    return dict(status="violated" if fails else "ok", fails=fails[:2])


def same_name_subcircuits(c):
    """Hierarchy with two equally named but DIFFERENT sub-circuits: round trip must keep both."""
    import numpy as np
    from pyrates import CircuitTemplate
    from rtc import mdl, oracle
    model = c["model"]
    top = mdl.build_templates(model)
    for sub in top.circuits.values():
        sub.name = "sub"
    fails = []
    try:
        top.to_yaml("rt3/dumped.yaml")
        tpl = CircuitTemplate.from_yaml(f"rt3/dumped/{top.name}")
        comp = oracle.compile_model(model, vectorize=False, tpl=tpl)
        fails = oracle.check_vector_field(model, comp, np.random.default_rng(1), n_states=2, n_param_draws=0)
        for f in fails:
            f["clause"] = "[roundtrip, equally named sub-circuits] " + f["clause"]
    except Exception as exn:
        fails = [dict(clause="round trip of a hierarchy with equally named, different sub-circuits", observed=f"{type(exn).__name__}: {exn}")]
    return dict(status="violated" if fails else "ok", fails=fails[:2])


def same_name_edge_templates(c):
    """Two DIFFERENT EdgeTemplate objects with the same name (one shared coupling operator, different overrides of its gain):
    the dumped and re-loaded circuit has the dynamics of the original (every edge keeps its own gain)."""
    import numpy as np
    from pyrates import OperatorTemplate, NodeTemplate, EdgeTemplate, CircuitTemplate
    rate = OperatorTemplate(name="ro", path=None, equations=["d/dt * r = (k - r)/tau + r_in"],
                            variables={"r": "output(0.2)", "r_in": "input(0.0)", "k": 0.5, "tau": 2.0})
    gop = OperatorTemplate(name="go", path=None, equations=["m = g * x_in + h"],
                           variables={"m": "output(0.0)", "x_in": "input(0.0)", "g": 1.0, "h": 0.0})
    pop = NodeTemplate(name="pn", path=None, operators=[rate])
    gains = {("a", "b"): dict(g=2.0), ("b", "c"): dict(g=-0.5, h=0.25), ("c", "a"): dict(g=0.75)}
    ets = {k_: EdgeTemplate(name="ge", path=None, operators={gop: dict(v)}) for k_, v in gains.items()}
    order = [("a", "b"), ("b", "c"), ("c", "a")] if c.get("order", 0) == 0 else [("c", "a"), ("a", "b"), ("b", "c")]
    tpl = CircuitTemplate(name="sn", path=None, nodes={"a": pop, "b": pop, "c": pop},
                          edges=[(f"{s_}/ro/r", f"{t_}/ro/r_in", ets[(s_, t_)], {"weight": 1.0 + 0.5 * i}) for i, (s_, t_) in enumerate(order)])
    w = {e: 1.0 + 0.5 * i for i, e in enumerate(order)}
    fails = []
    try:
        if c["route"] == "roundtrip":
            tpl.to_yaml("rt5/dumped.yaml")
            tpl = CircuitTemplate.from_yaml("rt5/dumped/sn")
        f, a, names, m = tpl.get_run_func("vf", step_size=1e-3, vectorize=c["vec"], verbose=False, float_precision="float64",
                                          file_name="sn_mod", in_place=False, clear=True)
        from rtc import oracle
        pos = oracle.positions_of(tpl, m) if hasattr(oracle, "positions_of") else None
        y = np.array([0.3, -0.2, 0.9])
        a = list(a)
        yi = list(names).index("y")
        a[yi] = np.asarray(y, dtype=np.asarray(a[yi]).dtype)
        dy = np.asarray(f(*a), dtype=float).ravel()
        yv = dict(zip("abc", y))
        want = []
        for n in "abc":
            inp = sum(w[(s_, t_)] * (gains[(s_, t_)]["g"] * yv[s_] + gains[(s_, t_)].get("h", 0.0)) for (s_, t_) in order if t_ == n)
            want.append((0.5 - yv[n]) / 2.0 + inp)
        if dy.shape != (3,) or not np.allclose(dy, want, rtol=1e-9, atol=1e-12):
            fails.append(dict(clause=f"[{c['route']}, equally named edge templates with different overrides] vector field: derivative equals the equation",
                              observed=dy.tolist(), expected=want))
    except Exception as exn:
        fails = [dict(clause=f"[{c['route']}] circuit with equally named, different edge templates compiles", observed=f"{type(exn).__name__}: {exn}")]
    return dict(status="violated" if fails else "ok", fails=fails[:2])


def derived_circuit_yaml_case(c):
    """`ring: {base: pair, edges: [...]}` in YAML: the derived circuit has the inherited and the added edge; editing an inherited edge on the
    derived circuit leaves the base circuit (and what a later from_yaml of it returns) as written."""
    import numpy as np
    from ruamel.yaml import YAML
    from pyrates import CircuitTemplate
    os.makedirs("dc", exist_ok=True)
    doc = dict(
        lop=dict(base="OperatorTemplate", equations=["d/dt * r = (k - r)/tau + r_in"], variables={"r": "output(0.2)", "r_in": "input(0.0)", "k": 0.5, "tau": 2.0}),
        pop=dict(base="NodeTemplate", operators=["lop"]),
        pair=dict(base="CircuitTemplate", nodes={"a": "pop", "b": "pop"}, edges=[["a/lop/r", "b/lop/r_in", None, {"weight": 0.5}]]),
        ring=dict(base="pair", edges=[["b/lop/r", "a/lop/r_in", None, {"weight": -0.25}]]))
    with open("dc/t.yaml", "w") as fh:
        YAML().dump(doc, fh)

    def field(tpl):
        f, a, names, m = tpl.get_run_func("vf", step_size=1e-3, vectorize=c["vec"], verbose=False, float_precision="float64", file_name="dc_mod",
                                          in_place=False, clear=True)
        a = list(a)
        yi = list(names).index("y")
        a[yi] = np.asarray([0.3, -0.2], dtype=np.asarray(a[yi]).dtype)
        return np.asarray(f(*a), dtype=float).ravel()
    fails = []
    try:
        ring = CircuitTemplate.from_yaml("dc/t/ring")
        want_ring = [(0.5 - 0.3) / 2 - 0.25 * -0.2, (0.5 + 0.2) / 2 + 0.5 * 0.3]
        got = field(ring)
        if not np.allclose(got, want_ring, rtol=1e-9, atol=1e-12):
            fails.append(dict(clause="a circuit derived via base: has the inherited and the added edges", observed=got.tolist(), expected=want_ring))
        ring.update_var(edge_vars=[("a/lop/r", "b/lop/r_in", {"weight": 4.0})])
        got = field(ring)
        want2 = [want_ring[0], (0.5 + 0.2) / 2 + 4.0 * 0.3]
        if not np.allclose(got, want2, rtol=1e-9, atol=1e-12):
            fails.append(dict(clause="an inherited edge can be edited on the derived circuit", observed=got.tolist(), expected=want2))
        pair = CircuitTemplate.from_yaml("dc/t/pair")
        got = field(pair)
        want_pair = [(0.5 - 0.3) / 2, (0.5 + 0.2) / 2 + 0.5 * 0.3]
        if not np.allclose(got, want_pair, rtol=1e-9, atol=1e-12):
            fails.append(dict(clause="the base circuit is as written after an inherited edge was edited on the circuit derived from it",
                              observed=got.tolist(), expected=want_pair))
    except Exception as exn:
        fails.append(dict(clause="derived circuit (base: <circuit>) loads, compiles and can be edited", observed=f"{type(exn).__name__}: {exn}"))
    return dict(status="violated" if fails else "ok", fails=fails[:2])


def dispatch(c):
    k = c["kind"]
    if k == "derived_circuit_yaml":
        return derived_circuit_yaml_case(c)
    if k == "same_name_edges":
        return same_name_edge_templates(c)
    if k == "edit":
        return edit_case(c)
    if k == "two_spellings":
        return two_spelling_case(c)
    if k == "same_name_sub":
        return same_name_subcircuits(c)
    if k == "cross_file":
        return cross_file_case(c)
    return cases.case_fn(c)


def families(tier, seed):
    out = []
    pick = ("F1-chain-123", "F1-chain-321", "F2-parallel-2", "F3-multi-input-uw", "F3-op-plus-edge-wu", "F6-fanin-two-inputs",
            "F7-hierarchy-1", "F7-hierarchy-2", "F5-names-r-rr", "F5-names-m_in2-a", "F8-ring2-6")
    fam = [x for x in gen.c01_structured() if x[0] in pick] + gen.c04_extra()[3:]
    for tag, feats, model in fam:
        has_over = "over" in str(model)
        for route in ("yaml", "roundtrip", "yaml-roundtrip"):
            for vec in ((False,) if tier == "quick" and route != "yaml" else (False, True)):
                out.append(dict(tag=f"{tag}/{route}", features=dict(feats, route=route, has_overrides=has_over), kind="frontends", model=model,
                                route=route, vec=vec, seed=seed, style=1 if route == "yaml" else 0))
    # two operators of one node own a variable of the same name; only one is overridden.  Python (list of operators + update_var)
    # against the spec, and nodes WITHOUT edges on the overridden node through the dump / re-load route in both declaration orders
    oa = gen.op_li("opa", x="x", ins=("u",), tau=2.0, x0=0.3, in_defaults={"u": 0.1})
    ob = gen.op_li("opb", x="z", ins=("w",), tau=5.0, x0=-0.2, in_defaults={"w": 0.2})
    two = gen.model([oa, ob], {"n1": dict(ops=["opa", "opb"], over={"opa/tau": 3.0}), "n2": dict(ops=["opa", "opb"], over={"opb/tau": 0.7, "opa/x": 0.9}),
                               "n3": dict(ops=["opa", "opb"])}, [gen.edge("n3/opa/x", "n3/opb/w", 1.5)])
    for vec in (False, True):
        out.append(dict(tag="R2-same-variable-name-in-two-operators/python-list-update", features=dict(route="python-list-update", has_overrides=True),
                        kind="frontends", model=two, route="python-list-update", vec=vec, seed=seed))
    base_r = gen.op_li("op", x="r", ins=("r_in",), tau=2.0, x0=0.4)
    for order in (("a", "b", "c"), ("b", "c", "a")):
        nodes_r = {}
        for lab in order:
            nodes_r[lab] = dict(ops=["op"], over={"op/tau": 0.5, "op/r": 0.8}) if lab == "a" else dict(ops=["op"])
        mr = gen.model([base_r], nodes_r, [gen.edge("b/op/r", "c/op/r_in", 1.5)])
        for route in ("roundtrip", "python-list-update-roundtrip"):
            out.append(dict(tag=f"R1-override-node-{'first' if order[0] == 'a' else 'last'}-no-edges-on-it/{route}",
                            features=dict(route=route, has_overrides=True), kind="frontends", model=mr, route=route, vec=False, seed=seed))
    for c in edit_cases():
        out.append(dict(kind="edit", features=dict(edit=True, known_replace=c.get("known_replace", False)), **c))
    for route in ("python", "roundtrip"):
        for order in (0, 1):
            for vec in (False, True):
                out.append(dict(tag=f"Y5-same-name-edge-templates/{route}/{order}", features=dict(route=route, same_name_edges=True), kind="same_name_edges",
                                route=route, order=order, vec=vec))
    for vec in (False, True):
        out.append(dict(tag="Y7-circuit-derived-via-base-then-edited", features=dict(derived_circuit=True), kind="derived_circuit_yaml", vec=vec))
    out.append(dict(tag="Y1-two-path-spellings", features={}, kind="two_spellings"))
    out.append(dict(tag="Y4-relative-reference-after-full-path", features={}, kind="cross_file"))
    # hierarchy without per-node overrides: two sub-circuits that differ by one edge
    base = gen.op_li("op", x="r", ins=("r_in",), tau=2.0, x0=0.4)
    i1 = gen.model([base], {"p1": dict(ops=["op"]), "p2": dict(ops=["op"])}, [gen.edge("p1/op/r", "p2/op/r_in", 1.5)])
    i2 = gen.model([base], {"p1": dict(ops=["op"]), "p2": dict(ops=["op"])},
                   [gen.edge("p1/op/r", "p2/op/r_in", 1.5), gen.edge("p2/op/r", "p2/op/r_in", -0.6)])
    hm = dict(ops={}, nodes={}, edges=[gen.edge("c1/p2/op/r", "c2/p1/op/r_in", 0.8)], circuits={"c1": i1, "c2": i2})
    out.append(dict(tag="Y2-same-name-subcircuits", features={}, kind="same_name_sub", model=hm))
    out.append(dict(tag="Y3-hierarchy-no-overrides/roundtrip", features=dict(route="roundtrip", has_overrides=False), kind="frontends", model=hm,
                    route="roundtrip", vec=False, seed=seed))
    return out


def main():
    chk = Check("C15", "other")
    # deductive core: frame (ownership) contracts of the functions this property rests on (contracts/frames.py)
    chk.run_frames()
    replace_exhaustive(chk)
    _cases = families(chk.tier, chk.seed)
    _results = driver.run_family(
        chk, "frontends-and-edits", _cases, dispatch, site="C15/frontends",
        rule="models (operator chains, parallel edges, multi-input operators, fan-in, hierarchy 1-2, identifier sets r/rr, m_in2/a, "
             "edge templates, gamma-kernel edges) defined through YAML text (x' notation and ^), through the Python classes + to_yaml + "
             "from_yaml, YAML + to_yaml + from_yaml, and Python node templates given as operator lists + update_var (+ dump / re-load): C01 "
             "clauses against the spec; derived operators through `base:` and through "
             "update_template with replace / remove / add / append / prepend edits over identifiers containing one another: resulting "
             "equations against the token-based edit; the same derived template through three path spellings; a hierarchy with "
             "equally named, different sub-circuits; distinct = (scenario, route, vectorize)",
        sample_of=lambda c: {k: v for k, v in c.items() if k not in ("features",)})
    driver.run_sequences(chk, "frontends-and-edits-in-sequence", _cases, _results, dispatch, site="C15/frontends",
                         limit=20 if chk.tier == "quick" else 120, seed=chk.seed)
    rc = chk.finish(
        explanation="Bounded: frontend equivalence on enumerated models and edit dictionaries; parser.replace bounded-exhaustively "
                    "against the token-based spec (strings defeat the installed solvers on the replace loop, see DESIGN.md).",
        assumptions=["to_yaml_dict (harness) writes the same MDL as build_templates", "spec_replace: identifier = maximal run of [A-Za-z0-9_]"])
    sys.exit(rc)


if __name__ == "__main__":
    main()
