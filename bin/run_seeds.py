#!/usr/bin/env python3
"""Apply every seeded change (seeded/<id>/patch.diff) to a scratch worktree of /repo's HEAD, run the quick check of the
property it breaks with VERIF_REPO pointing there, record whether a VIOLATION (other than listed known findings) is reported.
Writes seeded/RESULTS.json.  Scratch worktrees live under $TMPDIR and are removed."""
import json, os, subprocess, sys, tempfile, concurrent.futures as cf

HERE = os.path.dirname(os.path.dirname(os.path.abspath(__file__)))
SEEDS = sorted(d for d in os.listdir(os.path.join(HERE, "seeded")) if os.path.isdir(os.path.join(HERE, "seeded", d)))
EXTRA = {"C01-2": ["C07"], "C06-1": ["C07"], "C03-2": ["C02"], "C11-3": ["C16"], "C12-2": ["C18"], "C16-3": ["C09"], "C05-3": ["C15", "C01"],
         "C01-3": ["C15", "C05"], "C10-1": ["C19"], "C07-r3-2": ["C17"], "C14-r3-2": ["C13"], "C15-r3-2": ["C07"], "C17-r3-1": ["C07"],
         "C08-r2-1": ["C13"], "C05-r2-1": ["C20"], "C10-r2-1": ["C19"], "C03-r3-2": ["C08"],
         "C16-r4-2": ["C11"], "C06-r4-2": ["C08"], "C03-r4-1": ["C10"], "C04-r4-2": ["C06"], "C12-r4-2": ["C19"], "C19-r4-2": ["C03", "C10"],
         "C01-r4-2": ["C07", "C14"], "C08-r4-2": ["C02"],
         "C01-r5-1": ["C04", "C06"], "C01-r5-2": ["C07"], "C07-r5-2": ["C14"], "C08-r5-2": ["C03"], "C13-r5-1": ["C07", "C14"], "C16-r5-1": ["C09"],
         "C05-r5-2": ["C01"], "C11-r5-1": ["C16"], "C11-r5-2": ["C04", "C06"], "C06-r5-1": ["C04", "C01"], "C04-r5-2": ["C01"],
         "C01-r6-1": ["C07", "C14"], "C13-r6-1": ["C04", "C06"], "C05-r6-2": ["C02"], "C03-r6-2": ["C02"], "C06-r6-1": ["C09", "C04"],
         "C19-r6-1": ["C03", "C10"], "C15-r6-2": ["C13", "C14"], "C09-r6-1": ["C02"], "C20-r6-2": ["C02", "C09"], "C07-r6-2": ["C14"],
         "C07-r7-1": ["C04", "C01"], "C17-r7-1": ["C06", "C04"], "C15-r7-1": ["C14", "C13"], "C13-r7-1": ["C14"], "C14-r7-1": ["C15"], "C03-r7-1": ["C02", "C08"],
         "C11-r7-1": ["C04", "C06"], "C06-r7-1": ["C08"], "C02-r7-1": ["C16"], "C10-r7-1": ["C02"], "C12-r7-1": ["C10"], "C04-r7-1": ["C01", "C06"], "C05-r7-1": ["C02", "C18"], "C18-r7-1": ["C02", "C05"], "C08-r7-1": ["C02"], "C09-r7-1": ["C02"], "C16-r7-1": ["C02"],
         "C19-r7-1": ["C10", "C02"], "C01-r7-1": ["C04"]}


def run(seed):
    prop = seed.split("-")[0]
    wt = tempfile.mkdtemp(prefix=f"seedrun-{seed}-", dir=os.environ.get("TMPDIR", "/tmp"))
    os.rmdir(wt)
    out = dict(seed=seed, property=prop, applies=False, checks={})
    try:
        subprocess.run(["git", "-C", "/repo", "worktree", "add", "-q", "--detach", wt, "HEAD"], check=True, capture_output=True)
        r = subprocess.run(["git", "-C", wt, "apply", os.path.join(HERE, "seeded", seed, "patch.diff")], capture_output=True, text=True)
        out["applies"] = r.returncode == 0
        if r.returncode != 0:
            out["error"] = r.stderr[-300:]
            return out
        for p in [prop] + EXTRA.get(seed, []):
            env = dict(os.environ, VERIF_REPO=wt, VERIF_OUT=wt + ".out")
            try:
                q = subprocess.run([os.path.join(HERE, "vcheck"), p, "quick"], capture_output=True, text=True, env=env, timeout=1500)
                viol = [l for l in q.stdout.splitlines() if l.startswith("VIOLATION")]
                out["checks"][p] = dict(rc=q.returncode, violations=len(viol), first=viol[0] if viol else None,
                                        summary=q.stdout.strip().splitlines()[-1][:200] if q.stdout.strip() else q.stderr[-200:])
            except subprocess.TimeoutExpired:
                out["checks"][p] = dict(rc=None, violations=0, summary="timeout")
    finally:
        subprocess.run(["git", "-C", "/repo", "worktree", "remove", "--force", wt], capture_output=True)
        import shutil
        shutil.rmtree(wt + ".out", ignore_errors=True)
    return out


def main():
    seeds = [s for s in SEEDS if not sys.argv[1:] or any(s.startswith(a) for a in sys.argv[1:])]
    res = []
    # the checks themselves use many cores and write evidence/replay files per property: run different properties in parallel only
    with cf.ThreadPoolExecutor(max_workers=int(os.environ.get("SEED_JOBS", "1"))) as ex:
        for r in ex.map(run, seeds):
            caught = [p for p, c in r["checks"].items() if c.get("rc") == 1 and c.get("violations")]
            print(r["seed"], "applies" if r["applies"] else "DOES-NOT-APPLY", "caught by", caught or "NONE", flush=True)
            r["caught_by"] = caught
            res.append(r)
    path = os.path.join(HERE, "seeded", "RESULTS.json")
    old = {}
    if os.path.exists(path) and sys.argv[1:]:
        old = {r["seed"]: r for r in json.load(open(path))["results"]}
    for r in res:
        old[r["seed"]] = r
    allr = [old[k] for k in sorted(old)]
    json.dump(dict(note="produced by bin/run_seeds.py against /repo HEAD " + subprocess.run(["git", "-C", "/repo", "rev-parse", "--short", "HEAD"], capture_output=True, text=True).stdout.strip(),
                   caught=sum(1 for r in allr if r["caught_by"]), total=len(allr), results=allr), open(path, "w"), indent=1)


if __name__ == "__main__":
    main()
