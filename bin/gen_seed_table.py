#!/usr/bin/env python3
"""Rewrites the table between the SEED-TABLE markers of DESIGN.md from seeded/RESULTS.json and seeded/<id>/meta.json."""
import json, os, re
HERE = os.path.dirname(os.path.dirname(os.path.abspath(__file__)))
res = json.load(open(os.path.join(HERE, "seeded", "RESULTS.json")))
rows = ["", res["note"] + f" — {res['caught']} of {res['total']} caught.", "", "| seed | files changed | caught by |", "|---|---|---|"]
for r in res["results"]:
    mp = os.path.join(HERE, "seeded", r["seed"], "meta.json")
    files = ", ".join(os.path.basename(f) for f in json.load(open(mp)).get("files_changed", [])) if os.path.exists(mp) else ""
    rows.append(f"| {r['seed']} | {files} | {', '.join(r['caught_by']) or '**NOT CAUGHT**'} |")
p = os.path.join(HERE, "DESIGN.md")
s = open(p).read()
s = re.sub(r"<!-- SEED-TABLE-BEGIN -->.*<!-- SEED-TABLE-END -->", "<!-- SEED-TABLE-BEGIN -->\n" + "\n".join(rows) + "\n<!-- SEED-TABLE-END -->", s, flags=re.S)
open(p, "w").write(s)
print("table rows:", len(res["results"]))
