#!/bin/bash
# Idempotent: builds /verif/.venv (python 3.12 overlay on /venv's site-packages) offline.
set -e
HERE="$(cd "$(dirname "${BASH_SOURCE[0]}")/.." && pwd)"
VENV="$HERE/.venv"
STAMP="$VENV/.ok"
if [ -f "$STAMP" ]; then exit 0; fi
(
  flock 9
  if [ -f "$STAMP" ]; then exit 0; fi
  rm -rf "$VENV"
  /venv/bin/python -m venv --without-pip "$VENV" >/dev/null
  SP="$VENV/lib/python3.12/site-packages"
  echo "import site; site.addsitedir('/venv/lib/python3.12/site-packages')" > "$SP/zz_overlay.pth"
  PIP_NO_INDEX=1 /venv/bin/python -m pip install --quiet --no-index --find-links /opt/veriftools/wheels \
      --target "$SP" --no-deps z3-solver icontract asttokens jsonschema jsonschema_specifications referencing rpds_py attrs typing_extensions >/dev/null 2>&1 || \
  PIP_NO_INDEX=1 /venv/bin/python -m pip install --no-index --find-links /opt/veriftools/wheels \
      --target "$SP" --no-deps z3-solver icontract asttokens jsonschema jsonschema_specifications referencing rpds_py attrs typing_extensions
  "$VENV/bin/python" -c "import z3, icontract, jsonschema, numpy, sympy, networkx, pandas; print('env ok', z3.get_version_string())"
  touch "$STAMP"
) 9>"$HERE/.venv.lock"
