#!/bin/bash
# usage: bin/try_seed.sh <patch.diff> <Cxx> [<Cyy> ...] — applies the patch to a scratch worktree of /repo HEAD, runs the quick checks there
patch="$1"; shift
wt=$(mktemp -d -u "${TMPDIR:-/tmp}/tryseed-XXXXXX")
git -C /repo worktree add -q --detach "$wt" HEAD || exit 2
if git -C "$wt" apply "$patch"; then
  for p in "$@"; do VERIF_OUT="$wt.out" VERIF_REPO="$wt" timeout 1500 "$(dirname "$0")/../vcheck" "$p" quick 2>&1 | grep -v "^KNOWN" | cut -c1-220 | tail -3; done
else echo "PATCH DOES NOT APPLY"; fi
git -C /repo worktree remove --force "$wt"
[ -n "$KEEP_OUT" ] || python3 -c "import shutil,sys; shutil.rmtree(sys.argv[1], ignore_errors=True)" "$wt.out"
