#!/bin/bash
# usage: bin/run_neutral.sh [ids...]  — applies every behaviour-preserving refactoring in neutral/<id>/patch.diff to a scratch worktree of
# /repo HEAD (under $TMPDIR, removed afterwards) and runs the quick checks of the properties its functions carry.  Any VIOLATION or
# non-zero exit is a FALSE ALARM of the machinery.  Writes neutral/RESULTS.txt.  (A-D: refactorings of functions under contract; E: generated
# code / internal names; F: messages and diagnostics; G: performance rewrites — E-G run every check.)
cd "$(dirname "$0")/.."
declare -A CH=( [A]="C03 C08 C10 C19 C20" [B]="C07 C13 C14 C15 C17 C16" [C]="C01 C04 C06 C09 C11 C12 C16 C18" [D]="C02 C05 C20 C03 C08"
                 [E]="C01 C02 C03 C04 C05 C06 C07 C08 C09 C10 C11 C12 C13 C14 C15 C16 C17 C18 C19 C20" [F]="C01 C02 C03 C04 C05 C06 C07 C08 C09 C10 C11 C12 C13 C14 C15 C16 C17 C18 C19 C20" [G]="C01 C02 C03 C04 C05 C06 C07 C08 C09 C10 C11 C12 C13 C14 C15 C16 C17 C18 C19 C20"
                 [H]="C01 C02 C03 C04 C05 C06 C07 C08 C09 C10 C11 C12 C13 C14 C15 C16 C17 C18 C19 C20" [I]="C01 C02 C03 C04 C05 C06 C07 C08 C09 C10 C11 C12 C13 C14 C15 C16 C17 C18 C19 C20" [K]="C16 C09 C19 C10 C03 C02" [J]="C01 C02 C03 C04 C05 C06 C07 C08 C09 C10 C11 C12 C13 C14 C15 C16 C17 C18 C19 C20" )
T="${TMPDIR:-/tmp}"
ids="$@"; [ -z "$ids" ] && ids=$(ls neutral | grep -v RESULTS)
out=neutral/RESULTS.txt; [ -z "$1" ] && : > $out
for id in $ids; do
  k=${id%%-*}
  wt=$(mktemp -d -u "$T/neut-XXXXXX")
  git -C /repo worktree add -q --detach "$wt" HEAD || continue
  if git -C "$wt" apply "$PWD/neutral/$id/patch.diff" 2>/dev/null; then
    for p in ${CH[$k]}; do
      log=$(VERIF_OUT="$wt.out" VERIF_REPO="$wt" timeout 1500 ./vcheck $p quick 2>&1); rc=$?
      echo "$id $p rc=$rc violations=$(echo "$log" | grep -c '^VIOLATION') $(echo "$log" | tail -1 | sed 's/, wall.*//' | cut -c1-160)" | tee -a $out
    done
  else echo "$id PATCH-DOES-NOT-APPLY" | tee -a $out; fi
  git -C /repo worktree remove --force "$wt"; rm -rf "$wt.out"
done
