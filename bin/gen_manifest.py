#!/usr/bin/env python3
"""Writes /verif/MANIFEST.json from the table below (single source of truth for the interface)."""
import json, os
HERE = os.path.dirname(os.path.dirname(os.path.abspath(__file__)))
ALL = [f"C{i:02d}" for i in range(1, 21)]

CHECKS = {
 "C19": dict(
    level=("proof", "Class invariant and contracts of all five DDEHistory entry points (constructor in both variants, update, _grow, "
            "__call__) are discharged by an SMT solver from verification conditions generated on every run from the current source "
            "text; the invariant is inductive over every method, so the interpolation/copy/refusal clauses hold after ANY sequence "
            "of updates and queries, for all buffer sizes and times. A bounded native run of the same clauses on the real class "
            "adds dtype/shape/aliasing coverage and is not counted as proof.", "5 C19"),
    note="Trusted: pyvc's encoding of the Python subset (cross-checked natively on every run), z3/cvc5, floats as reals, one representative "
         "component per state vector, numpy row assignment copies, documented contract of bisect.bisect_right, np.empty's first dimension.",
    technique="contract-based deductive verification: pyvc VC generation from the AST of the real methods + z3/cvc5; bounded native contract check as cross-check",
    engine="pyvc"),
}

def main():
    checks = []
    for pid in ALL:
        if pid not in CHECKS:
            continue
        c = CHECKS[pid]
        checks.append(dict(
            property_id=pid,
            quick_cmd=f"./vcheck {pid} quick",
            thorough_cmd=f"./vcheck {pid} thorough",
            evidence_file=f"/verif/evidence/{pid}.json",
            replay_cmd_template="./vcheck replay {path}",
            engine=c["engine"],
            level_claimed=dict(category=c["level"][0], text=c["level"][1], design_ref=c["level"][2]),
            level_note=c["note"], technique=c["technique"]))
    na = [dict(property_id=p, reason="check not built yet in this session (work in progress; see DESIGN.md section 5 for the planned contracts)")
          for p in ALL if p not in CHECKS]
    m = dict(
        version=1,
        setup_cmd="./bin/ensure_env.sh",
        hooks=dict(guard="PYRATES_VERIF", enable="no source hooks: contracts are sidecar files, the real functions are read (AST) and wrapped from outside",
                   baseline_off_cmd="cd /repo && /venv/bin/python -m pytest -ra -q -p no:cacheprovider --timeout=900 --continue-on-collection-errors",
                   source_commits=[], add_only=True),
        engines=[dict(name="pyvc", path="/verif/pyvc", serves_properties=sorted(CHECKS),
                      kind_free_text="self-written VC generator (AST of the real functions -> SMT) with sidecar contracts; z3 5.1 / cvc5 1.0.3 / z3 4.8.12 portfolio"),
                 dict(name="rtc", path="/verif/rtc", serves_properties=[p for p in sorted(CHECKS) if CHECKS[p].get("rtc")],
                      kind_free_text="bounded run-time contract checking of public API functions against spec functions (labelled bounded, never counted as proved)")],
        checks=checks, not_applicable=na,
        notes="See DESIGN.md. Exit codes of every check: 0 held, 1 VIOLATION, 3 checker error.")
    with open(os.path.join(HERE, "MANIFEST.json"), "w") as fh:
        json.dump(m, fh, indent=1)
    print("wrote MANIFEST.json with", len(checks), "checks")

if __name__ == "__main__":
    main()
