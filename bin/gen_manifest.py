#!/usr/bin/env python3
"""Writes /verif/MANIFEST.json from the table below (single source of truth for the interface)."""
import json, os
HERE = os.path.dirname(os.path.dirname(os.path.abspath(__file__)))
ALL = [f"C{i:02d}" for i in range(1, 21)]
FR_ = ("frame (ownership) contracts on the real functions (pyvc/frame.py: one obligation per store / in-place operator / mutating call / summarised call / "
       "returned alias / required statement of the current source, discharged by an ownership analysis; callee summaries are assumptions)")

CHECKS = {
 "C19": dict(
    level=("proof", "Class invariant and contracts of all five DDEHistory entry points (constructor in both variants, update, _grow, "
            "__call__) and of the factory BaseBackend.get_hist_func (constructor used through its contract) are discharged by an SMT solver from verification conditions generated on every run from the current source "
            "text; the invariant is inductive over every method, so the interpolation/copy/refusal clauses hold after ANY sequence "
            "of updates and queries, for all buffer sizes and times. A bounded native run of the same clauses on the real class "
            "adds dtype/shape/aliasing coverage and is not counted as proof. Frame contracts of the two adaptive DDE solvers that feed the history "
            "(BaseBackend / TorchBackend._solve_scipy_dde): the history object is never stored into directly and changes only through DDEHistory.update, called "
            "unconditionally for every accepted step (ownership analysis of the current source).", "5 C19"),
    note="Trusted: pyvc's encoding of the Python subset (cross-checked natively on every run), z3/cvc5, floats as reals, one representative "
         "component per state vector, numpy row assignment copies, documented contract of bisect.bisect_right, np.empty's first dimension.",
    technique="contract-based deductive verification: pyvc VC generation from the AST of the real methods + z3/cvc5; bounded native contract check as cross-check",
    engine="pyvc"),
 "C01": dict(
    level=("other", "Deductive (small core): the state-layout loop of ComputeGraph.to_func assigns contiguous, pairwise disjoint, ordered "
            "ranges to the state variables for any number and sizes of variables; frame contracts: the functions that carry declared values and overrides into the compilation "
            "(OperatorTemplate.apply, OperatorGraphTemplate.apply, CircuitTemplate.update_var, dict.from_operator, CircuitTemplate.clear) neither write into shared templates nor let "
            "one call's values reach the operator cache. Bounded run-time contract check for everything else: the postcondition of CircuitTemplate.get_run_func (distinct state layout, declared "
            "argument values, derivative == reference semantics at random states and parameter draws) is evaluated on structured and seeded "
            "families of generated models; no verifier installed here can execute the sympy/networkx/exec pipeline symbolically, so nothing "
            "is claimed beyond the enumerated cases.", "5 C01"),
    note="Trusted: MDL rendering and spec_rhs (harness, no string parsing), float64 tolerance 1e-8, fork-per-case isolation.",
    technique="contract-based deductive verification of the state-layout loop (pyvc VCs, z3) and of frame conditions (%s) + bounded contract checking of the real API against a pure spec function (labelled bounded, not proved)" % FR_, engine="pyvc", rtc=True),
 "C03": dict(
    level=("other", "Proved core + bounded shell. Deductive (unbounded in steps, cadence, state): the real _solve_euler/_solve_heun loops (ODE and "
            "DDE variants) return exactly the Euler/Heun iterates in the stated rows, call the vector field with the step counter, feed the history "
            "through DDEHistory.update's contract; BaseBackend.run builds the stated time axis; Base._solve dispatches by name; is_integration_adaptive is true exactly for the solvers that do "
            "not run those loops; _index_state_var selects exactly the variable's columns. Bounded: "
            "CircuitTemplate.run against spec iterates on a (T, dt, dts, cutoff, solver, vectorize) grid and adaptive solvers against a tight reference.", "5 C03"),
    note="Trusted: pyvc encoding (floats as reals, one representative component, value semantics of the vector field), z3/cvc5, "
         "spec_rhs/spec_fixed_step, pandas/scipy.",
    technique="contract-based deductive verification (pyvc: VCs from the AST of the real solver loops, z3/cvc5) + bounded contract checking of run()",
    engine="pyvc", rtc=True),
 "C04": dict(
    level=("other", "Deductive (small core): _get_indexed_var_str, which decides whether a vectorised edge variable is indexed, returns the bare variable "
            "exactly for the identity selection. Bounded: every family member is compiled and simulated with vectorize on and off in separate fresh "
            "processes and the two are compared with each other, frontend variable by frontend variable.", "5 C04"),
    note="Trusted: pyvc encoding; the harness mapping of frontend variables to positions (get_variable_positions as run() uses it). _group_edges, "
         "_add_edge_buffer and the rest of the vectorisation bookkeeping are bounded only.",
    technique="contract-based deductive verification of the index-selection helper (pyvc) + bounded differential contract checking (vectorize on vs off) on generated model families", engine="pyvc", rtc=True),
 "C09": dict(
    level=("other", "Deductive: the delay discretisation NetworkGraph._preprocess_delay returns round-half-even(delay/step) for fixed steps and the "
            "delay itself otherwise, for all inputs; the decision whether a delay buffer is built at all (region of _collect_delays_from_edges: iff the largest "
            "discretised delay exceeds the placeholder 1, resp. iff the largest continuous delay exceeds the step size). Bounded: run(solver='euler') against the explicitly delayed recurrence on families with mixed "
            "delayed/undelayed edges, shared sources/targets, rings, vectorize on/off.", "5 C09"),
    note="Trusted: pyvc encoding, np.round as round-half-even on reals; spec_fixed_step.",
    technique="contract-based deductive verification of the discretisation function + bounded contract checking of run() against the delayed recurrence",
    engine="pyvc", rtc=True),
 "C11": dict(
    level=("other", "Deductive (small core): the arithmetic that fixes the gamma kernel - number of stages and stage rate - in the per-edge loop of "
            "NetworkGraph._add_edge_buffer (scalar edges) and in the cascade branch of _add_matrix_delay (Connectivity): for every delay, spread and "
            "dde_approx, n >= 1, rate*d == n (mean delay d) and n == max(1, round((d/s)^2)[, dde_approx]), the same number in both forms. Bounded: "
            "run() against the explicitly augmented linear-chain ODE on families of (delay, spread) mixtures, vectorize on/off, Connectivity; the grouping "
            "of slots into chains, the generated chain equations and their compilation are bounded only.", "5 C11"),
    note="Trusted: pyvc encoding (floats as reals, np.round / round as round-half-even on reals); spec_fixed_step's explicit chain.",
    technique="contract-based deductive verification of the kernel order/rate regions (pyvc: VCs from the AST of the real statements, z3/cvc5; counter-models replayed on the extracted region) + bounded contract checking of run() against the explicit augmented ODE",
    engine="pyvc", rtc=True),
 "C18": dict(
    level=("other", "Deductive: for any number of parameters the slot list of the real _auto_param_indices (blocked range = the class constant in the "
            "current source) is strictly increasing, 1..9 first, never PAR(11)..PAR(14). Bounded: the same natively for 0..N parameters and text-level "
            "consistency of emitted files; one export compiled with f2py, STPNT and FUNC called against the closed form.", "5 C18"),
    note="Trusted: pyvc encoding (exact integers); every caller passes the class constant.",
    technique="contract-based deductive verification (loop invariant over the slot allocator) + bounded native checks", engine="pyvc", rtc=True),
 "C20": dict(
    level=("other", "Deductive: _validate_solver (against every backend's SUPPORTED_SOLVERS), _solve of Base/JAX/Fortran and _validate_backend_args raise "
            "exactly when the trigger holds and before any result-producing call. Bounded: guard matrix on real backend objects and malformed model variants.", "5 C20"),
    note="Trusted: pyvc encoding of strings/tuples; callees without contract are opaque and only counted.",
    technique="contract-based deductive verification of guard functions (exceptional postconditions with an effect counter) + bounded guard matrix", engine="pyvc", rtc=True),
 "C02": dict(
    level=("other", "Deductive: TorchBackend._solve_euler and JaxBackend._solve_euler/_solve_heun (nested lax.scan over closures, verified "
            "like loops with inductive invariants over the carry) satisfy the same contracts (euler_iter / heun_iter) as the NumPy loops, for every "
            "step count, cadence and state, so the backends agree by transitivity; the index hook BaseBackend._process_idx emits i + start resp. (a + start):b for every index and start offset. Bounded: torch / jax / fortran vector fields and trajectories against the one reference "
            "semantics, roll on vectors, interpolated inputs, the JAX/Torch loops called directly, float64 after float32 on JAX.", "5 C02"),
    note="Trusted: as C03 for the loops; documented semantics of jax.lax.scan (assumed contract); spec_rhs/spec_fixed_step; gfortran+f2py+meson, torch, jax as installed. Generated Fortran/XLA/torch kernels are outside any verifier here.",
    technique="contract-based deductive verification of the Torch and JAX solver loops against the shared spec + bounded contract checking of every backend against the spec",
    engine="pyvc", rtc=True),
 "C05": dict(
    level=("other", "Deductive (small core): check_vname refuses exactly the reserved names / name parts, for every string. Bounded: seeded random expression trees in four renderings through both evaluation paths (generated code of a one-equation "
            "operator, ExpressionParser+eval_node incl. re-evaluation after set_value) against a tree evaluator that never parses a string; a fixed "
            "table of vector/matrix expressions with the index helpers.", "5 C05"),
    note="Trusted: rtc.mdl.ev/to_str (self-tested against Python evaluation). The parser (sympify/lambdify/str rewriting) is out of deductive reach.",
    technique="contract-based deductive verification of check_vname (pyvc, strings) + bounded contract checking of both evaluation paths against a tree evaluator", engine="pyvc", rtc=True),
 "C06": dict(
    level=("other", "Deductive (small core): _get_indexed_var_str leaves a vectorised edge variable un-indexed exactly when its index list is the identity "
            "selection (loop with break, every length). Bounded: the DataFrame returned by run() column by column (labels, one column per requested "
            "variable, values equal the per-variable reference trajectory) for dict/list/wildcard requests, hierarchy, permuted node declarations, "
            "vectorize on/off, after earlier runs of the same instance; the same paths in update_var.", "5 C06"),
    note="Trusted: pyvc encoding, documented np.arange; spec_fixed_step; documented label forms. Path resolution (get_nodes, _relabel_var, _get_var_idx) is bounded only.",
    technique="contract-based deductive verification of the index-selection helper (pyvc) + bounded contract checking of run() outputs against per-variable spec trajectories", engine="pyvc", rtc=True),
 "C07": dict(
    level=("other", "Deductive (frame core): CircuitTemplate.update_var writes only into the circuit's own containers and into DEEP COPIES of node templates "
            "(never into a template object reachable from get_node_template), OperatorGraphTemplate.apply / OperatorTemplate.apply never write into the "
            "template's variations or let the values of one call reach the operator cache, dict.from_operator never writes into the operator's variables - for "
            "every input, from the current source. Bounded: sequences of update_var / node_values / edge updates on circuits with shared template objects; "
            "afterwards the compiled arguments, initial state and vector field must be those of the model with exactly the addressed nodes overridden.", "5 C07"),
    note="Trusted: the ownership analysis and the callee summaries named in contracts/frames.py; mdl_override + spec_rhs.",
    technique="contract-based deductive verification of frame conditions: %s + bounded contract checking of override operations against the overridden spec" % FR_,
    engine="pyvc", rtc=True),
 "C08": dict(
    level=("other", "Deductive core: the fixed-step loops of the NumPy, Torch and JAX backends pass the integer step counter i + t0 to the vector field at "
            "step i (both Heun stages), for all step counts and cadences. Bounded: integrators under seeded non-constant inputs for every input shape "
            "and target form, Euler (exact) and adaptive (interpolated reference); the input wiring itself is bounded only.", "5 C08"),
    note="Trusted: as C03/C02 for the loops; spec with additive extrinsic terms; scipy reference.",
    technique="contract-based deductive verification of the step-counter clause of every fixed-step loop (pyvc) + bounded contract checking of run(inputs=...) against the spec", engine="pyvc", rtc=True),
 "C10": dict(
    level=("other", "Deductive core: DDEHistory (initial state before the start, linear interpolant of the recorded trajectory afterwards) and the history "
            "feed of the fixed-step loops ((i+1)*dt, y_{i+1}) after every step); frame contracts of the adaptive DDE solvers (history changed only through "
            "DDEHistory.update, once per accepted step). Bounded: compiled functions of delayed models called with a hand-made "
            "history (component x of hist(t - tau), t in time units for adaptive and fixed-step code) and run() against an RK4 method-of-steps "
            "reference incl. coarse sampling.", "5 C10"),
    note="Trusted: as C19/C03; spec_rhs with hist; method-of-steps reference. The generated hist(...) lines are bounded only.",
    technique="contract-based deductive verification of the history buffer and the history feed (pyvc) + bounded contract checking against spec with user-supplied history", engine="pyvc", rtc=True),
 "C12": dict(
    level=("other", "Deductive (small core): get_jacobian_func's state-layout loop satisfies the same uniquely determining contract as to_func's (same state ordering). Bounded: J(t,y) of get_jacobian_func against central differences of the get_run_func field in the same ordering, dense and "
            "sparse, history matrices via a perturbed hand-made history, auto-07p DFDU/DFDP at text level.", "5 C12"),
    note="Trusted: central differences h=1e-6 in float64.", technique="contract-based deductive verification of the layout loop (pyvc) + bounded contract checking of the Jacobian against finite differences of the real vector field", engine="pyvc", rtc=True),
 "C13": dict(
    level=("other", "Deductive (frame core): the reset points (pyrates.clear, CircuitTemplate.clear, CircuitIR.clear, clear_frontend_caches, clear_ir_caches, "
            "template.clear_cache) contain, unconditionally and not skippable by an earlier return, the clearing statement of every cache they are responsible "
            "for; update_edges hands out nothing that aliases the base circuit's edges; OperatorTemplate.apply lets no value of the current call reach the "
            "operator cache. Bounded: every single API operation and seeded histories of 2 (thorough 3) operations over a pool of colliding models run in one "
            "process; afterwards the target model and every function returned earlier must satisfy their own spec.", "5 C13"),
    note="Trusted: the ownership analysis and callee summaries (contracts/frames.py); spec_rhs as the fresh-interpreter baseline (C01 establishes it in fresh processes). "
         "Cache transparency of node_cache / _compiled_module_cache is bounded only.",
    technique="contract-based deductive verification of frame / required-statement conditions: %s + bounded contract checking over enumerated API histories" % FR_,
    engine="pyvc", rtc=True),
 "C14": dict(
    level=("other", "Deductive (frame core): the dump functions behind to_yaml (from_circuit / from_node / from_edge / from_operator / add_to_dict) modify only "
            "the dump dictionary; collect_edges / get_edges / get_edge / get_node_template modify nothing; update_edges / update_dict return nothing that aliases "
            "their base; CircuitTemplate.update_template(in_place=False) and OperatorTemplate.update_template modify nothing of the template they are called on; "
            "_update_variables / _update_operators likewise - for every input, from the current source. Bounded: deep snapshots of the same in-memory template "
            "before/after each read-only or copy-making operation (incl. deriving operator/node templates, population circuits) and sequences of them; afterwards "
            "run(in_place=False) twice identical and equal to the spec. run / get_run_func / get_jacobian_func with in_place=False are under a frame contract too: they write "
            "nothing to the template except three bookkeeping fields (state layout, state values, handle of the compiled network; that those are written is a listed known finding).", "5 C14"),
    note="Trusted: the ownership analysis and callee summaries (contracts/frames.py); snapshot_template reads nodes/edges/circuits/operators/equations/variables.",
    technique="contract-based deductive verification of frame conditions: %s + bounded frame (snapshot) contract checking of read-only operations" % FR_,
    engine="pyvc", rtc=True),
 "C15": dict(
    level=("other", "Deductive (small frame core): deriving a template (OperatorTemplate.update_template, _update_variables, _update_operators) modifies nothing of "
            "the base template and returns nothing that aliases its operator variations. Bounded: models through YAML text, Python + to_yaml + from_yaml and YAML round "
            "trip against the spec; derived operators with edit dictionaries against the token-based edit; parser.replace bounded-exhaustively (all strings up to length 5/6 "
            "over a 9-letter alphabet) against spec_replace.", "5 C15"),
    note="Trusted: the ownership analysis and callee summaries; to_yaml_dict, spec_replace. A loop-invariant proof of replace over SMT strings was judged out of reach (solvers go unknown).",
    technique="contract-based deductive verification of frame conditions on the derivation functions: %s + bounded contract checking of frontend routes + bounded-exhaustive check of replace against a token-based spec" % FR_,
    engine="pyvc", rtc=True),
 "C16": dict(
    level=("other", "Deductive (small core): a Connectivity object stores its source, target, delays and spread exactly as given (constructor contract, for every "
            "value incl. spread >= delays and None), and the cascade branch of _add_matrix_delay turns (delay, spread) into n = max(1, round((d/s)^2)) stages of rate "
            "n/d - the numbers scalar edges get (contract shared with C11); the statement of PopulationTemplate.apply that distributes one params entry over the units "
            "(per-unit sequence: unit k receives entry k; scalar: every unit; exactly n entries). Bounded: population circuits unit by unit against the reference semantics of the explicit "
            "node-and-edge network (signed, sparse, non-square matrices, scalar weights, heterogeneous params and initial states, delays and gamma kernels, coupling "
            "edge templates incl. chained operators). The dictionary walk of PopulationTemplate.apply, _apply_populations_and_connections and _generate_edge_equation are bounded only.", "5 C16"),
    note="Trusted: pyvc encoding; population_to_explicit + spec_fixed_step.",
    technique="contract-based deductive verification of the Connectivity constructor and the matrix-delay kernel arithmetic (pyvc, z3) + bounded contract checking of Population/Connectivity against the explicit network's spec",
    engine="pyvc", rtc=True),
 "C17": dict(
    level=("other", "Deductive (small frame core): adapt_circuit works on a deep copy - it never modifies, and never returns an alias of, the circuit it is given or "
            "the template object the YAML loader keeps ('leaves the circuits uncoupled from one another'); CircuitTemplate.update_var writes only into deep copies of node "
            "templates; _get_indexed_var_str (contract shared with C06: a grouped source is read un-indexed only for the identity selection). Bounded: every row of grid_search's parameter table against the spec trajectory of the individually parametrised circuit (node params, edge "
            "attributes, several targets, permuted and DataFrame grids, inputs), vectorize on/off.", "5 C17"),
    note="Trusted: the ownership analysis and callee summaries; mdl_override + spec_fixed_step. linearize_grid / grid_search (pandas, whole pipeline) are bounded only.",
    technique="contract-based deductive verification of frame conditions on adapt_circuit / update_var: %s + bounded contract checking of grid_search against individual runs of the spec" % FR_,
    engine="pyvc", rtc=True),
}

def main():
    checks = []
    for pid in ALL:
        if pid not in CHECKS:
            continue
        c = CHECKS[pid]
        checks.append(dict(
            property_id=pid,
            quick_cmd=f"./vcheck {pid} quick",
            thorough_cmd=f"./vcheck {pid} thorough",
            evidence_file=f"/verif/evidence/{pid}.json",
            replay_cmd_template="./vcheck replay {path}",
            engine=c["engine"],
            level_claimed=dict(category=c["level"][0], text=c["level"][1], design_ref=c["level"][2]),
            level_note=c["note"], technique=c["technique"]))
    na = [dict(property_id=p, reason="not claimed") for p in ALL if p not in CHECKS]
    m = dict(
        version=1,
        setup_cmd="./bin/ensure_env.sh",
        hooks=dict(guard="PYRATES_VERIF", enable="no source hooks: contracts are sidecar files, the real functions are read (AST) and wrapped from outside",
                   baseline_off_cmd="cd /repo && /venv/bin/python -m pytest -ra -q -p no:cacheprovider --timeout=900 --continue-on-collection-errors",
                   source_commits=[], add_only=True),
        engines=[dict(name="pyvc", path="/verif/pyvc", serves_properties=sorted(CHECKS),
                      kind_free_text="self-written VC generator (AST of the real functions -> SMT) with sidecar contracts; z3 5.1 / cvc5 1.0.3 / z3 4.8.12 portfolio"),
                 dict(name="rtc", path="/verif/rtc", serves_properties=[p for p in sorted(CHECKS) if CHECKS[p].get("rtc")],
                      kind_free_text="bounded run-time contract checking of public API functions against spec functions (labelled bounded, never counted as proved)")],
        checks=checks, not_applicable=na,
        notes="See DESIGN.md. Exit codes of every check: 0 held, 1 VIOLATION, 3 checker error.")
    with open(os.path.join(HERE, "MANIFEST.json"), "w") as fh:
        json.dump(m, fh, indent=1)
    print("wrote MANIFEST.json with", len(checks), "checks")

if __name__ == "__main__":
    main()
