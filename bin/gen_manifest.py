#!/usr/bin/env python3
"""Writes /verif/MANIFEST.json from the table below (single source of truth for the interface)."""
import json, os
HERE = os.path.dirname(os.path.dirname(os.path.abspath(__file__)))
ALL = [f"C{i:02d}" for i in range(1, 21)]

CHECKS = {
 "C19": dict(
    level=("proof", "Class invariant and contracts of all five DDEHistory entry points (constructor in both variants, update, _grow, "
            "__call__) are discharged by an SMT solver from verification conditions generated on every run from the current source "
            "text; the invariant is inductive over every method, so the interpolation/copy/refusal clauses hold after ANY sequence "
            "of updates and queries, for all buffer sizes and times. A bounded native run of the same clauses on the real class "
            "adds dtype/shape/aliasing coverage and is not counted as proof.", "5 C19"),
    note="Trusted: pyvc's encoding of the Python subset (cross-checked natively on every run), z3/cvc5, floats as reals, one representative "
         "component per state vector, numpy row assignment copies, documented contract of bisect.bisect_right, np.empty's first dimension.",
    technique="contract-based deductive verification: pyvc VC generation from the AST of the real methods + z3/cvc5; bounded native contract check as cross-check",
    engine="pyvc"),
 "C01": dict(
    level=("exploration", "Bounded run-time contract check: the postcondition of CircuitTemplate.get_run_func (distinct state layout, declared "
            "argument values, derivative == reference semantics at random states and parameter draws) is evaluated on structured and seeded "
            "families of generated models; no verifier installed here can execute the sympy/networkx/exec pipeline symbolically, so nothing "
            "is claimed beyond the enumerated cases.", "5 C01"),
    note="Trusted: MDL rendering and spec_rhs (harness, no string parsing), float64 tolerance 1e-8, fork-per-case isolation.",
    technique="bounded contract checking of the real API against a pure spec function (labelled bounded, not proved)", engine="rtc", rtc=True),
 "C03": dict(
    level=("other", "Proved core + bounded shell. Deductive (unbounded in steps, cadence, state): the real _solve_euler/_solve_heun loops (ODE and "
            "DDE variants) return exactly the Euler/Heun iterates in the stated rows, call the vector field with the step counter, feed the history "
            "through DDEHistory.update's contract; BaseBackend.run builds the stated time axis; Base._solve dispatches by name. Bounded: "
            "CircuitTemplate.run against spec iterates on a (T, dt, dts, cutoff, solver, vectorize) grid and adaptive solvers against a tight reference.", "5 C03"),
    note="Trusted: pyvc encoding (floats as reals, one representative component, value semantics of the vector field), z3/cvc5, "
         "spec_rhs/spec_fixed_step, pandas/scipy.",
    technique="contract-based deductive verification (pyvc: VCs from the AST of the real solver loops, z3/cvc5) + bounded contract checking of run()",
    engine="pyvc", rtc=True),
 "C04": dict(
    level=("exploration", "Bounded: every family member is compiled and simulated with vectorize on and off in separate fresh processes and the two "
            "are compared with each other, frontend variable by frontend variable.", "5 C04"),
    note="Trusted: the harness mapping of frontend variables to positions (get_variable_positions as run() uses it).",
    technique="bounded differential contract checking (vectorize on vs off) on generated model families", engine="rtc", rtc=True),
 "C09": dict(
    level=("other", "Deductive: the delay discretisation NetworkGraph._preprocess_delay returns round-half-even(delay/step) for fixed steps and the "
            "delay itself otherwise, for all inputs. Bounded: run(solver='euler') against the explicitly delayed recurrence on families with mixed "
            "delayed/undelayed edges, shared sources/targets, rings, vectorize on/off.", "5 C09"),
    note="Trusted: pyvc encoding, np.round as round-half-even on reals; spec_fixed_step.",
    technique="contract-based deductive verification of the discretisation function + bounded contract checking of run() against the delayed recurrence",
    engine="pyvc", rtc=True),
 "C11": dict(
    level=("exploration", "Bounded: run() against the explicitly augmented linear-chain ODE (n = round((d/s)^2) stages of rate n/d) on families of "
            "(delay, spread) mixtures, vectorize on/off.", "5 C11"),
    note="Trusted: spec_fixed_step's explicit chain.", technique="bounded contract checking of run() against the explicit augmented ODE", engine="rtc", rtc=True),
 "C18": dict(
    level=("other", "Deductive: for any number of parameters the slot list of the real _auto_param_indices (blocked range = the class constant in the "
            "current source) is strictly increasing, 1..9 first, never PAR(11)..PAR(14). Bounded: the same natively for 0..N parameters and text-level "
            "consistency of emitted files where available.", "5 C18"),
    note="Trusted: pyvc encoding (exact integers); every caller passes the class constant.",
    technique="contract-based deductive verification (loop invariant over the slot allocator) + bounded native checks", engine="pyvc", rtc=True),
 "C20": dict(
    level=("other", "Deductive: _validate_solver (against every backend's SUPPORTED_SOLVERS), _solve of Base/JAX/Fortran and _validate_backend_args raise "
            "exactly when the trigger holds and before any result-producing call. Bounded: guard matrix on real backend objects and malformed model variants.", "5 C20"),
    note="Trusted: pyvc encoding of strings/tuples; callees without contract are opaque and only counted.",
    technique="contract-based deductive verification of guard functions (exceptional postconditions with an effect counter) + bounded guard matrix", engine="pyvc", rtc=True),
}

def main():
    checks = []
    for pid in ALL:
        if pid not in CHECKS:
            continue
        c = CHECKS[pid]
        checks.append(dict(
            property_id=pid,
            quick_cmd=f"./vcheck {pid} quick",
            thorough_cmd=f"./vcheck {pid} thorough",
            evidence_file=f"/verif/evidence/{pid}.json",
            replay_cmd_template="./vcheck replay {path}",
            engine=c["engine"],
            level_claimed=dict(category=c["level"][0], text=c["level"][1], design_ref=c["level"][2]),
            level_note=c["note"], technique=c["technique"]))
    na = [dict(property_id=p, reason="check not built yet in this session (work in progress; see DESIGN.md section 5 for the planned contracts)")
          for p in ALL if p not in CHECKS]
    m = dict(
        version=1,
        setup_cmd="./bin/ensure_env.sh",
        hooks=dict(guard="PYRATES_VERIF", enable="no source hooks: contracts are sidecar files, the real functions are read (AST) and wrapped from outside",
                   baseline_off_cmd="cd /repo && /venv/bin/python -m pytest -ra -q -p no:cacheprovider --timeout=900 --continue-on-collection-errors",
                   source_commits=[], add_only=True),
        engines=[dict(name="pyvc", path="/verif/pyvc", serves_properties=sorted(CHECKS),
                      kind_free_text="self-written VC generator (AST of the real functions -> SMT) with sidecar contracts; z3 5.1 / cvc5 1.0.3 / z3 4.8.12 portfolio"),
                 dict(name="rtc", path="/verif/rtc", serves_properties=[p for p in sorted(CHECKS) if CHECKS[p].get("rtc")],
                      kind_free_text="bounded run-time contract checking of public API functions against spec functions (labelled bounded, never counted as proved)")],
        checks=checks, not_applicable=na,
        notes="See DESIGN.md. Exit codes of every check: 0 held, 1 VIOLATION, 3 checker error.")
    with open(os.path.join(HERE, "MANIFEST.json"), "w") as fh:
        json.dump(m, fh, indent=1)
    print("wrote MANIFEST.json with", len(checks), "checks")

if __name__ == "__main__":
    main()
