#!/usr/bin/env python3
"""Validate MANIFEST.json and every evidence/<id>.json against the schemas in /root/.vp (exit 1 on the first error)."""
import json, os, sys, glob
import jsonschema
HERE = os.path.dirname(os.path.dirname(os.path.abspath(__file__)))
ok = True
ms = json.load(open("/root/.vp/MANIFEST.schema.json"))
es = json.load(open("/root/.vp/EVIDENCE.schema.json"))
m = json.load(open(os.path.join(HERE, "MANIFEST.json")))
try:
    jsonschema.validate(m, ms)
    print("MANIFEST ok:", len(m["checks"]), "checks;", "not_applicable:", m.get("not_applicable"))
except jsonschema.ValidationError as e:
    ok = False
    print("MANIFEST INVALID:", e.message[:300])
claimed = {c["property_id"] for c in m["checks"]}
for pid in sorted(claimed):
    f = os.path.join(HERE, "evidence", f"{pid}.json")
    if not os.path.exists(f):
        ok = False
        print(pid, "NO EVIDENCE FILE")
        continue
    try:
        e = json.load(open(f))
        jsonschema.validate(e, es)
    except Exception as ex:
        ok = False
        print(pid, "EVIDENCE INVALID:", str(getattr(ex, "message", ex))[:300])
print("all valid" if ok else "ERRORS")
sys.exit(0 if ok else 1)
