import sys, importlib; sys.path.insert(0,'/verif')
from vlib.harness import registry_of
from pyvc.verify import run_target
mod=importlib.import_module(sys.argv[1])
reg=registry_of(mod)
for c in mod.CONTRACTS:
    if len(sys.argv)>2 and sys.argv[2] not in c['name']: continue
    r=run_target(c,reg,getattr(mod,'CLASSES',{}))
    print('==',r.name,r.status,r.detail[:1500],r.cover,r.seconds)
    for o in r.obligations:
        if o['status']!='discharged' or '-v' in sys.argv: print('  ',o['status'],o['name'],o['backend'],o['seconds'], str(o.get('model'))[:300], o.get('goal','')[:200])
    print('   total',len(r.obligations),'discharged',sum(o['status']=='discharged' for o in r.obligations))
