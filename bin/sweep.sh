#!/bin/bash
# usage: bin/sweep.sh "<seeds>" [tier]  — runs every registered check for each seed; prints non-zero exits. Last seed's evidence stays.
cd "$(dirname "$0")/.."
tier="${2:-quick}"
for s in $1; do
  for p in C01 C02 C03 C04 C05 C06 C07 C08 C09 C10 C11 C12 C13 C14 C15 C16 C17 C18 C19 C20; do
    VERIF_SEED=$s timeout 3000 ./vcheck $p $tier > /tmp/sweep_${p}_$s.log 2>&1; rc=$?
    echo "seed=$s $p rc=$rc $(grep -c '^VIOLATION' /tmp/sweep_${p}_$s.log) $(tail -1 /tmp/sweep_${p}_$s.log | cut -c1-110)"
  done
done
