#!/bin/bash
# usage: confirm_seed.sh <seed-id e.g. C19-1>   (reads /tmp/seed-out/<id>/, uses its own scratch worktree, removes it)
# Confirms: demo passes on the clean tree, fails on the changed tree, and the 49 baseline tests pass with the change.
id="$1"; src="/tmp/seed-out/$id"; prop="${id%%-*}"
wt="/tmp/confirm-wt-$id"; out="/tmp/confirm-$id.log"
export PATH=/venv/bin:$PATH
rm -rf "$wt"; git -C /repo worktree add -q --detach "$wt" HEAD || exit 2
cd "$wt"
run_demo(){ d=$(mktemp -d); ( cd "$wt" && PYTHONPATH="$wt" timeout 900 /venv/bin/python "$src/demo.py" ) >"$d/out" 2>&1; rc=$?; tail -3 "$d/out"; rm -rf "$d"; return $rc; }
echo "== clean demo" >"$out"; run_demo >>"$out" 2>&1; rc_clean=$?
git apply "$src/patch.diff" || { echo "patch does not apply" >>"$out"; git -C /repo worktree remove --force "$wt"; exit 2; }
echo "== changed demo" >>"$out"; run_demo >>"$out" 2>&1; rc_changed=$?
echo "== tests with change" >>"$out"
( cd "$wt" && PYTHONPATH="$wt" /venv/bin/python -m pytest -q -p no:cacheprovider --timeout=900 --deselect tests/test_auto_emission.py 2>&1 | tail -3 ) >>"$out" 2>&1
tests_ok=$(grep -c "49 passed" "$out")
cd /; git -C /repo worktree remove --force "$wt"; rm -rf "$wt"
echo "RESULT $id clean_rc=$rc_clean changed_rc=$rc_changed tests49=$tests_ok" | tee -a "$out"
if [ "$rc_clean" = 0 ] && [ "$rc_changed" != 0 ] && [ "$tests_ok" = 1 ]; then
  mkdir -p "/verif/seeded/$id"; cp "$src/patch.diff" "$src/demo.py" "/verif/seeded/$id/"; [ -f "$src/notes.md" ] && cp "$src/notes.md" "/verif/seeded/$id/"
  python3 - "$id" "$prop" <<PY
import json,sys,re
id,prop=sys.argv[1],sys.argv[2]
notes=open(f"/tmp/seed-out/{id}/notes.md").read() if __import__('os').path.exists(f"/tmp/seed-out/{id}/notes.md") else ""
files=sorted(set(re.findall(r'^\+\+\+ b/(\S+)', open(f"/tmp/seed-out/{id}/patch.diff").read(), re.M)))
json.dump(dict(id=id, property=prop, files_changed=files,
  needs_to_manifest="see notes.md (written by the independent sub-agent that produced the change)",
  confirmed=dict(demo_on_clean_tree="exit 0 (PASS)", demo_on_changed_tree="exit != 0 (FAIL)", baseline_tests_with_change="49 passed (tests/test_auto_emission.py deselected: fails in this environment regardless)",
                 how="bin/confirm_seed.sh in a scratch git worktree of /repo under /tmp, removed afterwards"),
  origin="fresh sub-agent given only the property text and its own scratch worktree"), open(f"/verif/seeded/{id}/meta.json","w"), indent=1)
PY
fi
