import sys; sys.path.insert(0, "/verif")
from pyvc import frame
from contracts import frames
for c in frames.FRAMES:
    if len(sys.argv) > 1 and sys.argv[1] not in c["name"]:
        continue
    r = frame.check(c)
    print("==", r["name"], r["status"], r["detail"], r["cover"])
    for o in r["obligations"]:
        if o["status"] != "discharged" or "-v" in sys.argv:
            print("    ", o["status"], o["name"][len(r["name"]) + 1:], "|", o["reason"])
