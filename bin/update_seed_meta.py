#!/usr/bin/env python3
"""Merges seeded/RESULTS.json (bin/run_seeds.py) into every seeded/<id>/meta.json: which checks detect the change."""
import json, os
HERE = os.path.dirname(os.path.dirname(os.path.abspath(__file__)))
res = json.load(open(os.path.join(HERE, "seeded", "RESULTS.json")))
n = 0
for r in res["results"]:
    mp = os.path.join(HERE, "seeded", r["seed"], "meta.json")
    if not os.path.exists(mp):
        continue
    m = json.load(open(mp))
    m["breaks_property"] = r["property"]
    m["caught_by_checks"] = r["caught_by"]
    m["what_was_run"] = {
        "confirmation": "bin/confirm_seed.sh (demo on clean tree, demo on changed tree, 49 baseline tests with the change)",
        "detection": "bin/run_seeds.py: patch applied to a scratch worktree of /repo HEAD, ./vcheck <property> quick with VERIF_REPO=<worktree> "
                     "and VERIF_OUT outside /verif (" + res["note"] + ")"}
    m["detection_first_violation_line"] = {p: (c.get("first") or "").replace(os.environ.get("TMPDIR", "/tmp"), "<scratch>") for p, c in r["checks"].items() if c.get("first")}
    json.dump(m, open(mp, "w"), indent=1)
    n += 1
print("updated", n, "meta files")
