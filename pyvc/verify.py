"""Driver: one contract -> obligations -> verdicts (+ counter-example replay on the real code)."""
import ast
import json
import os
import time
import traceback

import z3

from . import extract as X
from . import smt
from .engine import (Engine, State, Unsupported, VNum, VSeq, VObj, VFn, VTuple, VStr, VNone, VOpaque, VConst,
                     fresh, INT, sort_of_kind)


class TargetResult:
    def __init__(self, name):
        self.name = name
        self.target = None
        self.obligations = []     # dicts
        self.status = "ok"        # ok | undecided | error
        self.detail = ""
        self.assumed = []
        self.source_sha = None
        self.lines = None
        self.seconds = 0.0
        self.cover = None
        self.canary = None

    def to_json(self):
        return self.__dict__


def _model_value(m, v, depth=0):
    if isinstance(v, VNum):
        x = m.eval(v.z, model_completion=True)
        if z3.is_int_value(x):
            return x.as_long()
        if z3.is_rational_value(x):
            return {"frac": [x.numerator_as_long(), x.denominator_as_long()]}
        if z3.is_true(x) or z3.is_false(x):
            return bool(z3.is_true(x))
        if z3.is_algebraic_value(x):
            return {"approx": x.approx(10).as_decimal(10)}
        return str(x)
    if isinstance(v, VStr):
        x = m.eval(v.z, model_completion=True)
        return x.as_string() if z3.is_string_value(x) else str(x)
    if isinstance(v, VSeq):
        ln = m.eval(v.ln, model_completion=True)
        n = ln.as_long() if z3.is_int_value(ln) else 0
        items = []
        for i in range(max(0, min(n, 12))):
            items.append(_model_value(m, VNum(z3.Select(v.arr, i)) if v.ek != "str" else VStr(z3.Select(v.arr, i))))
        return {"len": n, "items": items}
    if isinstance(v, VTuple):
        return [_model_value(m, x) for x in v.items]
    if isinstance(v, VNone):
        return None
    return repr(v)


def build_entry(eng, contract, fn_node, st, is_region):
    """Create symbolic parameters, class invariant, ghost logs, requires."""
    params = contract["params"]
    if not is_region:
        real_args = [a.arg for a in fn_node.args.posonlyargs + fn_node.args.args + fn_node.args.kwonlyargs]
        if fn_node.args.vararg:
            real_args.append(fn_node.args.vararg.arg)
        if fn_node.args.kwarg:
            real_args.append(fn_node.args.kwarg.arg)
        missing = [a for a in real_args if a not in params and a not in contract.get("ignored_params", ())]
        extra = [p for p in params if p not in real_args and not p.startswith("ghost_")]
        if missing or extra:
            raise LookupError(f"anchor not found: signature changed (undeclared {missing}, unknown {extra})")
    objs = []
    for p, kind in params.items():
        if kind.startswith("fn("):
            v = eng.fresh_of_kind(kind, p, st)
            v.ghost = contract.get("fn_ghost", {}).get(p)
            v.log = p not in contract.get("fn_nolog", ())
            st.env[p] = v
            for j, k in enumerate(v.argk):
                st.ghost[f"calls_{p}_{j}"] = VSeq(fresh(f"calls_{p}_{j}", z3.ArraySort(INT, sort_of_kind(k))),
                                                 z3.IntVal(0), k)
        elif kind.startswith("obj:") and contract.get("constructor") and p == "self":
            st.env[p] = eng.new_obj(st, kind[4:], {})
        else:
            v = eng.fresh_of_kind(kind, p, st)
            if p in contract.get("borrowed", ()):
                v.borrowed = True
            st.env[p] = v
            if isinstance(v, VObj):
                objs.append(v)
            if isinstance(v, VTuple):
                objs.extend(x for x in v.items if isinstance(x, VObj))
    for o in objs:
        for inv in eng.class_invariant(st, o):
            st.assume(inv)
    eng.spec_mode += 1
    for g, init in contract.get("ghost", {}).items():
        st.ghost[g] = eng.eval(ast.parse(init, mode="eval").body, st)
    eng.spec_mode -= 1
    # spec function axioms
    for name, spec in contract.get("spec_funcs", {}).items():
        for ax in spec.get("axioms", []):
            eng.axioms.append(eng.eval_clause(ax, st, old=st))
    for r in contract.get("requires", []):
        st.assume(eng.eval_clause(r, st))
    return objs


def frame_equal(eng, st, a, b):
    if isinstance(a, VSeq) and isinstance(b, VSeq):
        return z3.And(a.ln == b.ln, a.arr == b.arr)
    return eng.equal(a, b, st)


def run_target(contract, registry, classes):
    res = TargetResult(contract["name"])
    res.target = contract["target"]
    t_start = time.time()
    try:
        ex = X.extract(contract["target"])
        res.source_sha = ex.sha
        res.lines = ex.lines
        fn = ex.node
        is_region = "region" in contract
        stmts = X.find_region(fn, contract["region"]) if is_region else fn.body
        # locals are named by ROLE in loop invariants / region clauses (`bind_locals`): resolved against the current source
        contract = X.resolve_local_names(contract, stmts)
        consts = X.class_constants(ex.cls_node)
        chain = contract.get("consts_from")
        if chain:
            # class constants resolved along the (declared) inheritance chain, read from the current source;
            # later entries override earlier ones (base class first, the concrete class last)
            import ast as _ast
            merged = {}
            for ref in ([chain] if isinstance(chain, str) else chain):
                rel, cls_name = ref.split("::")
                _, m2 = X.parse_file(rel)
                for node in m2.body:
                    if isinstance(node, _ast.ClassDef) and node.name == cls_name:
                        merged.update(X.class_constants(node))
                        break
                else:
                    raise LookupError(f"anchor not found: class {ref}")
            consts = {**consts, **merged} if isinstance(chain, str) else {**merged}
        contract = dict(contract)
        if ex.cls_node is not None:
            self_kind = contract["params"].get("self", "")
            own = self_kind[4:] if self_kind.startswith("obj:") else ex.cls_node.name
            contract.setdefault("self_class", own)
            if own in classes:
                classes = dict(classes)
                cm = dict(classes[own])
                cm["consts"] = {**cm.get("consts", {}), **consts}
                classes[own] = cm
        eng = Engine(contract, registry, classes, fn, consts)
        st = State()
        objs = build_entry(eng, contract, fn, st, is_region)
        entry = st.fork()
        # ---- vacuity guards
        # canary: `assert False` right after the preconditions must NOT be provable
        res.cover = str(smt.is_sat(eng.axioms + st.pc, 3000))
        if res.cover == "unsat":
            res.status = "error"
            res.detail = "requires + invariant are contradictory (canary `False` was discharged at entry)"
            return res
        exits = 0
        self_obj = st.env.get("self") if isinstance(st.env.get("self"), VObj) else None
        tracked = list(objs)
        if self_obj is not None and self_obj not in tracked:
            tracked.append(self_obj)
        raises = contract.get("raises", {})
        for s2, sig in eng.exec_block(stmts, st):
            exits += 1
            eng.cur_line = None
            if sig is None:
                sig = ("return", VNone())
            tag = f"exit{exits}"
            if sig[0] == "return":
                result = sig[1]
                for i, text in enumerate(contract.get("ensures", [])):
                    g = eng.eval_clause(text, s2, old=entry, result=result)
                    eng.oblige(s2, f"post#{i}@{tag}", "post", g)
                for exc, cond in raises.items():
                    g = z3.Not(eng.eval_clause(cond, entry))
                    eng.oblige(s2, f"raises#{exc}.must@{tag}", "raises", g)
                for o in tracked:
                    if o.ref in s2.heap:
                        env_name = [n for n, v in entry.env.items() if v is o]
                        for j, inv in enumerate(eng.classes[o.cls].get("invariant", [])):
                            g = eng.eval_clause(inv, s2, {"self": o})
                            eng.oblige(s2, f"inv.preserve#{j}:{o.cls}@{tag}", "inv", g)
                # frame
                mods = set(contract.get("modifies", []))
                for name, v in entry.env.items():
                    if isinstance(v, VObj) and not (contract.get("constructor") and name == "self"):
                        for f, old_v in entry.heap[v.ref].items():
                            if f"{name}.{f}" in mods:
                                continue
                            new_v = s2.heap[v.ref][f]
                            if new_v is old_v:
                                continue
                            eng.oblige(s2, f"frame:{name}.{f}@{tag}", "frame", frame_equal(eng, s2, old_v, new_v))
            elif sig[0] == "raise":
                exc = sig[1]
                if exc not in raises:
                    # a subclass of a contracted exception (class statements of the current source / builtin hierarchy) counts as that exception
                    anc = X.exception_ancestors(exc)
                    hit = [k for k in raises if k in anc]
                    if hit:
                        exc = hit[0]
                if exc in raises:
                    g = eng.eval_clause(raises[exc], entry)
                    eng.oblige(s2, f"raises#{exc}.only@{tag}", "raises", g)
                    for i, text in enumerate(contract.get("on_raise", [])):
                        g = eng.eval_clause(text, s2, old=entry)
                        eng.oblige(s2, f"raises#{exc}.state#{i}@{tag}", "raises", g)
                else:
                    eng.oblige(s2, f"no-exception:{exc}@{tag}", "no-exception", z3.BoolVal(False))
            else:
                raise Unsupported(f"signal {sig} at function level")
        if exits == 0:
            res.status = "error"
            res.detail = "no feasible path through the target"
            return res
        res.canary = "entry:" + res.cover
        for where, hyps in eng.canaries:
            r = str(smt.is_sat(hyps, 2000))
            res.canary += f" {where}:{r}"
            if r == "unsat":
                res.status = "error"
                res.detail = f"loop invariants/assumptions are contradictory at {where} (canary `False` was discharged)"
                return res
        # discharge
        n_bad = 0
        for ob in eng.obligations:
            # after two obligations of this target failed to discharge, the rest only get the fast stages (the target is
            # decided by replay / bounded fall-back anyway; keeps the run time of a check on a broken tree bounded)
            smt.discharge(ob, quick=n_bad >= 2)
            if ob.status != "discharged":
                n_bad += 1
            d = dict(name=ob.name, kind=ob.kind, status=ob.status, backend=ob.backend,
                     seconds=round(ob.seconds, 4), line=ob.lineno, path=ob.trace[-6:])
            if ob.status in ("refuted", "unknown") and ob.model is not None:
                if ob.status == "unknown":
                    d["model_kind"] = "candidate (not a counter-model of the full obligation): decided by native replay only"
                try:
                    d["model"] = {p: _model_value(ob.model, v) for p, v in entry.env.items()
                                  if isinstance(v, (VNum, VSeq, VStr, VTuple))}
                    for p, v in entry.env.items():
                        if isinstance(v, VObj):
                            d["model"][p] = {f: _model_value(ob.model, fv) for f, fv in entry.heap[v.ref].items()}
                except Exception as exn:       # model extraction is best-effort
                    d["model_error"] = repr(exn)
            if ob.status != "discharged":
                d["detail"] = ob.detail
                d["goal"] = str(z3.simplify(ob.goal))[:600]
            res.obligations.append(d)
        res.assumed = sorted(set(eng.assumed))
    except Unsupported as exn:
        res.status = "undecided"
        res.detail = f"outside the verified subset: {exn}"
    except LookupError as exn:
        res.status = "undecided"
        res.detail = str(exn)
    except Exception as exn:
        res.status = "error"
        res.detail = "".join(traceback.format_exception(exn))[-1500:]
    finally:
        res.seconds = round(time.time() - t_start, 3)
    return res
