"""Native (CPython) evaluation of the SAME contract clauses on the REAL functions of the repository.

Used for (i) replaying solver counter-models, (ii) the engine cross-check, (iii) the bounded fall-back when
a target is outside the verified subset.  Nothing here is ever counted as proved.
"""
import ast
import copy
import importlib
import math
import os
import sys
from fractions import Fraction

import numpy as np

from . import extract as X


def repo_import(relpath):
    root = X.repo_root()
    if sys.path[0] != root:
        sys.path.insert(0, root)
    mod = relpath[:-3].replace("/", ".")
    m = importlib.import_module(mod)
    f = os.path.realpath(m.__file__)
    if not f.startswith(os.path.realpath(root)):
        raise RuntimeError(f"{mod} imported from {f}, not from {root}")
    return m


def real_function(target):
    relpath, qual = target.split("::")
    qual = qual.split("@")[0]
    m = repo_import(relpath)
    obj = m
    for p in qual.split("."):
        obj = getattr(obj, p)
    return obj, m


def region_function(contract):
    """The statements of a region target, taken from the CURRENT source, wrapped as
    `def __region__(<live-ins>): <the statements, verbatim>; return locals()` and compiled in the namespace of the real
    module (so `np`, helpers and constants resolve as they do in the repository)."""
    from pyvc import extract as X
    ex = X.extract(contract["target"])
    stmts = X.find_region(ex.node, contract["region"])
    params = [p for p in contract["params"] if not p.startswith("ghost_")]
    # local helper functions of the enclosing function that are defined outside the region (closures over the live-ins)
    in_region = {id(n) for st_ in stmts for n in ast.walk(st_)}
    helpers = [n for n in ast.walk(ex.node) if isinstance(n, ast.FunctionDef) and n is not ex.node and id(n) not in in_region]
    fn = ast.FunctionDef(
        name="__region__",
        args=ast.arguments(posonlyargs=[], args=[ast.arg(arg=p) for p in params], kwonlyargs=[], kw_defaults=[], defaults=[]),
        body=helpers + list(stmts) + [ast.Return(value=ast.Call(func=ast.Name(id="locals", ctx=ast.Load()), args=[], keywords=[]))],
        decorator_list=[], type_params=[])
    mod = ast.Module(body=[fn], type_ignores=[])
    ast.fix_missing_locations(mod)
    relpath = contract["target"].split("::")[0]
    m = repo_import(relpath)
    ns = dict(vars(m))
    exec(compile(mod, f"<region of {contract['target']}>", "exec"), ns)
    return ns["__region__"]


_NUM = (int, float, np.integer, np.floating)


def _eq(a, b, tol=1e-9):
    if a is b:
        return True
    if isinstance(a, _NUM) and isinstance(b, _NUM) and not isinstance(a, bool) and not isinstance(b, bool):
        return a == b or abs(a - b) <= tol * (1.0 + abs(b))
    if a is None or b is None:
        return a is None and b is None
    if isinstance(a, str) or isinstance(b, str):
        return isinstance(a, str) and isinstance(b, str) and a == b
    if isinstance(a, (list, tuple)) and isinstance(b, (list, tuple)):
        return len(a) == len(b) and all(_eq(x, y, tol) for x, y in zip(a, b))
    try:
        aa, bb = np.asarray(a), np.asarray(b)
        if aa.dtype == object or bb.dtype == object:
            return bool(np.all(aa == bb))
        if aa.shape != bb.shape:
            try:
                np.broadcast_shapes(aa.shape, bb.shape)
            except ValueError:
                return False
        if np.array_equal(aa, bb, equal_nan=(aa.dtype.kind in 'fc' and bb.dtype.kind in 'fc')):
            return True
        if tol == 0 or (aa.dtype.kind in "iub" and bb.dtype.kind in "iub"):
            return False
        return bool(np.allclose(aa, bb, rtol=tol, atol=tol, equal_nan=True))
    except Exception:
        return a == b


class _Tx(ast.NodeTransformer):
    def __init__(self, old_names):
        self.old_names = old_names

    def visit_Call(self, node):
        self.generic_visit(node)
        if isinstance(node.func, ast.Name):
            if node.func.id == "old":
                lam = ast.Lambda(
                    args=ast.arguments(posonlyargs=[], args=[ast.arg(arg=n) for n in self.old_names], kwonlyargs=[],
                                       kw_defaults=[], defaults=[]),
                    body=node.args[0])
                return ast.Call(func=lam, args=[ast.Subscript(value=ast.Name(id="__old__", ctx=ast.Load()),
                                                               slice=ast.Constant(n), ctx=ast.Load())
                                                for n in self.old_names], keywords=[])
            if node.func.id == "implies":
                return ast.BoolOp(op=ast.Or(), values=[ast.UnaryOp(op=ast.Not(), operand=node.args[0]), node.args[1]])
            if node.func.id == "forall":
                lam = node.args[2]        # an optional 4th argument (SMT trigger) is ignored natively
                k = lam.args.args[0].arg
                gen = ast.GeneratorExp(elt=lam.body, generators=[ast.comprehension(
                    target=ast.Name(id=k, ctx=ast.Store()),
                    iter=ast.Call(func=ast.Name(id="range", ctx=ast.Load()), args=[node.args[0], node.args[1]], keywords=[]),
                    ifs=[], is_async=0)])
                return ast.Call(func=ast.Name(id="all", ctx=ast.Load()), args=[gen], keywords=[])
            if node.func.id == "exists":
                lam = node.args[2]
                k = lam.args.args[0].arg
                gen = ast.GeneratorExp(elt=lam.body, generators=[ast.comprehension(
                    target=ast.Name(id=k, ctx=ast.Store()),
                    iter=ast.Call(func=ast.Name(id="range", ctx=ast.Load()), args=[node.args[0], node.args[1]], keywords=[]),
                    ifs=[], is_async=0)])
                return ast.Call(func=ast.Name(id="any", ctx=ast.Load()), args=[gen], keywords=[])
        return node

    def visit_Compare(self, node):
        self.generic_visit(node)
        if len(node.ops) == 1 and isinstance(node.ops[0], (ast.Eq, ast.NotEq)):
            call = ast.Call(func=ast.Name(id="__eq__", ctx=ast.Load()), args=[node.left, node.comparators[0]], keywords=[])
            if isinstance(node.ops[0], ast.NotEq):
                return ast.UnaryOp(op=ast.Not(), operand=call)
            return call
        return node


_cache = {}


def compile_clause(text, old_names):
    key = (text, tuple(old_names))
    if key not in _cache:
        tree = ast.parse(text.strip(), mode="eval")
        tree = _Tx(list(old_names)).visit(tree)
        ast.fix_missing_locations(tree)
        _cache[key] = compile(tree, f"<clause {text[:40]}>", "eval")
    return _cache[key]


def eval_clause(text, env, old_env=None, extra=None):
    names = list(old_env.keys()) if old_env else []
    code = compile_clause(text, names)
    g = {"__eq__": _eq, "__old__": old_env or {}, "np": np, "math": math, "len": len, "max": max, "min": min,
         "abs": abs, "int": int, "float": float, "round": round, "isinstance": isinstance, "range": range,
         "all": all, "any": any, "sum": sum, "tuple": tuple, "list": list, "sorted": sorted, "set": set,
         "str": str, "bool": bool, "zip": zip, "enumerate": enumerate, "type": type, "dict": dict}
    if extra:
        g.update(extra)
    g.update(env)
    return bool(eval(code, g))


def native_defs(contract):
    ns = {"np": np, "math": math}
    for text in contract.get("defs", []):
        exec(text, ns)
    for k, v in contract.get("native_specs", {}).items():
        ns[k] = v
    return ns


def snapshot(v):
    try:
        return copy.deepcopy(v)
    except Exception:
        return v


def check_call(contract, classes, args, fn=None, extra=None, label=""):
    """Run the real function on concrete `args` (dict param -> value) and evaluate the contract natively.
    Returns (status, failures): status in {'skipped' (requires false), 'ok', 'violated'}."""
    is_region = "region" in contract
    if is_region and contract.get("bind_locals") and "resolved_locals" not in contract:
        from pyvc import extract as _X
        _ex = _X.extract(contract["target"])
        contract = _X.resolve_local_names(contract, _X.find_region(_ex.node, contract["region"]))
    if fn is None:
        fn = region_function(contract) if is_region else real_function(contract["target"])[0]
    defs = native_defs(contract)
    if extra:
        defs.update(extra)
    env = dict(args)
    for k_, factory in contract.get("native_spec_factories", {}).items():
        defs[k_] = factory(env)
    for g_, init in contract.get("ghost", {}).items():
        env[g_] = eval(init, dict(defs), dict(env))
    ctor = contract.get("constructor")
    for r in contract.get("requires", []):
        try:
            if not eval_clause(r, env, None, defs):
                return "skipped", []
        except Exception:
            return "skipped", []
    self_obj = env.get("self")
    # class invariant on entry (objects handed in must be valid)
    if self_obj is not None and not ctor:
        cls = type(self_obj).__name__
        for inv in (classes.get(cls, {}).get("invariant_native") or classes.get(cls, {}).get("invariant", [])):
            try:
                if not eval_clause(inv, {"self": self_obj}, None, defs):
                    return "skipped", []
            except Exception:
                return "skipped", []
    old_env = {k: snapshot(v) for k, v in env.items()}
    raises = contract.get("raises", {})
    must = {}
    for exc, cond in raises.items():
        must[exc] = eval_clause(cond, env, None, defs)
    failures = []
    call_args = [env[p] for p in contract["params"] if not p.startswith("ghost_")]
    if contract.get("native_result_only"):
        pass
    exc_name, result = None, None
    try:
        result = fn(*call_args)
    except NameError as exn:
        if is_region:
            return "skipped", []      # the region reads a live-in the contract does not know (source restructured): undecided, not a failure
        exc_name = type(exn).__name__
        exc_obj = exn
    except Exception as exn:      # the contract decides whether this was allowed
        exc_name = type(exn).__name__
        exc_obj = exn
    env_after = dict(env)
    if is_region and isinstance(result, dict):
        env_after.update(result)          # the region's locals after its last statement
    env_after["result"] = result
    if exc_name is None:
        for exc, m in must.items():
            if m:
                failures.append(f"raises#{exc}.must: condition held but the call returned normally")
        for i, text in enumerate(contract.get("ensures", [])):
            try:
                ok = eval_clause(text, env_after, old_env, defs)
            except NameError as exn:
                if is_region:
                    return "skipped", []      # the clause names a local the restructured source no longer has: undecided, not a failure
                ok = False
                text = f"{text}  [evaluation raised {type(exn).__name__}: {exn}]"
            except Exception as exn:
                ok = False
                text = f"{text}  [evaluation raised {type(exn).__name__}: {exn}]"
            if not ok:
                failures.append(f"post#{i}: {text}")
        if self_obj is not None:
            cls = type(self_obj).__name__
            for j, inv in enumerate((classes.get(cls, {}).get("invariant_native") or classes.get(cls, {}).get("invariant", []))):
                try:
                    ok = eval_clause(inv, {"self": self_obj}, None, defs)
                except Exception as exn:
                    ok = False
                if not ok:
                    failures.append(f"inv.preserve#{j}: {inv}")
            # frame: declared fields outside `modifies` must be unchanged
            mods = set(contract.get("modifies", []))
            if not ctor:
                for f in classes.get(cls, {}).get("fields", {}):
                    if f"self.{f}" in mods:
                        continue
                    if not _eq(getattr(self_obj, f), getattr(old_env["self"], f), 0):
                        failures.append(f"frame:self.{f} changed")
    else:
        if exc_name not in raises:
            # a subclass of a contracted exception counts as that exception
            for k_ in raises:
                if any(b.__name__ == k_ for b in type(exc_obj).__mro__):
                    exc_name = k_
                    break
        if exc_name in raises:
            if not must[exc_name]:
                failures.append(f"raises#{exc_name}.only: raised although the condition did not hold")
            for i, text in enumerate(contract.get("on_raise", [])):
                try:
                    ok = eval_clause(text, env_after, old_env, defs)
                except Exception as exn:
                    ok = False
                if not ok:
                    failures.append(f"raises#{exc_name}.state#{i}: {text}")
        else:
            failures.append(f"no-exception:{exc_name}: {exc_obj}")
    return ("violated" if failures else "ok"), failures


# ------------------------------------------------------------------ model -> concrete values
def frac(v):
    if isinstance(v, dict) and "frac" in v:
        return v["frac"][0] / v["frac"][1]
    if isinstance(v, dict) and "approx" in v:
        return float(v["approx"].rstrip("?"))
    return v


def row_of(x, shape=(2,)):
    """Concretise the representative Real component of a 'row' as a small vector."""
    x = float(frac(x))
    return np.array([x, -x if len(shape) else x][: max(1, shape[0] if shape else 1)], dtype=float).reshape(shape) \
        if shape else np.float64(x)


def concretize(contract, classes, model, mod=None):
    """Turn a solver counter-model (as written by verify._model_value) into concrete Python arguments of the
    real function.  Returns None when a parameter kind has no generic concretisation."""
    if mod is None:
        _, mod = real_function(contract["target"].split("::")[0] + "::" + contract["target"].split("::")[1].split(".")[0])
    out = {}
    for p, kind in contract["params"].items():
        v = model.get(p)
        if kind == "int":
            out[p] = int(v)
        elif kind == "bool":
            out[p] = bool(v)
        elif kind == "real":
            out[p] = float(frac(v))
        elif kind == "row":
            out[p] = row_of(v)
        elif kind == "str":
            out[p] = str(v)
        elif kind == "none":
            out[p] = None
        elif kind.startswith("seq["):
            ek = kind[4:-1]
            n = int(v["len"])
            if n > 4096:
                return None
            items = list(v["items"]) + [v["items"][-1] if v["items"] else 0] * max(0, n - len(v["items"]))
            items = items[:n]
            out[p] = [int(x) if ek == "int" else float(frac(x)) if ek in ("real",) else row_of(x) if ek == "row" else x
                      for x in items]
        elif kind.startswith("tuple("):
            ks = [k.strip() for k in kind[6:-1].split(",") if k.strip()]
            if not all(k in ("int", "real", "bool") for k in ks):
                return None
            out[p] = tuple(int(x) if k == "int" else float(frac(x)) if k == "real" else bool(x) for k, x in zip(ks, v))
        elif kind.startswith("obj:"):
            cls = getattr(mod, kind[4:], None)
            if cls is None:
                return None
            o = object.__new__(cls)
            fields = classes.get(kind[4:], {}).get("fields", {})
            for f, fk in fields.items():
                fv = v.get(f) if isinstance(v, dict) else None
                if fk == "int":
                    setattr(o, f, int(fv))
                elif fk == "bool":
                    setattr(o, f, bool(fv))
                elif fk == "real":
                    setattr(o, f, float(frac(fv)))
                elif fk == "seq[real]":
                    n = int(fv["len"])
                    if n > 4096:
                        return None
                    it = [float(frac(x)) for x in fv["items"]]
                    setattr(o, f, (it + [it[-1] if it else 0.0] * n)[:n])
                elif fk == "seq[row]":
                    n = int(fv["len"])
                    if n > 4096:
                        return None
                    it = [row_of(x) for x in fv["items"]]
                    arr = np.zeros((n, 2))
                    for i_, r_ in enumerate(it[:n]):
                        arr[i_] = r_
                    setattr(o, f, arr)
                else:
                    return None
            out[p] = o
        else:
            return None
    return out


def replay_model(contract, classes, model):
    """Replay a counter-model on the real function; returns the list of natively failing clauses (empty: the model
    does not reproduce)."""
    args = concretize(contract, classes, model)
    if args is None:
        return []
    status, fails = check_call(contract, classes, args)
    return fails if status == "violated" else []
