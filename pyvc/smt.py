"""Solver portfolio: z3 5.x (Python API) -> /usr/bin/cvc5 -> /usr/bin/z3 4.8.12 on the SMT-LIB2 dump.

`unsat` from any back end = discharged; `sat` from any = refuted (model kept when z3 produced it);
otherwise unknown.  Timeouts/unknown are never mapped to a violation.
"""
import os
import subprocess
import tempfile
import time

import z3

Z3_TIMEOUT_MS = int(os.environ.get("PYVC_Z3_TIMEOUT_MS", "20000"))
CLI_TIMEOUT_S = int(os.environ.get("PYVC_CLI_TIMEOUT_S", "20"))


def _smt2(hyps, neg_goal):
    s = z3.Solver()
    s.add(*hyps)
    s.add(neg_goal)
    return s.to_smt2()


def _run_cli(cmd, text, timeout):
    with tempfile.NamedTemporaryFile("w", suffix=".smt2", delete=False) as fh:
        fh.write(text)
        path = fh.name
    try:
        t0 = time.time()
        p = subprocess.run(cmd + [path], capture_output=True, text=True, timeout=timeout + 5)
        out = (p.stdout or "").strip().splitlines()
        ans = out[0].strip() if out else "unknown"
        return ans, time.time() - t0
    except subprocess.TimeoutExpired:
        return "unknown", timeout
    finally:
        os.unlink(path)


def _walk(t, seen):
    if t.get_id() in seen:
        return
    seen.add(t.get_id())
    yield t
    if z3.is_quantifier(t):
        yield from _walk(t.body(), seen)
    else:
        for c in t.children():
            yield from _walk(c, seen)


def symbols(t):
    out = set()
    for x in _walk(t, set()):
        if z3.is_app(x) and x.decl().kind() == z3.Z3_OP_UNINTERPRETED:
            out.add(x.decl().name())
    return out


def has_quantifier(t):
    return any(z3.is_quantifier(x) for x in _walk(t, set()))


def _try(hyps, neg, timeout_ms):
    s = z3.Solver()
    s.set("timeout", timeout_ms)
    s.add(*hyps)
    s.add(neg)
    r = s.check()
    return r, s


def nested_quantifier(t):
    for x in _walk(t, set()):
        if z3.is_quantifier(x) and any(z3.is_quantifier(y) for y in _walk(x.body(), set())):
            return True
    return False


def relevant_subsets(hyps, goal):
    """Sound weakenings of the hypothesis set (proving from fewer hypotheses proves the obligation)."""
    gs = symbols(goal)
    hs = [(h, symbols(h), has_quantifier(h)) for h in hyps]
    flat = [h for h in hyps if not nested_quantifier(h)]
    if len(flat) < len(hyps):
        yield "no-nested-quantifiers", flat
        gs_ = symbols(goal)
        yield "no-nested+direct", [h for h in flat if symbols(h) & gs_]
    # cone of influence, quantified hypotheses do not extend the cone
    cone = set(gs)
    for _ in range(3):
        for h, sy, q in hs:
            if not q and sy & cone:
                cone |= sy
    yield "cone", [h for h, sy, q in hs if sy & cone]
    yield "cone-qf-only", [h for h, sy, q in hs if not q and sy & cone]
    direct = [h for h, sy, q in hs if sy & gs]
    yield "direct", direct
    yield "qf-only", [h for h, sy, q in hs if not q]


def discharge(ob, portfolio=True, quick=False):
    """Decide one obligation.  Sets status/backend/seconds/model.
    quick=True (used once another obligation of the same target has already been refuted): only the fast stages."""
    neg = z3.Not(ob.goal)
    t0 = time.time()
    zv = f"z3-{z3.get_version_string()}"
    r, s = _try(ob.hyps, neg, min(2500, Z3_TIMEOUT_MS))
    ob.backend = zv
    if r == z3.unsat:
        ob.status, ob.seconds = "discharged", time.time() - t0
        return ob
    if r == z3.sat:
        ob.status, ob.model, ob.seconds = "refuted", s.model(), time.time() - t0
        return ob
    # sound weakenings: subsets of the hypotheses (unsat from a subset is unsat from the whole set;
    # sat from a subset means nothing and is ignored)
    for label, sub in relevant_subsets(ob.hyps, ob.goal):
        if len(sub) == len(ob.hyps):
            continue
        r2, _ = _try(sub, neg, 3000 if quick else 10000)
        if r2 == z3.unsat:
            ob.status, ob.seconds, ob.backend = "discharged", time.time() - t0, f"{zv}[{label}]"
            return ob
    if quick:
        ob.status, ob.seconds = "unknown", time.time() - t0
        ob.detail = "fast stages only (another obligation of this target was already refuted)"
        return ob
    text = None
    if portfolio:
        text = _smt2(ob.hyps, neg)
        uses_strings = "String" in text
        cvc5 = ["/usr/bin/cvc5", f"--tlimit={CLI_TIMEOUT_S * 1000}"]
        if uses_strings:
            cvc5.append("--strings-exp")
        ans, secs = _run_cli(cvc5, "(set-logic ALL)\n" + text, CLI_TIMEOUT_S)
        if ans == "unsat":
            ob.status, ob.backend, ob.seconds = "discharged", "cvc5-1.0.3", time.time() - t0
            return ob
        if ans == "sat":
            ob.status, ob.backend, ob.seconds = "refuted", "cvc5-1.0.3", time.time() - t0
            return ob
    r, s = _try(ob.hyps, neg, Z3_TIMEOUT_MS)
    ob.seconds = time.time() - t0
    if r == z3.unsat:
        ob.status = "discharged"
        return ob
    if r == z3.sat:
        ob.status, ob.model = "refuted", s.model()
        return ob
    ob.detail = f"z3: {s.reason_unknown()}"
    if portfolio:
        ans, secs = _run_cli(["/usr/bin/z3", f"-T:{CLI_TIMEOUT_S}"], text, CLI_TIMEOUT_S)
        ob.seconds += secs
        if ans == "unsat":
            ob.status, ob.backend = "discharged", "z3-4.8.12"
            return ob
        if ans == "sat":
            ob.status, ob.backend = "refuted", "z3-4.8.12"
            return ob
    # last resort, REFUTATION ONLY: ground the variables that make the problem non-linear (divisors, factors of products).
    # Adding equalities only restricts the models, so `sat` is a genuine counter-model of the original obligation.
    spec = _specialise(ob.hyps, neg)
    if spec is not None:
        ob.status, ob.model, ob.backend = "refuted", spec[0], f"{zv}[grounded:{spec[1]}]"
        ob.seconds = time.time() - t0
        return ob
    # CANDIDATE only (never a verdict): the same grounding over the quantifier-free hypotheses.  A model of a SUBSET of the
    # hypotheses proves nothing; it is handed to the native replay, which decides on the real code.
    cand = _specialise([h for h in ob.hyps if not has_quantifier(h)], neg, budget_s=15)
    ob.status = "unknown"
    if cand is not None:
        ob.model = cand[0]
        ob.detail = (ob.detail or "") + f" | candidate model from the quantifier-free hypotheses grounded at {cand[1]} (to be confirmed natively)"
    ob.seconds = time.time() - t0
    return ob


def _nonlinear_consts(formulas, limit=4):
    out, seen = [], set()

    def is_const(x):
        return z3.is_app(x) and x.num_args() == 0 and x.decl().kind() == z3.Z3_OP_UNINTERPRETED and (z3.is_real(x) or z3.is_int(x))

    def add(x):
        if is_const(x) and x.get_id() not in {y.get_id() for y in out}:
            out.append(x)
    for f in formulas:
        for x in _walk(f, seen):
            if not z3.is_app(x):
                continue
            k = x.decl().kind()
            if k in (z3.Z3_OP_DIV, z3.Z3_OP_IDIV, z3.Z3_OP_MOD) and x.num_args() == 2:
                add(x.arg(1))
            elif k == z3.Z3_OP_MUL:
                nn = [c for c in x.children() if not z3.is_rational_value(c) and not z3.is_int_value(c)]
                if len(nn) >= 2:
                    for c in nn:
                        add(c)
    return out[:limit]


def _specialise(hyps, neg, per_try_ms=3000, budget_s=25):
    import itertools
    qf = [h for h in hyps if not has_quantifier(h)]
    cs = _nonlinear_consts(qf + [neg])
    if os.environ.get("PYVC_DEBUG"):
        print("specialise consts", cs, flush=True)
    if not cs:
        return None
    t0 = time.time()
    grid = [1, 2, 3, z3.Q(1, 2), z3.Q(1, 10)]
    combos = sorted(itertools.product(range(len(grid)), repeat=len(cs)), key=lambda c: (sum(c), c))
    for combo in combos:
        if time.time() - t0 > budget_s:
            break
        eqs = []
        for c, gi in zip(cs, combo):
            v = grid[gi]
            if z3.is_int(c) and not isinstance(v, int):
                break
            eqs.append(c == v)
        else:
            r, s = _try(list(hyps) + eqs, neg, per_try_ms)
            if os.environ.get("PYVC_DEBUG"):
                print("specialise", eqs, r, flush=True)
            if r == z3.sat:
                return s.model(), ",".join(f"{c}={grid[gi]}" for c, gi in zip(cs, combo))
    return None


def is_sat(hyps, timeout_ms=5000):
    s = z3.Solver()
    s.set("timeout", timeout_ms)
    s.add(*hyps)
    return s.check()
