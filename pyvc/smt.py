"""Solver portfolio: z3 5.x (Python API) -> /usr/bin/cvc5 -> /usr/bin/z3 4.8.12 on the SMT-LIB2 dump.

`unsat` from any back end = discharged; `sat` from any = refuted (model kept when z3 produced it);
otherwise unknown.  Timeouts/unknown are never mapped to a violation.
"""
import os
import subprocess
import tempfile
import time

import z3

Z3_TIMEOUT_MS = int(os.environ.get("PYVC_Z3_TIMEOUT_MS", "20000"))
CLI_TIMEOUT_S = int(os.environ.get("PYVC_CLI_TIMEOUT_S", "20"))


def _smt2(hyps, neg_goal):
    s = z3.Solver()
    s.add(*hyps)
    s.add(neg_goal)
    return s.to_smt2()


def _run_cli(cmd, text, timeout):
    with tempfile.NamedTemporaryFile("w", suffix=".smt2", delete=False) as fh:
        fh.write(text)
        path = fh.name
    try:
        t0 = time.time()
        p = subprocess.run(cmd + [path], capture_output=True, text=True, timeout=timeout + 5)
        out = (p.stdout or "").strip().splitlines()
        ans = out[0].strip() if out else "unknown"
        return ans, time.time() - t0
    except subprocess.TimeoutExpired:
        return "unknown", timeout
    finally:
        os.unlink(path)


def discharge(ob, portfolio=True):
    """Decide one obligation.  Sets status/backend/seconds/model."""
    neg = z3.Not(ob.goal)
    t0 = time.time()
    s = z3.Solver()
    s.set("timeout", Z3_TIMEOUT_MS)
    s.add(*ob.hyps)
    s.add(neg)
    r = s.check()
    ob.seconds = time.time() - t0
    ob.backend = f"z3-{z3.get_version_string()}"
    if r == z3.unsat:
        ob.status = "discharged"
        return ob
    if r == z3.sat:
        ob.status = "refuted"
        ob.model = s.model()
        return ob
    ob.detail = f"z3: {s.reason_unknown()}"
    if portfolio:
        text = _smt2(ob.hyps, neg)
        uses_strings = "String" in text
        cvc5 = ["/usr/bin/cvc5", f"--tlimit={CLI_TIMEOUT_S * 1000}"]
        if uses_strings:
            cvc5.append("--strings-exp")
        ans, secs = _run_cli(cvc5, text.replace("(check-sat)", "(set-logic ALL)\n(check-sat)") if False else
                             "(set-logic ALL)\n" + text, CLI_TIMEOUT_S)
        ob.seconds += secs
        if ans == "unsat":
            ob.status, ob.backend = "discharged", "cvc5-1.0.3"
            return ob
        if ans == "sat":
            ob.status, ob.backend = "refuted", "cvc5-1.0.3"
            return ob
        ans, secs = _run_cli(["/usr/bin/z3", f"-T:{CLI_TIMEOUT_S}"], text, CLI_TIMEOUT_S)
        ob.seconds += secs
        if ans == "unsat":
            ob.status, ob.backend = "discharged", "z3-4.8.12"
            return ob
        if ans == "sat":
            ob.status, ob.backend = "refuted", "z3-4.8.12"
            return ob
    ob.status = "unknown"
    return ob


def is_sat(hyps, timeout_ms=5000):
    s = z3.Solver()
    s.set("timeout", timeout_ms)
    s.add(*hyps)
    return s.check()
