"""Mechanical extraction of verification targets from the *current* source text of the repository.

Nothing is cached between runs: every call re-reads and re-parses the file under $VERIF_REPO.

A target is  "<relative file>::<qualname>"            (function / method), or
             "<relative file>::<qualname>@<region>"   (contiguous statement range inside it; the region
                                                       is located by a structural anchor given in the contract).

What extraction drops (also written into every evidence file):
  * docstrings, comments, type annotations, decorators other than @staticmethod/@classmethod/@property
  * calls to print(...) used as statements
  * for regions: every statement outside the region (live-in variables become parameters, constrained only
    by the region's `requires`).
"""
import ast
import hashlib
import os

DROPS = [
    "docstrings, comments, type annotations",
    "decorators other than @staticmethod/@classmethod/@property",
    "print(...) expression statements",
    "for region targets: all statements outside the anchored region (live-ins are havocked subject to the region's requires)",
]


def repo_root():
    return os.environ.get("VERIF_REPO", "/repo")


class Extracted:
    def __init__(self, file, qualname, node, cls_node, source, lines, is_static, module):
        self.file = file
        self.qualname = qualname
        self.node = node            # ast.FunctionDef
        self.cls_node = cls_node    # enclosing ast.ClassDef or None
        self.source = source        # source segment of the function
        self.lines = lines          # (first, last)
        self.is_static = is_static
        self.module = module        # ast.Module

    @property
    def sha(self):
        return hashlib.sha256(self.source.encode()).hexdigest()[:16]


def _strip(fn: ast.FunctionDef):
    """Drop docstring and print statements (in place on a fresh tree)."""
    class T(ast.NodeTransformer):
        def visit_Expr(self, node):
            v = node.value
            if isinstance(v, ast.Constant) and isinstance(v.value, str):
                return None
            if isinstance(v, ast.Call) and isinstance(v.func, ast.Name) and v.func.id == "print":
                return None
            return node

        def generic_visit(self, node):
            super().generic_visit(node)
            for f in ("body", "orelse", "finalbody"):
                b = getattr(node, f, None)
                if isinstance(b, list) and not b and f == "body":
                    setattr(node, f, [ast.Pass()])
            return node
    return T().visit(fn)


def parse_file(relpath):
    path = os.path.join(repo_root(), relpath)
    with open(path, "r") as fh:
        text = fh.read()
    return text, ast.parse(text)


def extract(target: str) -> Extracted:
    relpath, qual = target.split("::")
    qual = qual.split("@")[0]
    text, mod = parse_file(relpath)
    parts = qual.split(".")
    cls_node = None
    scope = mod.body
    node = None
    for i, p in enumerate(parts):
        found = None
        for st in scope:
            if isinstance(st, (ast.FunctionDef, ast.ClassDef)) and st.name == p:
                found = st
        if found is None:
            raise LookupError(f"anchor not found: {target} (component {p})")
        if isinstance(found, ast.ClassDef):
            cls_node = found
            scope = found.body
        else:
            node = found
            scope = found.body
    if node is None:
        raise LookupError(f"anchor not found: {target}")
    src = ast.get_source_segment(text, node)
    is_static = any(isinstance(d, ast.Name) and d.id == "staticmethod" for d in node.decorator_list)
    node = _strip(node)
    return Extracted(relpath, qual, node, cls_node, src, (node.lineno, node.end_lineno), is_static, mod)


def class_constants(cls_node: ast.ClassDef):
    """Simple class-level constant assignments, read from the real source."""
    out = {}
    if cls_node is None:
        return out
    for st in cls_node.body:
        tgt = val = None
        if isinstance(st, ast.Assign) and len(st.targets) == 1 and isinstance(st.targets[0], ast.Name):
            tgt, val = st.targets[0].id, st.value
        elif isinstance(st, ast.AnnAssign) and isinstance(st.target, ast.Name) and st.value is not None:
            tgt, val = st.target.id, st.value
        if tgt is None:
            continue
        try:
            out[tgt] = ast.literal_eval(val)
        except Exception:
            pass
    return out


def module_string_constant(relpath, name):
    """Value of a module-level string constant (e.g. a Python source string in torch_funcs)."""
    text, mod = parse_file(relpath)
    for st in mod.body:
        if isinstance(st, ast.Assign) and len(st.targets) == 1 and isinstance(st.targets[0], ast.Name) \
                and st.targets[0].id == name:
            return ast.literal_eval(st.value)
    raise LookupError(f"anchor not found: {relpath}::{name}")


def find_region(fn: ast.FunctionDef, anchor):
    """Locate a contiguous statement list inside `fn`.

    anchor = dict(kind='for'|'while'|'if'|'assign'|'with', match=<substring of ast.unparse of the header>,
                  nth=0, upto=<optional: substring in the first statement AFTER the region, exclusive>,
                  count=<optional number of statements>, body_only=False)
    Returns the list of statements.
    """
    kind = anchor.get("kind")
    match = anchor["match"]
    nth = anchor.get("nth", 0)
    hits = []

    def header(st):
        if isinstance(st, ast.For):
            return "for " + ast.unparse(st.target) + " in " + ast.unparse(st.iter)
        if isinstance(st, ast.While):
            return "while " + ast.unparse(st.test)
        if isinstance(st, ast.If):
            return "if " + ast.unparse(st.test)
        return ast.unparse(st).split("\n")[0]

    def walk(body):
        for i, st in enumerate(body):
            ok = True
            if kind == "for":
                ok = isinstance(st, ast.For)
            elif kind == "while":
                ok = isinstance(st, ast.While)
            elif kind == "if":
                ok = isinstance(st, ast.If)
            elif kind == "assign":
                ok = isinstance(st, (ast.Assign, ast.AugAssign, ast.AnnAssign))
            if ok and match in header(st):
                hits.append((body, i))
            for f in ("body", "orelse", "finalbody"):
                b = getattr(st, f, None)
                if isinstance(b, list):
                    walk(b)
            if isinstance(st, ast.Try):
                for h in st.handlers:
                    walk(h.body)
    walk(fn.body)
    if len(hits) <= nth:
        raise LookupError(f"anchor not found: region {anchor!r} in {fn.name}")
    body, i = hits[nth]
    if anchor.get("body_only"):
        return list(body[i].body)
    before = anchor.get("before", 0)
    start = i - before
    if "upto" in anchor:
        j = i + 1
        while j < len(body) and anchor["upto"] not in header(body[j]):
            j += 1
        return list(body[start:j])
    count = anchor.get("count", 1)
    return list(body[start:i + count])


def _assigned_name(st, position=0):
    """The local a region statement assigns: Assign / AnnAssign / AugAssign -> the target name (for a tuple target the
    `position`-th element); If -> the one name assigned in every branch (position-th of the sorted common names)."""
    if isinstance(st, ast.Assign) and len(st.targets) == 1:
        t = st.targets[0]
        if isinstance(t, ast.Name) and position == 0:
            return t.id
        if isinstance(t, (ast.Tuple, ast.List)) and position < len(t.elts) and isinstance(t.elts[position], ast.Name):
            return t.elts[position].id
    if isinstance(st, (ast.AnnAssign, ast.AugAssign)) and isinstance(st.target, ast.Name) and position == 0:
        return st.target.id
    if isinstance(st, ast.If):
        def names(body):
            out = set()
            for b in body:
                for n in ast.walk(b):
                    if isinstance(n, ast.Assign):
                        for t in n.targets:
                            if isinstance(t, ast.Name):
                                out.add(t.id)
            return out
        branches = []
        cur = st
        while True:
            branches.append(names(cur.body))
            if len(cur.orelse) == 1 and isinstance(cur.orelse[0], ast.If):
                cur = cur.orelse[0]
                continue
            branches.append(names(cur.orelse))
            break
        common = sorted(set.intersection(*branches)) if branches else []
        if position < len(common):
            return common[position]
    raise LookupError(f"anchor not found: no assigned local at position {position} of `{ast.unparse(st).splitlines()[0][:60]}`")


def resolve_local_names(contract, stmts):
    """Contracts of code regions talk about locals by ROLE (`bind_locals`: role name -> (statement index in the region, position)), not
    by the name the source happens to use: the clauses are rewritten to the actual names found in the current source."""
    binds = contract.get("bind_locals")
    if not binds:
        return contract
    actual = {}
    for role, (k, pos) in binds.items():
        st = stmts[k]
        if isinstance(st, ast.For) and pos == "target":
            raise LookupError("anchor not found: loop targets are not bound by role")
        actual[role] = _assigned_name(st, pos)
    if all(a == r for r, a in actual.items()):
        return contract

    class R(ast.NodeTransformer):
        def visit_Name(self, node):
            if node.id in actual:
                return ast.copy_location(ast.Name(id=actual[node.id], ctx=node.ctx), node)
            return node

    def rw(text):
        return ast.unparse(R().visit(ast.parse(text.strip(), mode="eval")))
    c = dict(contract)
    for key in ("requires", "ensures"):
        if key in c:
            c[key] = [rw(t) for t in c[key]]
    def rw_stmt(text):
        return ast.unparse(R().visit(ast.parse(text)))
    if "loops" in c:
        new_loops = {}
        for k, v in c["loops"].items():
            v = dict(v, **{kk: [rw(t) for t in v[kk]] for kk in ("invariant", "lemmas", "axiom_instances") if kk in v})
            if "ghost_step" in v:
                v["ghost_step"] = [rw_stmt(t) for t in v["ghost_step"]]
            if "ghost" in v:
                v["ghost"] = {g: rw(t) for g, t in v["ghost"].items()}
            new_loops[k] = v
        c["loops"] = new_loops
    if "local_kinds" in c:
        c["local_kinds"] = {actual.get(k, k): v for k, v in c["local_kinds"].items()}
    c["resolved_locals"] = actual
    return c


_EXC_PARENTS = None


def exception_ancestors(name):
    """Names of the classes `name` inherits from: class statements anywhere under <repo>/pyrates (read from the current source),
    continued through Python's builtin exception hierarchy."""
    global _EXC_PARENTS
    root = repo_root()
    if _EXC_PARENTS is None or _EXC_PARENTS[0] != root:
        parents = {}
        for dirpath, _, files in os.walk(os.path.join(root, "pyrates")):
            for fn in files:
                if fn.endswith(".py"):
                    try:
                        mod = ast.parse(open(os.path.join(dirpath, fn)).read())
                    except (SyntaxError, OSError):
                        continue
                    for node in ast.walk(mod):
                        if isinstance(node, ast.ClassDef):
                            bases = [b.id if isinstance(b, ast.Name) else b.attr if isinstance(b, ast.Attribute) else None for b in node.bases]
                            parents.setdefault(node.name, set()).update(b for b in bases if b)
        _EXC_PARENTS = (root, parents)
    parents = _EXC_PARENTS[1]
    import builtins
    out, todo = set(), [name]
    while todo:
        n = todo.pop()
        for b in parents.get(n, ()):
            if b not in out:
                out.add(b)
                todo.append(b)
        cls = getattr(builtins, n, None)
        if isinstance(cls, type) and issubclass(cls, BaseException):
            for c in cls.__mro__[1:]:
                out.add(c.__name__)
    return out
