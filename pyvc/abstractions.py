"""Assumed contracts of external functions (numpy, bisect, ...).  Every use is recorded in the evidence
`trusted_base`.  Signature: f(engine, state, args, kwargs, call_ast) -> V."""
import ast

import z3

from .engine import (VNum, VSeq, VTuple, VOpaque, VConst, VNone, VStr, VObj, VKeyed, VIter, fresh, INT, REAL, BOOL, Unsupported,
                     sort_of_kind, to_real, wrap)


def _first_dim(eng, st, node):
    """First component of a shape expression such as `(cap,) + y.shape`, `(n, m) if c else (n, 1)`, `n`."""
    if isinstance(node, ast.Tuple):
        return eng.num(eng.eval(node.elts[0], st))
    if isinstance(node, ast.BinOp) and isinstance(node.op, ast.Add):
        return _first_dim(eng, st, node.left)
    if isinstance(node, ast.IfExp):
        a, b = _first_dim(eng, st, node.body), _first_dim(eng, st, node.orelse)
        if z3.eq(a, b):
            return a
        c = eng.truth(eng.eval(node.test, st))
        return z3.If(c, a, b)
    v = eng.eval(node, st)
    if isinstance(v, VNum):
        return eng.num(v)
    if isinstance(v, VTuple):
        return eng.num(v.items[0])
    raise Unsupported("shape expression")


def np_empty(ek="row"):
    """np.empty / np.zeros(shape, dtype): a fresh array whose first dimension is shape[0]; contents arbitrary
    (np.zeros is deliberately modelled with arbitrary contents too: no contract may rely on the fill)."""
    def f(eng, st, args, kwargs, e):
        n = _first_dim(eng, st, e.args[0])
        # numpy raises ValueError on negative dimensions
        eng.oblige(st, f"np.empty-nonneg@L{eng.cur_line}", "pre@call", n >= 0)
        s = VSeq(fresh("ndarray", z3.ArraySort(INT, sort_of_kind(ek))), n, ek)
        s.nd = True
        return s
    return f


def np_asarray(eng, st, args, kwargs, e):
    return args[0]


def iround(eng, st, args, kwargs, e):
    """np.round(x[, decimals=0]) / round(x): round-half-to-even on the reals, given by its defining facts
    |x - r| <= 1/2 and "r is even at a tie".  int(...) of it is that integer."""
    x = to_real(eng.num(args[0]))
    f = z3.Function("iround", REAL, INT)
    r = f(x)
    st.assume(z3.And(to_real(r) - x <= z3.RealVal("1/2"), x - to_real(r) <= z3.RealVal("1/2")))
    st.assume(z3.Implies(z3.Or(to_real(r) - x == z3.RealVal("1/2"), x - to_real(r) == z3.RealVal("1/2")), r % 2 == 0))
    return VNum(r)


def bisect_right(eng, st, args, kwargs, e):
    """bisect.bisect_right(a, x) for a list `a` sorted in non-decreasing order (documented contract):
    returns i in [0, len(a)] with all(v <= x for v in a[:i]) and all(v > x for v in a[i:]).
    The sortedness precondition is an OBLIGATION at the call site."""
    a, x = args[0], to_real(eng.num(args[1]))
    k = fresh("k", INT)
    eng.oblige(st, f"pre@call:bisect_right.sorted@L{eng.cur_line}", "pre@call",
               z3.ForAll([k], z3.Implies(z3.And(0 <= k, k < a.ln - 1),
                                         z3.Select(a.arr, k) <= z3.Select(a.arr, k + 1))))
    i = fresh("bisect", INT)
    j = fresh("j", INT)
    st.assume(z3.And(0 <= i, i <= a.ln))
    st.assume(z3.ForAll([j], z3.Implies(z3.And(0 <= j, j < i), z3.Select(a.arr, j) <= x)))
    st.assume(z3.ForAll([j], z3.Implies(z3.And(i <= j, j < a.ln), z3.Select(a.arr, j) > x)))
    return VNum(i)


def opaque(tag):
    def f(eng, st, args, kwargs, e):
        return VOpaque(tag)
    return f


def identity(eng, st, args, kwargs, e):
    return args[0]


def row_copy(eng, st, args, kwargs, e):
    v = args[0]
    if isinstance(v, VNum):
        return VNum(v.z)     # a new value object: not `borrowed`
    return v


def tagged(tag):
    """A callee whose result is only identified (dispatch contracts): returns the string constant `tag`."""
    def f(eng, st, args, kwargs, e):
        if not eng.spec_mode:
            cur = st.ghost.get("effects", VNum(z3.IntVal(0)))
            st.ghost["effects"] = VNum(cur.z + 1)
        return VStr(tag)
    return f


def np_linspace(eng, st, args, kwargs, e):
    """np.linspace(a, b, num=n, endpoint=False): n points a + k*(b-a)/n (documented behaviour)."""
    a, b = to_real(eng.num(args[0])), to_real(eng.num(args[1]))
    n = eng.num(kwargs["num"] if "num" in kwargs else args[2])
    endpoint = kwargs.get("endpoint")
    ep = eng.truth(endpoint) if endpoint is not None else z3.BoolVal(True)
    eng.oblige(st, f"np.linspace-nonneg@L{eng.cur_line}", "pre@call", n >= 0)
    arr = fresh("linspace", z3.ArraySort(INT, REAL))
    k = fresh("k", INT)
    div = z3.If(ep, to_real(n) - 1, to_real(n))
    st.assume(z3.ForAll([k], z3.Implies(z3.And(0 <= k, k < n), z3.Select(arr, k) * div == a * div + to_real(k) * (b - a)),
                        patterns=[z3.Select(arr, k)]))
    return VSeq(arr, n, "real")


def keyed_items(count_expr):
    """<dict>.items() of an unmodelled insertion-ordered dict with `count_expr` entries: the k-th iteration yields the key
    (identified with its insertion index k) and an opaque value."""
    import ast as _ast

    def f(eng, st, args, kwargs, e):
        n = eng.eval(_ast.parse(count_expr, mode="eval").body, st)
        return VIter("keyed-items", [n])
    return f


def keyed_pair(eng, st, args, kwargs, e):
    """self._process_var_update(var, update) -> (lhs, rhs): two unmodelled values that belong to entry `var`."""
    k = eng.num(args[1])
    return VTuple([VKeyed("lhs", k), VKeyed("rhs", k)])


def np_isclose(eng, st, args, kwargs, e):
    """numpy.isclose(a, b, rtol=1e-5, atol=1e-8) for scalars: |a - b| <= atol + rtol*|b| (documented formula)."""
    a, b = to_real(eng.num(args[0])), to_real(eng.num(args[1]))
    rtol = to_real(eng.num(kwargs["rtol"])) if "rtol" in kwargs else z3.RealVal("1/100000")
    atol = to_real(eng.num(kwargs["atol"])) if "atol" in kwargs else z3.RealVal("1/100000000")
    absd = z3.If(a - b >= 0, a - b, b - a)
    absb = z3.If(b >= 0, b, -b)
    return VNum(absd <= atol + rtol * absb)
