"""Assumed contracts of external functions (numpy, bisect, ...).  Every use is recorded in the evidence
`trusted_base`.  Signature: f(engine, state, args, kwargs, call_ast) -> V."""
import ast

import z3

from .engine import (VNum, VSeq, VTuple, VOpaque, VConst, VNone, VStr, VObj, VKeyed, VIter, fresh, INT, REAL, BOOL, Unsupported,
                     sort_of_kind, to_real, wrap)


def _first_dim(eng, st, node):
    """First component of a shape expression such as `(cap,) + y.shape`, `(n, m) if c else (n, 1)`, `n`."""
    if isinstance(node, ast.Tuple):
        return eng.num(eng.eval(node.elts[0], st))
    if isinstance(node, ast.BinOp) and isinstance(node.op, ast.Add):
        return _first_dim(eng, st, node.left)
    if isinstance(node, ast.IfExp):
        a, b = _first_dim(eng, st, node.body), _first_dim(eng, st, node.orelse)
        if z3.eq(a, b):
            return a
        c = eng.truth(eng.eval(node.test, st))
        return z3.If(c, a, b)
    v = eng.eval(node, st)
    if isinstance(v, VNum):
        return eng.num(v)
    if isinstance(v, VTuple):
        return eng.num(v.items[0])
    raise Unsupported("shape expression")


def np_empty(ek="row"):
    """np.empty / np.zeros(shape, dtype): a fresh array whose first dimension is shape[0]; contents arbitrary
    (np.zeros is deliberately modelled with arbitrary contents too: no contract may rely on the fill)."""
    def f(eng, st, args, kwargs, e):
        n = _first_dim(eng, st, e.args[0])
        # numpy raises ValueError on negative dimensions
        eng.oblige(st, f"np.empty-nonneg@L{eng.cur_line}", "pre@call", n >= 0)
        s = VSeq(fresh("ndarray", z3.ArraySort(INT, sort_of_kind(ek))), n, ek)
        s.nd = True
        return s
    return f


def np_asarray(eng, st, args, kwargs, e):
    return args[0]


def iround(eng, st, args, kwargs, e):
    """np.round(x[, decimals=0]) / round(x): round-half-to-even on the reals, given by its defining facts
    |x - r| <= 1/2 and "r is even at a tie".  int(...) of it is that integer."""
    x = to_real(eng.num(args[0]))
    f = z3.Function("iround", REAL, INT)
    r = f(x)
    st.assume(z3.And(to_real(r) - x <= z3.RealVal("1/2"), x - to_real(r) <= z3.RealVal("1/2")))
    st.assume(z3.Implies(z3.Or(to_real(r) - x == z3.RealVal("1/2"), x - to_real(r) == z3.RealVal("1/2")), r % 2 == 0))
    return VNum(r)


def bisect_right(eng, st, args, kwargs, e):
    """bisect.bisect_right(a, x) for a list `a` sorted in non-decreasing order (documented contract):
    returns i in [0, len(a)] with all(v <= x for v in a[:i]) and all(v > x for v in a[i:]).
    The sortedness precondition is an OBLIGATION at the call site."""
    a, x = args[0], to_real(eng.num(args[1]))
    k = fresh("k", INT)
    eng.oblige(st, f"pre@call:bisect_right.sorted@L{eng.cur_line}", "pre@call",
               z3.ForAll([k], z3.Implies(z3.And(0 <= k, k < a.ln - 1),
                                         z3.Select(a.arr, k) <= z3.Select(a.arr, k + 1))))
    i = fresh("bisect", INT)
    j = fresh("j", INT)
    st.assume(z3.And(0 <= i, i <= a.ln))
    st.assume(z3.ForAll([j], z3.Implies(z3.And(0 <= j, j < i), z3.Select(a.arr, j) <= x)))
    st.assume(z3.ForAll([j], z3.Implies(z3.And(i <= j, j < a.ln), z3.Select(a.arr, j) > x)))
    return VNum(i)


def opaque(tag):
    def f(eng, st, args, kwargs, e):
        return VOpaque(tag)
    return f


def identity(eng, st, args, kwargs, e):
    return args[0]


def row_copy(eng, st, args, kwargs, e):
    v = args[0]
    if isinstance(v, VNum):
        return VNum(v.z)     # a new value object: not `borrowed`
    return v


def tagged(tag):
    """A callee whose result is only identified (dispatch contracts): returns the string constant `tag`."""
    def f(eng, st, args, kwargs, e):
        if not eng.spec_mode:
            cur = st.ghost.get("effects", VNum(z3.IntVal(0)))
            st.ghost["effects"] = VNum(cur.z + 1)
        return VStr(tag)
    return f


def np_linspace(eng, st, args, kwargs, e):
    """np.linspace(a, b, num=n, endpoint=False): n points a + k*(b-a)/n (documented behaviour)."""
    a, b = to_real(eng.num(args[0])), to_real(eng.num(args[1]))
    n = eng.num(kwargs["num"] if "num" in kwargs else args[2])
    endpoint = kwargs.get("endpoint")
    ep = eng.truth(endpoint) if endpoint is not None else z3.BoolVal(True)
    eng.oblige(st, f"np.linspace-nonneg@L{eng.cur_line}", "pre@call", n >= 0)
    arr = fresh("linspace", z3.ArraySort(INT, REAL))
    k = fresh("k", INT)
    div = z3.If(ep, to_real(n) - 1, to_real(n))
    st.assume(z3.ForAll([k], z3.Implies(z3.And(0 <= k, k < n), z3.Select(arr, k) * div == a * div + to_real(k) * (b - a)),
                        patterns=[z3.Select(arr, k)]))
    return VSeq(arr, n, "real")


def keyed_items(count_expr):
    """<dict>.items() of an unmodelled insertion-ordered dict with `count_expr` entries: the k-th iteration yields the key
    (identified with its insertion index k) and an opaque value."""
    import ast as _ast

    def f(eng, st, args, kwargs, e):
        n = eng.eval(_ast.parse(count_expr, mode="eval").body, st)
        return VIter("keyed-items", [n])
    return f


def keyed_pair(eng, st, args, kwargs, e):
    """self._process_var_update(var, update) -> (lhs, rhs): two unmodelled values that belong to entry `var`."""
    k = eng.num(args[1])
    return VTuple([VKeyed("lhs", k), VKeyed("rhs", k)])


def np_isclose(eng, st, args, kwargs, e):
    """numpy.isclose(a, b, rtol=1e-5, atol=1e-8) for scalars: |a - b| <= atol + rtol*|b| (documented formula)."""
    a, b = to_real(eng.num(args[0])), to_real(eng.num(args[1]))
    rtol = to_real(eng.num(kwargs["rtol"])) if "rtol" in kwargs else z3.RealVal("1/100000")
    atol = to_real(eng.num(kwargs["atol"])) if "atol" in kwargs else z3.RealVal("1/100000000")
    absd = z3.If(a - b >= 0, a - b, b - a)
    absb = z3.If(b >= 0, b, -b)
    return VNum(absd <= atol + rtol * absb)


def astype_int(eng, st, args, kwargs, e):
    """<scalar array>.astype(<integer dtype>): identity on integers, truncation toward zero on reals."""
    v = args[0]
    if isinstance(v, VNum) and v.is_int:
        return v
    if isinstance(v, VNum) and v.is_real:
        return VNum(z3.If(v.z >= 0, z3.ToInt(v.z), -z3.ToInt(-v.z)))
    raise Unsupported("astype")


def first_arg(eng, st, args, kwargs, e):
    """jnp.asarray(x[, dtype=d]) / np.asarray: the value itself (dtype conversions of values that already have that kind)."""
    return args[0]


def _has_quantifier(f):
    todo, seen = [f], set()
    while todo:
        x = todo.pop()
        if x.get_id() in seen:
            continue
        seen.add(x.get_id())
        if z3.is_quantifier(x):
            return True
        todo.extend(x.children())
    return False


def lax_scan(eng, st, args, kwargs, e):
    """jax.lax.scan(f, init, None, length=L) (documented semantics): carry_0 = init; (carry_{k+1}, y_k) = f(carry_k, None) for
    k in [0, L); returns (carry_L, stack(y_0..y_{L-1})).  Verified like a loop: the contract's `scans[<closure name>]` gives an
    inductive invariant over (counter, carry `c`) and `out` clauses over (counter, `ys[counter]`); the closure BODY is executed
    symbolically for one arbitrary iteration (it is real source text of the function under contract).
    Assumes f is traceable-pure (no side effects on enclosing state): checked syntactically (no attribute/subscript stores,
    no nonlocal/global)."""
    import z3 as _z3
    fn, init = args[0], args[1]
    node = getattr(fn, "node", None)
    if node is None:
        raise Unsupported("lax.scan over a function that is not a local closure")
    spec = eng.c.get("scans", {}).get(node.name)
    if spec is None:
        raise Unsupported(f"lax.scan over {node.name}: no invariant in the contract")
    for sub in ast.walk(node):
        if isinstance(sub, (ast.Nonlocal, ast.Global)):
            raise Unsupported("closure with nonlocal/global")
        if isinstance(sub, (ast.Assign, ast.AugAssign, ast.AnnAssign)):
            tg = sub.targets if isinstance(sub, ast.Assign) else [sub.target]
            for t in tg:
                for tt in ast.walk(t):
                    if isinstance(tt, (ast.Attribute, ast.Subscript)):
                        raise Unsupported("closure storing into an object")
    L = eng.num(kwargs["length"]) if "length" in kwargs else None
    if L is None or (len(args) > 2 and not isinstance(args[2], VNone)):
        raise Unsupported("lax.scan with xs")
    cname = spec.get("counter", "j")
    carry_name = spec.get("carry", "c")
    tag = f"scan:{node.name}"
    old = getattr(st, "_old", None)
    eng.oblige(st, f"{tag}.length-nonneg@L{eng.cur_line}", "pre@call", L >= 0)
    # init
    for j, inv in enumerate(spec.get("invariant", [])):
        g = eng.eval_clause(inv, st, {cname: VNum(_z3.IntVal(0)), carry_name: init}, old=old)
        eng.oblige(st, f"{tag}.init#{j}", "loop.init", g)
    # one arbitrary iteration
    body = st.fork()
    body._old = old
    k = fresh(cname, INT)
    body.assume(_z3.And(0 <= k, k < L))
    ck = eng.havoc_value(init, f"{node.name}.carry", body)
    envk = {cname: VNum(k), carry_name: ck}
    for inv in spec.get("invariant", []):
        body.assume(eng.eval_clause(inv, body, envk, old=old))
    body.env[cname] = VNum(k)            # visible to contracts of scans nested in the body
    for j, text in enumerate(spec.get("lemmas", [])):
        g = eng.eval_clause(text, body, envk, old=old)
        from .engine import Obligation
        eng.obligations.append(Obligation(f"{eng.prefix}/{tag}.lemma#{j}", "lemma", [], g, eng.cur_line, body.trace))
        body.assume(g)
    # hypotheses for the axiom instances: the axioms and the quantifier-free facts of this path (ranges of the counters)
    rng = [h for h in body.pc if not _has_quantifier(h)]
    for j, text in enumerate(spec.get("axiom_instances", [])):
        g = eng.eval_clause(text, body, envk, old=old)
        from .engine import Obligation
        eng.obligations.append(Obligation(f"{eng.prefix}/{tag}.axiom-instance#{j}", "lemma", list(eng.axioms) + rng, g, eng.cur_line,
                                          body.trace))
        body.assume(g)
    eng.canaries.append((f"{tag}.head", eng.axioms + list(body.pc)))
    params = [a.arg for a in node.args.args]
    if len(params) != 2:
        raise Unsupported("scan body must take (carry, x)")
    body.env[params[0]] = ck
    body.env[params[1]] = VNone()
    body.trace.append(f"L{node.lineno}:{tag}.body")
    ek = spec.get("out_kind", "row")
    ys = VSeq(fresh(f"{node.name}.ys", _z3.ArraySort(INT, sort_of_kind(ek))), L, ek)
    line = eng.cur_line
    n_exits = 0
    for s2, sig in eng.exec_block(node.body, body):
        if not (isinstance(sig, tuple) and sig and sig[0] == "return"):
            raise Unsupported(f"scan body exit {sig}")
        rv = sig[1]
        if not (isinstance(rv, VTuple) and len(rv.items) == 2):
            raise Unsupported("scan body must return (carry, y)")
        n_exits += 1
        eng.cur_line = line
        c1, out = rv.items
        for j, inv in enumerate(spec.get("invariant", [])):
            g = eng.eval_clause(inv, s2, {cname: VNum(k + 1), carry_name: c1}, old=old)
            eng.oblige(s2, f"{tag}.preserve#{j}", "loop.preserve", g)
        if spec.get("out"):
            if isinstance(out, VNone):
                raise Unsupported("scan body emits None but the contract has out clauses")
            s2.assume(_z3.Select(ys.arr, k) == eng.coerce(out, ek))
            for j, oc in enumerate(spec["out"]):
                g = eng.eval_clause(oc, s2, {cname: VNum(k), "ys": ys}, old=old)
                eng.oblige(s2, f"{tag}.out#{j}", "loop.preserve", g)
    if n_exits == 0:
        raise Unsupported("scan body has no normal exit")
    # after the scan
    cL = eng.havoc_value(init, f"{node.name}.final", st)
    for inv in spec.get("invariant", []):
        st.assume(eng.eval_clause(inv, st, {cname: VNum(L), carry_name: cL}, old=old))
    if spec.get("out"):
        for oc in spec["out"]:
            q = eng.eval_clause(f"forall(0, __L, lambda {cname}: {oc})", st, {"__L": VNum(L), "ys": ys}, old=old)
            st.assume(q)
        res_ys = ys
    else:
        res_ys = VNone()
    st.trace.append(f"L{line}:{tag}.exit")
    return VTuple([cL, res_ys])


def np_arange(eng, st, args, kwargs, e):
    """np.arange(lo, hi) for integers: the sequence lo, lo+1, ..., hi-1 (documented)."""
    import z3 as _z3
    lo = eng.num(args[0]) if len(args) > 1 else _z3.IntVal(0)
    hi = eng.num(args[1]) if len(args) > 1 else eng.num(args[0])
    n = _z3.If(hi > lo, hi - lo, 0)
    arr = fresh("arange", _z3.ArraySort(INT, INT))
    k = fresh("k", INT)
    st.assume(_z3.ForAll([k], _z3.Implies(_z3.And(0 <= k, k < n), _z3.Select(arr, k) == lo + k), patterns=[_z3.Select(arr, k)]))
    return VSeq(arr, _z3.simplify(n), "int")


def seq_max(eng, st, args, kwargs, e):
    """np.max(s) / max(s) of a non-empty sequence of numbers (documented): an upper bound of every element that is itself
    an element.  The non-emptiness is the caller's obligation (numpy raises ValueError on an empty sequence)."""
    import z3 as _z3
    s = args[0]
    if not isinstance(s, VSeq):
        raise Unsupported("np.max of a non-sequence")
    srt = s.arr.sort().range()
    m, j, k = fresh("max", srt), fresh("argmax", INT), fresh("k", INT)
    st.assume(_z3.ForAll([k], _z3.Implies(_z3.And(0 <= k, k < s.ln), _z3.Select(s.arr, k) <= m), patterns=[_z3.Select(s.arr, k)]))
    st.assume(_z3.And(0 <= j, j < s.ln, _z3.Select(s.arr, j) == m))
    return VNum(m)
