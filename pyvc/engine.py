"""pyvc — verification-condition generator for a subset of Python (forward symbolic execution with
loop invariants and modular calls), discharging with z3 / cvc5.

Semantics assumed by the encoding (also listed in DESIGN.md 2.2 and in every evidence file):
  * int  -> SMT Int (exact, Python ints are unbounded); // and % with floor semantics
  * float-> SMT Real  (ASSUMPTION: machine arithmetic treated as mathematical)
  * list / tuple-as-sequence / 1-d and row-of-2-d ndarray -> (Array Int E, length) with VALUE semantics
    (ASSUMPTION: no aliasing between two list-valued locals is exploited by the verified code; element
    assignment into an ndarray row copies)
  * objects -> heap records with the fields the contract's class model declares
  * a 'row' (state vector) is one representative Real component (ASSUMPTION: numpy element-wise semantics)
  * calls: callee CONTRACT only for functions under contract; declared abstractions for everything else.
Anything outside the subset raises Unsupported -> the target is UNDECIDED (never a pass, never a violation).
"""
import ast
import itertools
import time

import z3

INT, REAL, BOOL, STR = z3.IntSort(), z3.RealSort(), z3.BoolSort(), z3.StringSort()


class Unsupported(Exception):
    pass


# --------------------------------------------------------------------------------------------- values
class V:
    pass


class VNum(V):
    """Int, Real or Bool z3 term."""

    def __init__(self, z):
        self.z = z

    @property
    def is_int(self):
        return self.z.sort() == INT

    @property
    def is_real(self):
        return self.z.sort() == REAL

    @property
    def is_bool(self):
        return self.z.sort() == BOOL

    def __repr__(self):
        return f"VNum({self.z})"


class VStr(V):
    def __init__(self, z):
        self.z = z if not isinstance(z, str) else z3.StringVal(z)

    def __repr__(self):
        return f"VStr({self.z})"


class VNone(V):
    def __repr__(self):
        return "VNone"


class VTuple(V):
    def __init__(self, items):
        self.items = list(items)

    def __repr__(self):
        return f"VTuple({self.items})"


class VSeq(V):
    """Sequence with value semantics: z3 array Int->E plus length.  ek = element kind tag."""

    def __init__(self, arr, ln, ek):
        self.arr, self.ln, self.ek = arr, ln, ek

    def __repr__(self):
        return f"VSeq(len={self.ln})"


class VObj(V):
    def __init__(self, ref, cls):
        self.ref, self.cls = ref, cls

    def __repr__(self):
        return f"VObj({self.cls}#{self.ref})"


class VFn(V):
    """Uninterpreted callable parameter (e.g. the vector field `func`)."""

    def __init__(self, name, decl, argk, retk, ghost=None, log=True):
        self.name, self.decl, self.argk, self.retk, self.ghost, self.log = name, decl, argk, retk, ghost, log


class VOpaque(V):
    """A value the encoding knows nothing about (dtype, shape tuples, modules, ...)."""

    def __init__(self, tag="?"):
        self.tag = tag

    def __repr__(self):
        return f"VOpaque({self.tag})"


class VConst(V):
    """A Python-level constant that is not a number (class object name, module, exception class)."""

    def __init__(self, py):
        self.py = py

    def __repr__(self):
        return f"VConst({self.py!r})"


class VKeyed(V):
    """Opaque value that belongs to the k-th entry of an abstract keyed collection (k is a z3 Int)."""

    def __init__(self, tag, k):
        self.tag, self.k = tag, k

    def __repr__(self):
        return f"VKeyed({self.tag}@{self.k})"


class VMap(V):
    """dict keyed by entry index with values that are an int i (stored as [i, i+1), isrange False) or a pair (a, b)."""

    def __init__(self, has, lo, hi, isr):
        self.has, self.lo, self.hi, self.isr = has, lo, hi, isr


class VMatrix(V):
    """A 2-d record array of which only column selections matter: y[:, (i,)] and y[:, a:b] evaluate to the half-open column
    range they select, as the pair (lo, hi)."""

    def __init__(self, tag="y"):
        self.tag = tag


class VRange(V):
    def __init__(self, lo, hi):
        self.lo, self.hi = lo, hi


class VIter(V):
    """enumerate / zip / dict.items() views, only valid as a `for` iterable."""

    def __init__(self, kind, parts):
        self.kind, self.parts = kind, parts


_fresh = itertools.count()


def fresh(prefix, sort):
    return z3.Const(f"{prefix}!{next(_fresh)}", sort)


def sort_of_kind(k):
    if k == "int":
        return INT
    if k in ("real", "row"):
        return REAL
    if k == "bool":
        return BOOL
    if k == "str":
        return STR
    raise Unsupported(f"element kind {k}")


def wrap(z, k=None):
    if z.sort() == STR:
        return VStr(z)
    return VNum(z)


def to_real(z):
    return z3.ToReal(z) if z.sort() == INT else z


def is_const_int(z):
    return z3.is_int_value(z)


# --------------------------------------------------------------------------------------------- state
class State:
    def __init__(self):
        self.env = {}
        self.heap = {}       # ref -> dict(field -> V)
        self.pc = []         # list of z3 Bool (hypotheses)
        self.ghost = {}      # name -> V  (call logs etc.)
        self.trace = []      # human-readable path description

    def fork(self):
        s = State()
        s.env = dict(self.env)
        s.heap = {r: dict(f) for r, f in self.heap.items()}
        s.pc = list(self.pc)
        s.ghost = dict(self.ghost)
        s.trace = list(self.trace)
        return s

    def assume(self, b):
        if z3.is_true(b):
            return
        self.pc.append(b)


class Obligation:
    def __init__(self, name, kind, hyps, goal, lineno=None, trace=None):
        self.name, self.kind, self.hyps, self.goal, self.lineno = name, kind, list(hyps), goal, lineno
        self.trace = list(trace or [])
        self.status = None      # 'discharged' | 'refuted' | 'unknown'
        self.backend = None
        self.seconds = 0.0
        self.model = None
        self.detail = ""


# --------------------------------------------------------------------------------------------- engine
MUTATORS = {"append", "extend", "pop", "update", "clear", "insert", "remove", "add", "sort", "reverse"}


def assigned_names(stmts):
    """Names (and self-fields) possibly modified by a statement list — used to havoc at loop heads."""
    names, fields = set(), set()

    def base(t):
        while isinstance(t, (ast.Subscript, ast.Attribute)):
            if isinstance(t, ast.Attribute) and isinstance(t.value, ast.Name):
                fields.add((t.value.id, t.attr))
                return None
            t = t.value
        return t

    def tgt(t):
        if isinstance(t, ast.Name):
            names.add(t.id)
        elif isinstance(t, (ast.Tuple, ast.List)):
            for e in t.elts:
                tgt(e)
        elif isinstance(t, ast.Starred):
            tgt(t.value)
        elif isinstance(t, ast.Subscript):
            b = base(t)
            if isinstance(b, ast.Name):
                names.add(b.id)
        elif isinstance(t, ast.Attribute):
            base(t)

    for st in stmts:
        for n in ast.walk(st):
            if isinstance(n, ast.Assign):
                for t in n.targets:
                    tgt(t)
            elif isinstance(n, (ast.AugAssign, ast.AnnAssign)):
                tgt(n.target)
            elif isinstance(n, ast.For):
                tgt(n.target)
            elif isinstance(n, ast.NamedExpr):
                tgt(n.target)
            elif isinstance(n, ast.Call) and isinstance(n.func, ast.Attribute):
                recv = n.func.value
                if n.func.attr in MUTATORS:
                    b = base(recv) if not isinstance(recv, ast.Name) else recv
                    if isinstance(b, ast.Name):
                        names.add(b.id)
                # method calls on objects may modify the object: handled through heap havoc by contract
    return names, fields


class Engine:
    def __init__(self, contract, registry, classes, extracted_fn, cls_consts=None, mode="prove"):
        self.c = contract
        self.registry = registry        # name -> contract (callees)
        self.classes = classes          # class name -> class model
        self.fn = extracted_fn
        self.cls_consts = cls_consts or {}
        self.mode = mode
        self.obligations = []
        self.spec_mode = 0              # >0 while evaluating contract clauses (no side obligations, no logging)
        self.loop_counter = 0
        self.axioms = []                # global hypotheses (spec-function axioms)
        self.ufs = {}                   # uninterpreted spec functions
        self.assumed = []               # names of abstractions actually used (for the trusted base)
        self.prefix = contract.get("id", contract["name"])
        self.exits = []
        self.objcount = itertools.count(1)
        self.lineoffs = 0
        self.cur_line = None
        self.callee_stack = []
        self.qmeta = {}
        self.canaries = []

    def inline_defs(self):
        if not hasattr(self, "_defs"):
            self._defs = {}
            for text in self.c.get("defs", []):
                for node in ast.parse(text).body:
                    if isinstance(node, ast.FunctionDef):
                        self._defs[node.name] = node
        return self._defs

    # ------------------------------------------------------------------ helpers
    def oblige(self, st, name, kind, goal):
        if self.spec_mode:
            return
        if z3.is_true(goal):
            # still count it: trivially discharged
            pass
        meta = self.qmeta.get(goal.get_id()) if kind == "loop.preserve" else None
        if meta is not None and z3.eq(meta[0], goal):
            # range-extension split (equivalent to the original goal):  forall k in [lo,hi). B(k)
            #   <=>  forall k in [lo,hi-1). B(k)   and   (lo <= hi-1  ->  B(hi-1))
            _, k, lo, hi, extra, body = meta
            g1 = z3.ForAll([k], z3.Implies(z3.And(lo <= k, k < hi - 1, *extra), body))
            last = z3.simplify(hi - 1)
            g2 = z3.Implies(lo <= last, z3.substitute(z3.Implies(z3.And(*extra), body) if extra else body, (k, last)))
            for suffix, g in (("a", g1), ("b", g2)):
                self.obligations.append(Obligation(f"{self.prefix}/{name}.{suffix}", kind, self.axioms + st.pc, g,
                                                   self.cur_line, st.trace))
            return
        ob = Obligation(f"{self.prefix}/{name}", kind, self.axioms + st.pc, goal, self.cur_line, st.trace)
        self.obligations.append(ob)

    def new_obj(self, st, cls, fields):
        ref = next(self.objcount)
        st.heap[ref] = dict(fields)
        return VObj(ref, cls)

    def fresh_of_kind(self, kind, name, st):
        """Fresh symbolic value for a declared kind string."""
        if kind in ("int", "real", "row", "bool", "str"):
            return wrap(fresh(name, sort_of_kind(kind)))
        if kind.startswith("seq["):
            ek = kind[4:-1]
            ln = fresh(name + ".len", INT)
            st.assume(ln >= 0)
            return VSeq(fresh(name, z3.ArraySort(INT, sort_of_kind(ek))), ln, ek)
        if kind.startswith("obj:"):
            cls = kind[4:]
            model = self.classes[cls]
            fields = {f: self.fresh_of_kind(k, f"{name}.{f}", st) for f, k in model["fields"].items()}
            for f in model.get("ndarray_fields", ()):
                fields[f].nd = True
            return self.new_obj(st, cls, fields)
        if kind.startswith("tuple("):
            ks = [k.strip() for k in kind[6:-1].split(",") if k.strip()]
            return VTuple([self.fresh_of_kind(k, f"{name}.{i}", st) for i, k in enumerate(ks)])
        if kind.startswith("fn("):
            sig = kind[3:-1]
            a, r = sig.split("->")
            argk = [k.strip() for k in a.split(",") if k.strip()]
            decl = z3.Function(name, *[sort_of_kind(k) for k in argk], sort_of_kind(r.strip()))
            return VFn(name, decl, argk, r.strip())
        if kind == "opaque":
            return VOpaque(name)
        if kind == "matrix":
            return VMatrix(name)
        if kind == "map":
            return VMap(fresh(name + ".has", z3.ArraySort(INT, BOOL)), fresh(name + ".lo", z3.ArraySort(INT, INT)),
                        fresh(name + ".hi", z3.ArraySort(INT, INT)), fresh(name + ".isr", z3.ArraySort(INT, BOOL)))
        if kind == "none":
            return VNone()
        if kind.startswith("optional:"):
            raise Unsupported("optional kinds are expanded by the driver")
        raise Unsupported(f"kind {kind}")

    def class_invariant(self, st, obj, env_name="self"):
        model = self.classes[obj.cls]
        out = []
        env = {env_name: obj}
        for clause in model.get("invariant", []):
            out.append(self.eval_clause(clause, st, env))
        return out

    # ------------------------------------------------------------------ clause evaluation
    def eval_clause(self, text, st, extra_env=None, old=None, result=None):
        tree = ast.parse(text.strip(), mode="eval").body
        self.spec_mode += 1
        try:
            s2 = st.fork()
            if extra_env:
                s2.env.update(extra_env)
            if result is not None:
                s2.env["result"] = result
            s2._old = old
            v = self.eval(tree, s2)
            return self.truth(v)
        finally:
            self.spec_mode -= 1

    def truth(self, v):
        if isinstance(v, VNum):
            if v.is_bool:
                return v.z
            return v.z != 0
        if isinstance(v, VNone):
            return z3.BoolVal(False)
        if isinstance(v, VSeq):
            return v.ln > 0
        if isinstance(v, VTuple):
            return z3.BoolVal(len(v.items) > 0)
        if isinstance(v, VStr):
            return z3.Length(v.z) > 0
        if isinstance(v, VOpaque):
            if not hasattr(v, "_truth"):
                v._truth = fresh(f"truth.{v.tag}", BOOL)
            return v._truth
        if isinstance(v, VConst):
            return z3.BoolVal(bool(v.py))
        if isinstance(v, VObj):
            return z3.BoolVal(True)
        raise Unsupported(f"truth of {v}")

    # ------------------------------------------------------------------ expressions
    def eval(self, e, st):
        m = getattr(self, "e_" + type(e).__name__, None)
        if m is None:
            raise Unsupported(f"expression {type(e).__name__}: {ast.unparse(e)}")
        return m(e, st)

    def e_Constant(self, e, st):
        v = e.value
        if isinstance(v, bool):
            return VNum(z3.BoolVal(v))
        if isinstance(v, int):
            return VNum(z3.IntVal(v))
        if isinstance(v, float):
            return VNum(z3.RealVal(repr(v)))
        if isinstance(v, str):
            return VStr(v)
        if v is None:
            return VNone()
        raise Unsupported(f"constant {v!r}")

    def e_Name(self, e, st):
        if e.id in st.env:
            return st.env[e.id]
        if e.id in st.ghost:
            return st.ghost[e.id]
        if e.id in ("True", "False"):
            return VNum(z3.BoolVal(e.id == "True"))
        glob = self.c.get("globals", {})
        if e.id in glob:
            return self.py_to_v(glob[e.id])
        return VConst(e.id)   # module / class / builtin name, resolved at call sites

    def py_to_v(self, x):
        if isinstance(x, V):
            return x
        if isinstance(x, bool):
            return VNum(z3.BoolVal(x))
        if isinstance(x, int):
            return VNum(z3.IntVal(x))
        if isinstance(x, float):
            return VNum(z3.RealVal(repr(x)))
        if isinstance(x, str):
            return VStr(x)
        if x is None:
            return VNone()
        if isinstance(x, (tuple, list)):
            return VTuple([self.py_to_v(i) for i in x])
        raise Unsupported(f"python constant {x!r}")

    def e_Tuple(self, e, st):
        return VTuple([self.eval(x, st) for x in e.elts])

    def e_Dict(self, e, st):
        # dictionary literals are not modelled: the entries are evaluated (so that anything unsupported in them is noticed) and dropped
        for v in e.values:
            self.eval(v, st)
        return VOpaque("dict-literal")

    def e_List(self, e, st):
        items = [self.eval(x, st) for x in e.elts]
        return self.seq_from_items(items, st)

    def seq_from_items(self, items, st, ek=None):
        if not items:
            ek = ek or "int"
            return VSeq(fresh("emptyseq", z3.ArraySort(INT, sort_of_kind(ek))), z3.IntVal(0), ek)
        ek = ek or self.kind_of(items[0])
        if any(self.kind_of(i) == "real" for i in items) and ek == "int":
            ek = "real"
        arr = fresh("lit", z3.ArraySort(INT, sort_of_kind(ek)))
        for i, it in enumerate(items):
            arr = z3.Store(arr, i, self.coerce(it, ek))
        out = VSeq(arr, z3.IntVal(len(items)), ek)
        if any(getattr(i, "borrowed", False) for i in items):
            out.borrowed = True
        return out

    def kind_of(self, v):
        if isinstance(v, VNum):
            return "int" if v.is_int else "real" if v.is_real else "bool"
        if isinstance(v, VStr):
            return "str"
        raise Unsupported(f"sequence element {v}")

    def coerce(self, v, ek):
        if isinstance(v, VNum):
            if ek in ("real", "row"):
                return to_real(v.z) if not v.is_bool else z3.If(v.z, z3.RealVal(1), z3.RealVal(0))
            if ek == "int":
                if v.is_int:
                    return v.z
                if v.is_bool:
                    return z3.If(v.z, z3.IntVal(1), z3.IntVal(0))
                raise Unsupported("real stored into int sequence")
            if ek == "bool":
                return self.truth(v)
        if isinstance(v, VStr) and ek == "str":
            return v.z
        raise Unsupported(f"coerce {v} to {ek}")

    def e_BoolOp(self, e, st):
        # short-circuit: side obligations of later operands are generated under the earlier guards
        is_and = isinstance(e.op, ast.And)
        vals = []
        guards = []

        def rec(i):
            if i == len(e.values):
                return
            v = self.truth(self.eval(e.values[i], st))
            vals.append(v)
            sv = z3.simplify(v)
            if (is_and and z3.is_false(sv)) or (not is_and and z3.is_true(sv)):
                return          # short-circuit decided: later operands are never evaluated
            self.under(st, v if is_and else z3.Not(v), lambda: rec(i + 1))
        rec(0)
        return VNum(z3.And(*vals) if is_and else z3.Or(*vals))

    def e_UnaryOp(self, e, st):
        v = self.eval(e.operand, st)
        if isinstance(e.op, ast.Not):
            return VNum(z3.Not(self.truth(v)))
        if isinstance(e.op, ast.USub):
            return VNum(-self.num(v))
        if isinstance(e.op, ast.UAdd):
            return VNum(self.num(v))
        raise Unsupported(ast.unparse(e))

    def num(self, v):
        if isinstance(v, VNum):
            if v.is_bool:
                return z3.If(v.z, z3.IntVal(1), z3.IntVal(0))
            return v.z
        raise Unsupported(f"not a number: {v}")

    def under(self, st, cond, thunk):
        """Evaluate thunk with `cond` temporarily added to the path condition (short-circuit / conditional
        expressions): obligations raised inside see the guard; definitional facts about fresh symbols persist."""
        pos = len(st.pc)
        st.pc.append(cond)
        try:
            return thunk()
        finally:
            del st.pc[pos]

    def e_IfExp(self, e, st):
        c = self.truth(self.eval(e.test, st))
        sc = z3.simplify(c)
        if z3.is_true(sc):
            return self.eval(e.body, st)
        if z3.is_false(sc):
            return self.eval(e.orelse, st)
        a = self.under(st, c, lambda: self.eval(e.body, st))
        b = self.under(st, z3.Not(c), lambda: self.eval(e.orelse, st))
        return self.ite(c, a, b)

    def ite(self, c, a, b):
        if z3.is_true(c):
            return a
        if z3.is_false(c):
            return b
        if isinstance(a, VNum) and isinstance(b, VNum):
            az, bz = a.z, b.z
            if az.sort() != bz.sort():
                az, bz = to_real(self.num(a)), to_real(self.num(b))
            return VNum(z3.If(c, az, bz))
        if isinstance(a, VTuple) and isinstance(b, VTuple) and len(a.items) == len(b.items):
            return VTuple([self.ite(c, x, y) for x, y in zip(a.items, b.items)])
        if isinstance(a, VStr) and isinstance(b, VStr):
            return VStr(z3.If(c, a.z, b.z))
        if isinstance(a, VSeq) and isinstance(b, VSeq) and a.ek == b.ek:
            return VSeq(z3.If(c, a.arr, b.arr), z3.If(c, a.ln, b.ln), a.ek)
        if isinstance(a, VOpaque) or isinstance(b, VOpaque):
            return VOpaque("ite")
        raise Unsupported(f"ite over {a} / {b}")

    def e_BinOp(self, e, st):
        a, b = self.eval(e.left, st), self.eval(e.right, st)
        return self.binop(e.op, a, b, st, e)

    def binop(self, op, a, b, st, e=None):
        if isinstance(a, VSeq) or isinstance(b, VSeq):
            return self.seq_binop(op, a, b, st)
        if isinstance(a, VTuple) and isinstance(b, VTuple) and isinstance(op, ast.Add):
            return VTuple(a.items + b.items)
        if isinstance(a, VStr) and isinstance(b, VStr) and isinstance(op, ast.Add):
            return VStr(z3.Concat(a.z, b.z))
        if isinstance(a, (VOpaque, VConst)) or isinstance(b, (VOpaque, VConst)):
            return VOpaque("binop")
        x, y = self.num(a), self.num(b)
        both_int = x.sort() == INT and y.sort() == INT
        if isinstance(op, ast.Add):
            return VNum(x + y if both_int else to_real(x) + to_real(y))
        if isinstance(op, ast.Sub):
            return VNum(x - y if both_int else to_real(x) - to_real(y))
        if isinstance(op, ast.Mult):
            return VNum(x * y if both_int else to_real(x) * to_real(y))
        if isinstance(op, ast.Div):
            self.oblige(st, f"div-nonzero@L{self.cur_line}", "div-nonzero", y != 0)
            return VNum(to_real(x) / to_real(y))
        if isinstance(op, ast.FloorDiv):
            if not both_int:
                raise Unsupported("// on reals")
            self.oblige(st, f"div-nonzero@L{self.cur_line}", "div-nonzero", y != 0)
            return VNum(self.floordiv(x, y, self.entails(st, y > 0)))
        if isinstance(op, ast.Mod):
            if not both_int:
                raise Unsupported("% on reals")
            self.oblige(st, f"div-nonzero@L{self.cur_line}", "div-nonzero", y != 0)
            return VNum(x - y * self.floordiv(x, y, self.entails(st, y > 0)))
        if isinstance(op, ast.Pow):
            if is_const_int(y) and 0 <= y.as_long() <= 4:
                r = z3.IntVal(1) if x.sort() == INT else z3.RealVal(1)
                for _ in range(y.as_long()):
                    r = r * x
                return VNum(r)
            raise Unsupported("** with non-constant exponent")
        raise Unsupported(f"operator {type(op).__name__}")

    def entails(self, st, fact):
        """Cheap syntactic-level help for the encoding: is `fact` implied by the current path condition?"""
        s = z3.Solver()
        s.set("rlimit", 400000)        # deterministic resource limit (not wall time): same encoding under load
        s.set("timeout", 5000)
        s.add(*[h for h in st.pc if not z3.is_quantifier(h)])
        s.add(z3.Not(fact))
        return s.check() == z3.unsat

    @staticmethod
    def floordiv(x, y, positive=False):
        if positive:
            return x / y
        # SMT-LIB div is Euclidean (remainder >= 0); Python floors.  They agree for y > 0; for y < 0:
        # floor(x/y) = -ceil(x/(-y)) = -((x + (-y) - 1) div (-y))  ==  (-x) floor-div (-y)... use identity
        # floor(x / y) = floor((-x) / (-y)) and for positive divisor d: floor(a/d) = a div d.
        return z3.If(y > 0, x / y, (-x) / (-y))

    def seq_binop(self, op, a, b, st):
        if isinstance(op, ast.Add) and isinstance(a, VSeq) and isinstance(b, VSeq):
            ek = a.ek if a.ek == b.ek else ("real" if {a.ek, b.ek} <= {"int", "real", "row"} else None)
            if ek is None:
                raise Unsupported("concatenation of different element kinds")
            if is_const_int(b.ln) and b.ln.as_long() <= 4 and a.ek == ek:
                arr = a.arr
                for j in range(b.ln.as_long()):
                    arr = z3.Store(arr, a.ln + j, z3.Select(b.arr, j))
                return VSeq(arr, a.ln + b.ln, ek)
            new = fresh("cat", z3.ArraySort(INT, sort_of_kind(ek)))
            k = fresh("k", INT)
            ea = z3.Select(a.arr, k) if a.ek == ek else to_real(z3.Select(a.arr, k))
            eb = z3.Select(b.arr, k - a.ln) if b.ek == ek else to_real(z3.Select(b.arr, k - a.ln))
            st.assume(z3.ForAll([k], z3.Select(new, k) == z3.If(k < a.ln, ea, eb), patterns=[z3.Select(new, k)]))
            return VSeq(new, a.ln + b.ln, ek)
        if isinstance(op, ast.Mult):
            s, n = (a, b) if isinstance(a, VSeq) else (b, a)
            if isinstance(n, VNum) and n.is_int and is_const_int(s.ln) and s.ln.as_long() == 1:
                new = fresh("rep", z3.ArraySort(INT, sort_of_kind(s.ek)))
                k = fresh("k", INT)
                st.assume(z3.ForAll([k], z3.Select(new, k) == z3.Select(s.arr, 0), patterns=[z3.Select(new, k)]))
                return VSeq(new, z3.If(n.z > 0, n.z, 0), s.ek)
        raise Unsupported("sequence arithmetic")

    def e_Compare(self, e, st):
        left = self.eval(e.left, st)
        res = []
        for op, r in zip(e.ops, e.comparators):
            right = self.eval(r, st)
            res.append(self.compare(op, left, right, st))
            left = right
        return VNum(z3.And(*res) if len(res) > 1 else res[0])

    def compare(self, op, a, b, st):
        if isinstance(op, (ast.Is, ast.IsNot)):
            if isinstance(b, VNone) or isinstance(a, VNone):
                r = z3.BoolVal(isinstance(a, VNone) and isinstance(b, VNone))
                other = a if isinstance(b, VNone) else b
                if isinstance(other, VOpaque):
                    if not hasattr(other, "_isnone"):
                        other._isnone = fresh(f"isnone.{other.tag}", BOOL)
                    r = other._isnone
                return z3.Not(r) if isinstance(op, ast.IsNot) else r
            if isinstance(a, VConst) and isinstance(b, VConst):
                r = z3.BoolVal(a.py == b.py)
                return z3.Not(r) if isinstance(op, ast.IsNot) else r
            raise Unsupported("`is` on non-None values")
        if isinstance(op, (ast.In, ast.NotIn)):
            r = self.contains(b, a, st)
            return z3.Not(r) if isinstance(op, ast.NotIn) else r
        if isinstance(op, (ast.Eq, ast.NotEq)):
            r = self.equal(a, b, st)
            return z3.Not(r) if isinstance(op, ast.NotEq) else r
        if isinstance(a, VStr) and isinstance(b, VStr):
            raise Unsupported("string ordering")
        x, y = self.num(a), self.num(b)
        if x.sort() != y.sort():
            x, y = to_real(x), to_real(y)
        if isinstance(op, ast.Lt):
            return x < y
        if isinstance(op, ast.LtE):
            return x <= y
        if isinstance(op, ast.Gt):
            return x > y
        if isinstance(op, ast.GtE):
            return x >= y
        raise Unsupported(f"comparison {type(op).__name__}")

    def equal(self, a, b, st):
        if isinstance(a, VNum) and isinstance(b, VNum):
            x, y = a.z, b.z
            if x.sort() != y.sort():
                if x.sort() == BOOL or y.sort() == BOOL:
                    x, y = self.num(a), self.num(b)
                if x.sort() != y.sort():
                    x, y = to_real(x), to_real(y)
            return x == y
        if isinstance(a, VStr) and isinstance(b, VStr):
            return a.z == b.z
        if isinstance(a, VNone) or isinstance(b, VNone):
            if isinstance(a, VOpaque) or isinstance(b, VOpaque):
                other = a if isinstance(a, VOpaque) else b
                if not hasattr(other, "_isnone"):
                    other._isnone = fresh(f"isnone.{other.tag}", BOOL)
                return other._isnone
            return z3.BoolVal(isinstance(a, VNone) and isinstance(b, VNone))
        if isinstance(a, VTuple) and isinstance(b, VTuple):
            if len(a.items) != len(b.items):
                return z3.BoolVal(False)
            return z3.And(*[self.equal(x, y, st) for x, y in zip(a.items, b.items)]) if a.items else z3.BoolVal(True)
        if isinstance(a, VSeq) and isinstance(b, VSeq):
            k = fresh("k", INT)
            ea, eb = z3.Select(a.arr, k), z3.Select(b.arr, k)
            if ea.sort() != eb.sort():
                ea, eb = to_real(ea), to_real(eb)
            return z3.And(a.ln == b.ln, z3.ForAll([k], z3.Implies(z3.And(0 <= k, k < a.ln), ea == eb)))
        if isinstance(a, VConst) and isinstance(b, VConst):
            return z3.BoolVal(a.py == b.py)
        if isinstance(a, VObj) and isinstance(b, VObj):
            return z3.BoolVal(a.ref == b.ref)
        if isinstance(a, VTuple) and isinstance(b, VSeq) or isinstance(a, VSeq) and isinstance(b, VTuple):
            t, s = (a, b) if isinstance(a, VTuple) else (b, a)
            conj = [s.ln == len(t.items)]
            for i, it in enumerate(t.items):
                conj.append(self.equal(it, wrap(z3.Select(s.arr, i)), st))
            return z3.And(*conj)
        if type(a) is not type(b) and not isinstance(a, VOpaque) and not isinstance(b, VOpaque):
            return z3.BoolVal(False)
        raise Unsupported(f"equality of {a} and {b}")

    def contains(self, container, item, st):
        if isinstance(container, VTuple):
            return z3.Or(*[self.equal(item, x, st) for x in container.items]) if container.items else z3.BoolVal(False)
        if isinstance(container, VOpaque) and isinstance(item, (VStr, VNum)):
            # membership in an unmodelled container: an uninterpreted predicate of the item (same answer every time)
            return z3.Function(f"in.{container.tag}", item.z.sort(), BOOL)(item.z)
        if isinstance(container, VOpaque) or isinstance(item, VOpaque):
            return fresh("in", BOOL)
        if isinstance(container, VSeq) and is_const_int(container.ln) and container.ln.as_long() <= 40:
            n = container.ln.as_long()
            if n == 0:
                return z3.BoolVal(False)
            return z3.Or(*[z3.Select(container.arr, j) == self.coerce(item, container.ek) for j in range(n)])
        if isinstance(container, VSeq):
            k = fresh("k", INT)
            return z3.Exists([k], z3.And(0 <= k, k < container.ln,
                                         z3.Select(container.arr, k) == self.coerce(item, container.ek)))
        if isinstance(container, VStr) and isinstance(item, VStr):
            return z3.Contains(container.z, item.z)
        if isinstance(container, VRange):
            x = self.num(item)
            return z3.And(container.lo <= x, x < container.hi)
        raise Unsupported(f"`in` on {container}")

    # ---- attribute / subscript
    def e_Attribute(self, e, st):
        base = self.eval(e.value, st)
        if isinstance(base, VObj):
            fields = st.heap[base.ref]
            if e.attr in fields:
                return fields[e.attr]
            consts = self.classes.get(base.cls, {}).get("consts", {})
            if e.attr in consts:
                return self.py_to_v(consts[e.attr])
            if base.cls == self.c.get("self_class") and e.attr in self.cls_consts:
                return self.py_to_v(self.cls_consts[e.attr])
            if e.attr in self.classes.get(base.cls, {}).get("extra_fields", ()):
                return VOpaque(f"{base.cls}.{e.attr}")
            return VConst(("method", base, e.attr))
        if isinstance(base, VConst):
            py = base.py
            if e.attr == "kind" and isinstance(py, tuple) and py[0] == "method" and py[2] == "dtype" and isinstance(py[1], VNum):
                # ndarray.dtype.kind of a scalar whose static kind the engine knows
                return VStr("b" if py[1].is_bool else ("i" if py[1].is_int else "f"))
            return VConst(("attr", base.py, e.attr))
        if isinstance(base, VKeyed):
            return VKeyed(f"{base.tag}.{e.attr}", base.k)
        if isinstance(base, VOpaque):
            return VOpaque(f"{base.tag}.{e.attr}")
        if isinstance(base, (VNum, VSeq, VStr, VTuple)):
            # ndarray attributes (.shape, .dtype) or methods: opaque unless used as a call
            return VConst(("method", base, e.attr))
        raise Unsupported(f"attribute {ast.unparse(e)}")

    def norm_index(self, i, ln, st=None):
        if is_const_int(i):
            return i if i.as_long() >= 0 else ln + i
        if st is not None and self.entails(st, i >= 0):
            return i
        return z3.If(i < 0, ln + i, i)

    def e_Subscript(self, e, st):
        base = self.eval(e.value, st)
        if isinstance(base, VConst) and isinstance(base.py, tuple) and base.py[0] == "method":
            # e.g. y.shape[0]
            return VOpaque("sub")
        if isinstance(base, VOpaque):
            return VOpaque(f"{base.tag}[]")
        sl = e.slice
        if isinstance(base, VMatrix):
            if isinstance(sl, ast.Tuple) and len(sl.elts) == 2 and isinstance(sl.elts[0], ast.Slice) and sl.elts[0].lower is None \
                    and sl.elts[0].upper is None:
                col = sl.elts[1]
                if isinstance(col, ast.Slice):
                    lo = self.num(self.eval(col.lower, st)) if col.lower is not None else z3.IntVal(0)
                    if col.upper is None or col.step is not None:
                        raise Unsupported("open column slice")
                    return VTuple([VNum(lo), VNum(self.num(self.eval(col.upper, st)))])
                cv = self.eval(col, st)
                if isinstance(cv, VTuple) and len(cv.items) == 1:        # fancy index with one column
                    i = self.num(cv.items[0])
                    return VTuple([VNum(i), VNum(i + 1)])
                if isinstance(cv, VNum) and cv.is_int:
                    return VTuple([VNum(cv.z), VNum(cv.z + 1)])
            raise Unsupported(f"matrix subscript {ast.unparse(e)}")
        if isinstance(sl, ast.Slice):
            return self.slice(base, sl, st)
        if isinstance(sl, ast.Tuple):
            # 2-d indexing a[i, :] -> row i ; a[i, j] unsupported
            if len(sl.elts) == 2 and isinstance(sl.elts[1], ast.Slice) and sl.elts[1].lower is None \
                    and sl.elts[1].upper is None:
                idx = self.eval(sl.elts[0], st)
                return self.index(base, idx, st)
            raise Unsupported(f"subscript {ast.unparse(e)}")
        idx = self.eval(sl, st)
        return self.index(base, idx, st)

    def index(self, base, idx, st):
        if isinstance(base, VTuple):
            i = self.num(idx)
            if is_const_int(i):
                n = i.as_long()
                if -len(base.items) <= n < len(base.items):
                    return base.items[n]
                self.oblige(st, f"index-in-bounds@L{self.cur_line}", "index-in-bounds", z3.BoolVal(False))
                return VOpaque("oob")
            raise Unsupported("symbolic index into tuple")
        if isinstance(base, VSeq):
            i = self.num(idx)
            if i.sort() != INT:
                raise Unsupported("non-integer index")
            self.oblige(st, f"index-in-bounds@L{self.cur_line}", "index-in-bounds",
                        z3.And(-base.ln <= i, i < base.ln))
            return wrap(z3.Select(base.arr, self.norm_index(i, base.ln, st)))
        if isinstance(base, VStr):
            i = self.num(idx)
            ln = z3.Length(base.z)
            self.oblige(st, f"index-in-bounds@L{self.cur_line}", "index-in-bounds", z3.And(-ln <= i, i < ln))
            return VStr(z3.SubString(base.z, self.norm_index(i, ln), 1))
        raise Unsupported(f"index into {base}")

    def slice_bounds(self, sl, ln, st):
        lo = self.num(self.eval(sl.lower, st)) if sl.lower is not None else z3.IntVal(0)
        hi = self.num(self.eval(sl.upper, st)) if sl.upper is not None else ln
        if sl.step is not None:
            raise Unsupported("slice step")

        def clamp(x):
            x = self.norm_index(x, ln)
            return z3.If(x < 0, 0, z3.If(x > ln, ln, x))
        lo, hi = clamp(lo), clamp(hi)
        return z3.simplify(lo), z3.simplify(hi)

    def slice(self, base, sl, st):
        if isinstance(base, VSeq):
            lo, hi = self.slice_bounds(sl, base.ln, st)
            n = z3.If(hi > lo, hi - lo, 0)
            if sl.lower is None:
                return VSeq(base.arr, z3.simplify(n), base.ek)     # prefix: same array, shorter length
            new = fresh("slice", base.arr.sort())
            k = fresh("k", INT)
            st.assume(z3.ForAll([k], z3.Select(new, k) == z3.Select(base.arr, k + lo), patterns=[z3.Select(new, k)]))
            return VSeq(new, z3.simplify(n), base.ek)
        if isinstance(base, VStr):
            ln = z3.Length(base.z)
            lo, hi = self.slice_bounds(sl, ln, st)
            return VStr(z3.SubString(base.z, lo, z3.If(hi > lo, hi - lo, 0)))
        if isinstance(base, VTuple):
            lo = self.eval(sl.lower, st) if sl.lower is not None else None
            hi = self.eval(sl.upper, st) if sl.upper is not None else None
            def c(v):
                if v is None:
                    return None
                z = self.num(v)
                if not is_const_int(z):
                    raise Unsupported("symbolic tuple slice")
                return z.as_long()
            return VTuple(base.items[c(lo):c(hi)])
        raise Unsupported(f"slice of {base}")

    def e_JoinedStr(self, e, st):
        parts = []
        for v in e.values:
            if isinstance(v, ast.Constant):
                parts.append(z3.StringVal(v.value))
            else:
                x = self.eval(v.value, st)
                parts.append(self.to_str(x))
        if not parts:
            return VStr("")
        return VStr(z3.Concat(*parts) if len(parts) > 1 else parts[0])

    def to_str(self, x):
        if isinstance(x, VStr):
            return x.z
        if isinstance(x, VNum) and x.is_int:
            # str(int): IntToStr handles only non-negative integers
            return z3.If(x.z >= 0, z3.IntToStr(x.z), z3.Concat(z3.StringVal("-"), z3.IntToStr(-x.z)))
        if isinstance(x, VConst) and x.py in ("int", "float", "bool", "str", "list", "tuple"):
            # str(type(v)): CPython prints "<class 'int'>", numpy scalars "<class 'numpy.int64'>" / "<class 'numpy.float64'>";
            # only containment of the kind name is meaningful, which both spellings share (assumption listed in DESIGN 5)
            return z3.StringVal(f"<class '{x.py}'>")
        raise Unsupported(f"str() of {x}")

    def e_Lambda(self, e, st):
        return VConst(("lambda", e, st))

    def e_ListComp(self, e, st):
        if len(e.generators) != 1 or e.generators[0].ifs or e.generators[0].is_async:
            raise Unsupported("comprehension with filter or several generators")
        g = e.generators[0]
        it = self.eval(g.iter, st)
        k = fresh("k", INT)
        s2 = st.fork()
        if isinstance(it, VRange):
            n = z3.If(it.hi > it.lo, it.hi - it.lo, 0)
            self.bind(g.target, VNum(k + it.lo), s2)
            s2.assume(z3.And(0 <= k, k < n))
        elif isinstance(it, VSeq):
            n = it.ln
            self.bind(g.target, wrap(z3.Select(it.arr, k)), s2)
            s2.assume(z3.And(0 <= k, k < n))
        elif isinstance(it, VTuple):
            items = []
            for x in it.items:
                s3 = st.fork()
                self.bind(g.target, x, s3)
                items.append(self.eval(e.elt, s3))
            return self.seq_from_items(items, st)
        else:
            raise Unsupported("comprehension iterable")
        save = self.spec_mode
        n_pc = len(s2.pc)
        body = self.eval(e.elt, s2)
        if len(s2.pc) != n_pc:
            # the element expression produced facts about fresh symbols (a call through a contract, an abstraction with assumptions):
            # they hold for ONE symbolic element and cannot be attached to every element of the result here
            raise Unsupported("comprehension whose element expression calls a contracted / abstracted function")
        ek = self.kind_of(body)
        new = fresh("comp", z3.ArraySort(INT, sort_of_kind(ek)))
        st.assume(z3.ForAll([k], z3.Implies(z3.And(0 <= k, k < n), z3.Select(new, k) == self.coerce(body, ek)),
                            patterns=[z3.Select(new, k)]))
        return VSeq(new, z3.simplify(n), ek)

    # ---- calls
    def e_Call(self, e, st):
        f = e.func
        # contract-level spec builtins ------------------------------------------------
        if isinstance(f, ast.Name):
            n = f.id
            if n == "old":
                if getattr(st, "_old", None) is None:
                    raise Unsupported("old() outside a postcondition")
                s_old = st._old.fork()
                for k_, v_ in st.env.items():       # bound variables of enclosing quantifiers
                    if k_ not in s_old.env:
                        s_old.env[k_] = v_
                s_old._old = None
                return self.eval(e.args[0], s_old)
            if n in ("forall", "exists"):
                lo = self.num(self.eval(e.args[0], st))
                unbounded = isinstance(e.args[1], ast.Name) and e.args[1].id == "INF"
                hi = None if unbounded else self.num(self.eval(e.args[1], st))
                lam = e.args[2]
                if not isinstance(lam, ast.Lambda):
                    raise Unsupported("forall needs a lambda")
                k = fresh(lam.args.args[0].arg, INT)
                s2 = st.fork()
                s2._old = getattr(st, "_old", None)
                s2.env[lam.args.args[0].arg] = VNum(k)
                rng = z3.And(lo <= k, k < hi) if hi is not None else (lo <= k)
                s2.pc.append(rng)          # lets the encoder see that indices built from k are in range
                npc = len(s2.pc)
                self.spec_mode += 1
                try:
                    body = self.truth(self.eval(lam.body, s2))
                finally:
                    self.spec_mode -= 1
                # definitional hypotheses created while evaluating the body (slices etc.)
                extra = s2.pc[npc:]
                pats = []
                if len(e.args) > 3:            # optional 4th argument: lambda k: <trigger term>
                    self.spec_mode += 1
                    try:
                        pv = self.eval(e.args[3].body, s2)
                    finally:
                        self.spec_mode -= 1
                    pats = [pv.z]
                if n == "forall":
                    q = z3.ForAll([k], z3.Implies(z3.And(rng, *extra), body), patterns=pats)
                    if hi is not None:
                        self.qmeta[q.get_id()] = (q, k, lo, hi, extra, body)
                    return VNum(q)
                return VNum(z3.Exists([k], z3.And(rng, *extra, body)))
            if n in ("has", "start", "stop", "isrange") and len(e.args) == 2:
                m = self.eval(e.args[0], st)
                k = self.num(self.eval(e.args[1], st))
                if isinstance(m, VMap):
                    arr = {"has": m.has, "start": m.lo, "stop": m.hi, "isrange": m.isr}[n]
                    return VNum(z3.Select(arr, k))
            if n == "vsize" and len(e.args) == 1:
                return VNum(z3.Function("vsize", INT, INT)(self.num(self.eval(e.args[0], st))))
            if n == "implies":
                a = self.truth(self.eval(e.args[0], st))
                s2 = st.fork(); s2._old = getattr(st, "_old", None)
                s2.assume(a)
                b = self.truth(self.eval(e.args[1], s2))
                return VNum(z3.Implies(a, b))
            if n in self.c.get("spec_funcs", {}) or n in self.ufs:
                return self.call_spec(n, [self.eval(a, st) for a in e.args], st)
            d = self.inline_defs().get(n)
            if d is not None and n not in st.env:
                vals = [self.eval(a, st) for a in e.args]
                s2 = st.fork()
                s2._old = getattr(st, "_old", None)
                for a_, v_ in zip(d.args.args, vals):
                    s2.env[a_.arg] = v_
                body = [b for b in d.body if not (isinstance(b, ast.Expr) and isinstance(b.value, ast.Constant))]
                if len(body) != 1 or not isinstance(body[0], ast.Return):
                    raise Unsupported(f"spec def {n} must be a single return")
                self.spec_mode += 1
                try:
                    return self.eval(body[0].value, s2)
                finally:
                    self.spec_mode -= 1
        fv = self.eval(f, st)
        args = [self.eval(a, st) for a in e.args if not isinstance(a, ast.Starred)]
        star = [a for a in e.args if isinstance(a, ast.Starred)]
        kwargs = {k.arg: self.eval(k.value, st) for k in e.keywords if k.arg}
        return self.call(fv, args, kwargs, st, e, star)

    def call_spec(self, name, args, st):
        spec = self.c.get("spec_funcs", {}).get(name)
        if name not in self.ufs:
            argk, retk = spec["sig"]
            self.ufs[name] = (z3.Function(f"spec.{name}", *[sort_of_kind(k) for k in argk], sort_of_kind(retk)), argk, retk)
        decl, argk, retk = self.ufs[name]
        zs = [self.coerce(a, k) for a, k in zip(args, argk)]
        return wrap(decl(*zs))

    def call(self, fv, args, kwargs, st, e, star=()):
        if isinstance(fv, VFn):
            zs = [self.coerce(a, k) for a, k in zip(args, fv.argk)]
            n_explicit = len(zs)
            if len(zs) < len(fv.argk):
                # hidden ghost argument(s)
                for g in (fv.ghost or [])[: len(fv.argk) - len(zs)]:
                    zs.append(self.coerce(self.eval(ast.parse(g, mode="eval").body, st), fv.argk[len(zs)]))
            if len(zs) != len(fv.argk):
                raise Unsupported(f"arity of {fv.name}")
            if not self.spec_mode and fv.log:
                for j in range(len(zs)):
                    lg = st.ghost[f"calls_{fv.name}_{j}"]
                    st.ghost[f"calls_{fv.name}_{j}"] = VSeq(z3.Store(lg.arr, lg.ln, zs[j]), lg.ln + 1, lg.ek)
            return wrap(fv.decl(*zs))
        if isinstance(fv, VConst):
            py = fv.py
            if isinstance(py, str):
                return self.call_builtin(py, args, kwargs, st, e)
            if isinstance(py, tuple) and py[0] == "attr":
                dotted = self.dotted(py)
                return self.call_builtin(dotted, args, kwargs, st, e)
            if isinstance(py, tuple) and py[0] == "method":
                return self.call_method(py[1], py[2], args, kwargs, st, e)
        if isinstance(fv, VOpaque):
            meth = fv.tag.rsplit(".", 1)[-1]
            abst = self.c.get("abstractions", {})
            if f"*.{meth}" in abst:
                self.assumed.append(f"*.{meth}")
                return abst[f"*.{meth}"](self, st, [fv] + args, kwargs, e)
            return self.opaque_call(f"<opaque {fv.tag}>", st, e)
        raise Unsupported(f"call {ast.unparse(e)}")

    def opaque_call(self, name, st, e):
        """A call the contract declares irrelevant to the clause being proved: result unknown, and it is counted in
        the ghost `effects` (so 'raises BEFORE any result-producing call' is expressible)."""
        if not self.c.get("unknown_calls") == "opaque":
            raise Unsupported(f"call to {name} (no contract, no abstraction)")
        if not self.spec_mode:
            cur = st.ghost.get("effects", VNum(z3.IntVal(0)))
            st.ghost["effects"] = VNum(cur.z + 1)
            self.assumed.append(f"opaque call {name}")
        return VOpaque(f"ret:{name}")

    def dotted(self, py):
        if isinstance(py, str):
            return py
        return self.dotted(py[1]) + "." + py[2]

    def call_builtin(self, name, args, kwargs, st, e):
        abst = self.c.get("abstractions", {})
        if name in abst:
            self.assumed.append(name)
            return abst[name](self, st, args, kwargs, e)
        ctors = self.c.get("constructors", {})
        if name in ctors:
            # ClassName(...) through the CONTRACT of its constructor (modular: the constructor body is verified on its own)
            obj = self.fresh_of_kind(f"obj:{name}", f"new.{name}", st)
            self.call_contract(ctors[name], obj, args, kwargs, st, e)
            return obj
        if name == "len":
            a = args[0]
            if isinstance(a, VSeq):
                return VNum(a.ln)
            if isinstance(a, VTuple):
                return VNum(z3.IntVal(len(a.items)))
            if isinstance(a, VStr):
                return VNum(z3.Length(a.z))
            if isinstance(a, VOpaque):
                n = fresh("len", INT)
                st.assume(n >= 0)
                return VNum(n)
            raise Unsupported("len")
        if name == "range":
            if len(args) == 1:
                return VRange(z3.IntVal(0), self.num(args[0]))
            if len(args) == 2:
                return VRange(self.num(args[0]), self.num(args[1]))
            raise Unsupported("range with step")
        if name == "int":
            a = args[0]
            if isinstance(a, VNum) and a.is_int:
                return a
            if isinstance(a, VNum) and a.is_bool:
                return VNum(self.num(a))
            if isinstance(a, VNum) and a.is_real:
                # truncation toward zero
                x = a.z
                return VNum(z3.If(x >= 0, z3.ToInt(x), -z3.ToInt(-x)))
            if isinstance(a, VOpaque):
                return VNum(fresh("int", INT))
            raise Unsupported("int()")
        if name == "float":
            a = args[0]
            if isinstance(a, VNum):
                return VNum(to_real(self.num(a)))
            raise Unsupported("float()")
        if name == "bool":
            return VNum(self.truth(args[0]))
        if name == "str":
            return VStr(self.to_str(args[0]))
        if name == "abs":
            x = self.num(args[0])
            return VNum(z3.If(x >= 0, x, -x))
        if name in ("max", "min"):
            vals = args if len(args) > 1 else (args[0].items if isinstance(args[0], VTuple) else None)
            if vals is None:
                raise Unsupported("max/min of sequence")
            acc = self.num(vals[0])
            for v in vals[1:]:
                x = self.num(v)
                if acc.sort() != x.sort():
                    acc, x = to_real(acc), to_real(x)
                acc = z3.If(x > acc, x, acc) if name == "max" else z3.If(x < acc, x, acc)
            return VNum(acc)
        if name == "sum" and len(args) == 1 and isinstance(args[0], VKeyed):
            # sum(lhs.shape) of the k-th entry: an unknown non-negative integer that depends only on the entry
            f = z3.Function("vsize", INT, INT)
            st.assume(f(args[0].k) >= 0)
            return VNum(f(args[0].k))
        if name == "isinstance":
            a, cls = args
            if isinstance(a, VObj) and isinstance(cls, VConst):
                return VNum(z3.BoolVal(a.cls == cls.py))
            if isinstance(cls, VConst) and isinstance(a, (VNum, VStr, VSeq, VTuple, VNone)):
                table = {"int": isinstance(a, VNum) and a.is_int, "float": isinstance(a, VNum) and a.is_real,
                         "str": isinstance(a, VStr), "list": isinstance(a, VSeq), "tuple": isinstance(a, VTuple),
                         "bool": isinstance(a, VNum) and a.is_bool}
                if cls.py in table:
                    return VNum(z3.BoolVal(bool(table[cls.py])))
                if cls.py in self.classes:
                    return VNum(z3.BoolVal(False))
            if isinstance(a, VOpaque):
                return VNum(fresh("isinstance", BOOL))
            raise Unsupported(f"isinstance({a}, {cls})")
        if name == "hasattr" and len(args) == 2 and isinstance(args[1], VStr) and z3.is_string_value(args[1].z) \
                and args[1].z.as_string() == "__len__":
            # decided from the declared kind of the argument: sequences / tuples / strings have a length, numbers do not
            a = args[0]
            if isinstance(a, (VSeq, VTuple, VStr)):
                return VNum(z3.BoolVal(True))
            if isinstance(a, (VNum, VNone)):
                return VNum(z3.BoolVal(False))
            raise Unsupported("hasattr(<unmodelled>, '__len__')")
        if name == "type":
            a = args[0]
            if isinstance(a, VNum):
                return VConst("int" if a.is_int else "float" if a.is_real else "bool")
            if isinstance(a, VStr):
                return VConst("str")
            if isinstance(a, VTuple):
                return VConst("tuple")
            if isinstance(a, VSeq):
                return VConst("list")
            if isinstance(a, VObj):
                return VConst(a.cls)
            raise Unsupported("type()")
        if name in ("list", "tuple"):
            if not args:
                return self.seq_from_items([], st) if name == "list" else VTuple([])
            a = args[0]
            if isinstance(a, (VSeq, VTuple)):
                return a
            if isinstance(a, VRange):
                n = z3.If(a.hi > a.lo, a.hi - a.lo, 0)
                new = fresh("rng", z3.ArraySort(INT, INT))
                k = fresh("k", INT)
                st.assume(z3.ForAll([k], z3.Select(new, k) == k + a.lo, patterns=[z3.Select(new, k)]))
                return VSeq(new, z3.simplify(n), "int")
            raise Unsupported(f"{name}()")
        if name == "enumerate":
            return VIter("enumerate", args)
        if name == "zip":
            return VIter("zip", args)
        if name in self.registry:
            return self.call_contract(self.registry[name], None, args, kwargs, st, e)
        if name == "super":
            return VOpaque("super")
        return self.opaque_call(name, st, e)

    def call_method(self, recv, meth, args, kwargs, st, e):
        abst = self.c.get("abstractions", {})
        if isinstance(recv, VObj):
            key = f"{recv.cls}.{meth}"
            if key in abst:
                self.assumed.append(key)
                return abst[key](self, st, [recv] + args, kwargs, e)
            if key in self.registry:
                return self.call_contract(self.registry[key], recv, args, kwargs, st, e)
            if meth in self.registry and self.registry[meth].get("any_class"):
                return self.call_contract(self.registry[meth], recv, args, kwargs, st, e)
            return self.opaque_call(key, st, e)
        if isinstance(recv, VSeq):
            # mutation of a list: needs the receiver expression to rebind
            tgt = e.func.value
            if meth == "append" and isinstance(args[0], (VKeyed, VOpaque)):
                # a list of unmodelled values: only its length is tracked
                new = VSeq(recv.arr, recv.ln + 1, recv.ek)
                self.assign_target(tgt, new, st)
                return VNone()
            if meth == "append":
                new = VSeq(z3.Store(recv.arr, recv.ln, self.coerce(args[0], recv.ek)), recv.ln + 1, recv.ek)
                if getattr(args[0], "borrowed", False) or getattr(recv, "borrowed", False):
                    new.borrowed = True
                self.assign_target(tgt, new, st)
                return VNone()
            if meth == "extend":
                new = self.seq_binop(ast.Add(), recv, args[0], st)
                self.assign_target(tgt, new, st)
                return VNone()
            if meth == "copy":
                return recv
            if meth == "index":
                k = fresh("idx", INT)
                x = self.coerce(args[0], recv.ek)
                j = fresh("j", INT)
                self.oblige(st, f"index-found@L{self.cur_line}", "index-in-bounds", self.contains(recv, args[0], st))
                st.assume(z3.Implies(self.contains(recv, args[0], st),
                                     z3.And(0 <= k, k < recv.ln, z3.Select(recv.arr, k) == x,
                                            z3.ForAll([j], z3.Implies(z3.And(0 <= j, j < k),
                                                                      z3.Select(recv.arr, j) != x)))))
                return VNum(k)
        key = f"*.{meth}"
        if key in abst:
            self.assumed.append(key)
            return abst[key](self, st, [recv] + args, kwargs, e)
        if isinstance(recv, VOpaque):
            return self.opaque_call(f"{recv.tag}.{meth}", st, e)
        raise Unsupported(f"method .{meth} on {recv}")

    # ---- modular call through a contract
    def call_contract(self, callee, recv, args, kwargs, st, e):
        """Caller side: check requires, havoc the frame, assume ensures (callee BODY is never inlined)."""
        params = [p for p in callee["params"] if p != "self"]
        env = {}
        if recv is not None:
            env["self"] = recv
        for p, a in zip(params, args):
            env[p] = a
        for k_, v_ in kwargs.items():
            env[k_] = v_
        cname = callee["name"]
        site = f"L{self.cur_line}"
        pre_state = st.fork()
        pre_state.env = dict(env)
        # requires (class invariant of receiver is a field property, assumed to hold between calls)
        if not self.spec_mode:
            for i, r in enumerate(callee.get("requires", [])):
                g = self.eval_clause(r, pre_state)
                self.oblige(st, f"pre@call:{cname}#{i}@{site}", "pre@call", g)
        # exceptional exit of callee: caller must exclude it, or the contract lists it as propagating
        for exc, cond in callee.get("raises", {}).items():
            cz = self.eval_clause(cond, pre_state)
            if exc in self.c.get("propagates", ()):
                s_exc = st.fork()
                s_exc.assume(cz)
                self.pending_raises.append((s_exc, exc))
                st.assume(z3.Not(cz))
            else:
                self.oblige(st, f"no-raise:{cname}:{exc}@{site}", "pre@call", z3.Not(cz))
                st.assume(z3.Not(cz))
        # havoc frame
        for m in callee.get("modifies", []):
            obj_name, fld = m.split(".")
            target = env[obj_name]
            kind = self.classes[target.cls]["fields"][fld]
            nv = self.fresh_of_kind(kind, f"{cname}.{fld}'", st)
            if fld in self.classes[target.cls].get("ndarray_fields", ()):
                nv.nd = True
            st.heap[target.ref][fld] = nv
        post_state = st.fork()
        post_state.env = dict(env)
        result = None
        rk = callee.get("returns")
        if rk:
            result = self.fresh_of_kind(rk, f"{cname}.result", st)
        # invariant of receiver re-established by callee
        if recv is not None:
            for inv in self.class_invariant(post_state, recv):
                st.assume(inv)
        for r in callee.get("ensures", []):
            st.assume(self.eval_clause(r, post_state, old=pre_state, result=result))
        for lg in callee.get("ghost_effects", []):
            lg(self, st, env, pre_state)
        return result if result is not None else VNone()

    # ------------------------------------------------------------------ statements
    def bind(self, target, val, st):
        self.assign_target(target, val, st)

    def assign_target(self, t, val, st):
        if isinstance(t, ast.Name):
            lk = self.c.get("local_kinds", {}).get(t.id) if isinstance(getattr(self, "c", None), dict) else None
            if lk and isinstance(val, VSeq) and lk.startswith("seq[") and val.ek != lk[4:-1] \
                    and z3.is_int_value(val.ln) and val.ln.as_long() == 0:
                # an EMPTY list literal bound to a local whose element kind the contract declares
                val = self.seq_from_items([], st, ek=lk[4:-1])
            st.env[t.id] = val
            return
        if isinstance(t, (ast.Tuple, ast.List)):
            if isinstance(val, VTuple) and len(val.items) == len(t.elts):
                for x, v in zip(t.elts, val.items):
                    self.assign_target(x, v, st)
                return
            raise Unsupported("unpacking")
        if isinstance(t, ast.Attribute):
            base = self.eval(t.value, st)
            if isinstance(base, VObj):
                if getattr(val, "borrowed", False):
                    # a field would alias the caller's (mutable) array
                    self.oblige(st, f"frame:alias-of-argument@L{self.cur_line}", "frame", z3.BoolVal(False))
                st.heap[base.ref][t.attr] = val
                return
            raise Unsupported(f"attribute assignment {ast.unparse(t)}")
        if isinstance(t, ast.Subscript):
            base = self.eval(t.value, st)
            sl = t.slice
            if isinstance(base, VMap):
                k = self.num(self.eval(sl, st))
                if isinstance(val, VTuple) and len(val.items) == 2:
                    lo_, hi_, r_ = self.num(val.items[0]), self.num(val.items[1]), z3.BoolVal(True)
                elif isinstance(val, VNum) and val.is_int:
                    lo_, hi_, r_ = val.z, val.z + 1, z3.BoolVal(False)
                else:
                    raise Unsupported("map value")
                new = VMap(z3.Store(base.has, k, z3.BoolVal(True)), z3.Store(base.lo, k, lo_), z3.Store(base.hi, k, hi_),
                           z3.Store(base.isr, k, r_))
                self.assign_target(t.value, new, st)
                return
            if isinstance(base, VSeq):
                if isinstance(sl, ast.Tuple) and len(sl.elts) == 2 and isinstance(sl.elts[1], ast.Slice) \
                        and sl.elts[1].lower is None and sl.elts[1].upper is None:
                    sl = sl.elts[0]
                if isinstance(sl, ast.Slice):
                    lo, hi = self.slice_bounds(sl, base.ln, st)
                    if not isinstance(val, VSeq):
                        raise Unsupported("slice assignment of non-sequence")
                    # numpy semantics: shapes must agree
                    self.oblige(st, f"slice-shape@L{self.cur_line}", "index-in-bounds",
                                z3.If(hi > lo, hi - lo, 0) == val.ln)
                    new = fresh("sliceset", base.arr.sort())
                    k = fresh("k", INT)
                    st.assume(z3.ForAll([k], z3.Select(new, k) == z3.If(z3.And(lo <= k, k < hi),
                                                                         z3.Select(val.arr, k - lo),
                                                                         z3.Select(base.arr, k)),
                                        patterns=[z3.Select(new, k)]))
                    nv = VSeq(new, base.ln, base.ek)
                    nv.nd = getattr(base, "nd", False)
                    self.assign_target(t.value, nv, st)
                    return
                i = self.num(self.eval(sl, st))
                self.oblige(st, f"index-in-bounds@L{self.cur_line}", "index-in-bounds",
                            z3.And(-base.ln <= i, i < base.ln))
                new = VSeq(z3.Store(base.arr, self.norm_index(i, base.ln, st), self.coerce(val, base.ek)), base.ln, base.ek)
                new.nd = getattr(base, "nd", False)
                if getattr(val, "borrowed", False) and not new.nd:
                    new.borrowed = True        # a python list now holds a reference to the caller's array
                self.assign_target(t.value, new, st)
                return
            if isinstance(base, VOpaque) and self.c.get("unknown_calls") == "opaque":
                # a store into an unmodelled container (dict of generated arguments, ...): only counted as an effect
                if not self.spec_mode:
                    cur = st.ghost.get("effects", VNum(z3.IntVal(0)))
                    st.ghost["effects"] = VNum(cur.z + 1)
                    self.assumed.append(f"store into unmodelled container {ast.unparse(t.value)}")
                return
            raise Unsupported(f"subscript assignment {ast.unparse(t)}")
        raise Unsupported(f"assignment target {ast.unparse(t)}")

    def exec_block(self, stmts, st):
        """Yield (state, signal) for every path through stmts. signal None = fell through."""
        if not stmts:
            yield st, None
            return
        head, rest = stmts[0], stmts[1:]
        for s2, sig in self.exec_stmt(head, st):
            if sig is None:
                yield from self.exec_block(rest, s2)
            else:
                yield s2, sig

    def feasible(self, st, extra):
        s = z3.Solver()
        s.set("rlimit", 800000)        # deterministic; `unknown` keeps the branch (sound: more paths, never fewer)
        s.set("timeout", 10000)
        s.add(*[h for h in st.pc if not z3.is_quantifier(h)])
        s.add(extra)
        return s.check() != z3.unsat

    def exec_stmt(self, s, st):
        self.cur_line = getattr(s, "lineno", self.cur_line)
        self.pending_raises = []
        m = getattr(self, "s_" + type(s).__name__, None)
        if m is None:
            raise Unsupported(f"statement {type(s).__name__}: {ast.unparse(s)[:80]}")
        if isinstance(s, (ast.Expr, ast.Assign, ast.AugAssign, ast.AnnAssign, ast.Return)):
            # simple statements: evaluate eagerly so that exceptional exits of contract calls made while
            # evaluating the statement are collected before anything later runs
            outs = list(m(s, st))
            pend, self.pending_raises = self.pending_raises, []
            for s_exc, exc in pend:
                yield s_exc, ("raise", exc)
            for out in outs:
                yield out
            return
        for out in m(s, st):
            yield out

    def s_Pass(self, s, st):
        yield st, None

    def s_FunctionDef(self, s, st):
        v = VOpaque(f"closure:{s.name}")
        v.node = s           # the body is only ever executed through a higher-order abstraction with its own contract (lax_scan)
        st.env[s.name] = v
        yield st, None

    def s_Import(self, s, st):
        yield st, None

    def s_ImportFrom(self, s, st):
        for a in s.names:
            st.env.setdefault(a.asname or a.name, VConst(a.asname or a.name))
        yield st, None

    def s_Expr(self, s, st):
        self.eval(s.value, st)
        yield st, None

    def s_Assign(self, s, st):
        v = self.eval(s.value, st)
        for t in s.targets:
            self.assign_target(t, v, st)
        yield st, None

    def s_AnnAssign(self, s, st):
        if s.value is not None:
            self.assign_target(s.target, self.eval(s.value, st), st)
        yield st, None

    def s_AugAssign(self, s, st):
        cur = self.eval(s.target, st)
        v = self.binop(s.op, cur, self.eval(s.value, st), st)
        self.assign_target(s.target, v, st)
        yield st, None

    def s_Return(self, s, st):
        v = self.eval(s.value, st) if s.value is not None else VNone()
        yield st, ("return", v)

    def s_Raise(self, s, st):
        exc = s.exc
        name = None
        if isinstance(exc, ast.Call):
            exc = exc.func
        if isinstance(exc, ast.Name):
            name = exc.id
        elif isinstance(exc, ast.Attribute):
            name = exc.attr
        if name is None:
            raise Unsupported("re-raise")
        yield st, ("raise", name)

    def s_Assert(self, s, st):
        c = self.truth(self.eval(s.test, st))
        bad = st.fork(); bad.assume(z3.Not(c))
        if self.feasible(st, z3.Not(c)):
            yield bad, ("raise", "AssertionError")
        st.assume(c)
        yield st, None

    def s_If(self, s, st):
        c = self.truth(self.eval(s.test, st))
        c = z3.simplify(c)
        if not z3.is_false(c) and self.feasible(st, c):
            a = st.fork(); a.assume(c); a.trace.append(f"L{s.lineno}:then")
            yield from self.exec_block(s.body, a)
        nc = z3.simplify(z3.Not(c))
        if not z3.is_false(nc) and self.feasible(st, nc):
            b = st.fork(); b.assume(nc); b.trace.append(f"L{s.lineno}:else")
            yield from self.exec_block(s.orelse, b)

    def s_Try(self, s, st):
        if s.finalbody or s.orelse:
            raise Unsupported("try/finally, try/else")
        for s2, sig in self.exec_block(s.body, st):
            if sig and sig[0] == "raise":
                handled = False
                for h in s.handlers:
                    names = []
                    if h.type is None:
                        names = None
                    elif isinstance(h.type, ast.Tuple):
                        names = [ast.unparse(x).split(".")[-1] for x in h.type.elts]
                    else:
                        names = [ast.unparse(h.type).split(".")[-1]]
                    if names is None or sig[1] in names or "Exception" in names:
                        handled = True
                        yield from self.exec_block(h.body, s2)
                        break
                if not handled:
                    yield s2, sig
            else:
                yield s2, sig

    # ---- loops
    def loop_spec(self, node=None):
        # loops are numbered in order of first encounter of their AST node (a loop reached on several paths keeps its number)
        if node is not None:
            if not hasattr(self, "_loop_ids"):
                self._loop_ids = {}
            if id(node) in self._loop_ids:
                idx = self._loop_ids[id(node)]
            else:
                idx = self._loop_ids[id(node)] = len(self._loop_ids)
            self.loop_counter = max(self.loop_counter, idx + 1)
        else:
            idx = self.loop_counter
            self.loop_counter += 1
        spec = self.c.get("loops", {}).get(idx)
        if spec is None:
            raise Unsupported(f"loop #{idx} has no invariant in the contract")
        return idx, spec

    def havoc(self, st, names, fields):
        for n in names:
            if n in st.env:
                st.env[n] = self.havoc_value(st.env[n], n, st)
        for (o, f) in fields:
            if o in st.env and isinstance(st.env[o], VObj):
                ref = st.env[o].ref
                if f in st.heap[ref]:
                    st.heap[ref][f] = self.havoc_value(st.heap[ref][f], f"{o}.{f}", st)
        for g in list(st.ghost):
            if g in getattr(self, "_loop_ghosts", ()) or g.startswith("calls_"):
                st.ghost[g] = self.havoc_value(st.ghost[g], g, st)

    def havoc_value(self, v, name, st):
        if isinstance(v, VNum):
            return VNum(fresh(name, v.z.sort()))
        if isinstance(v, VStr):
            return VStr(fresh(name, STR))
        if isinstance(v, VSeq):
            ln = fresh(name + ".len", INT)
            st.assume(ln >= 0)
            nv = VSeq(fresh(name, v.arr.sort()), ln, v.ek)
            nv.nd = getattr(v, "nd", False)
            return nv
        if isinstance(v, VMap):
            return VMap(fresh(name + ".has", v.has.sort()), fresh(name + ".lo", v.lo.sort()), fresh(name + ".hi", v.hi.sort()),
                        fresh(name + ".isr", v.isr.sort()))
        if isinstance(v, VKeyed):
            return v
        if isinstance(v, VTuple):
            return VTuple([self.havoc_value(x, f"{name}.{i}", st) for i, x in enumerate(v.items)])
        if isinstance(v, VObj):
            for f, fv in list(st.heap[v.ref].items()):
                st.heap[v.ref][f] = self.havoc_value(fv, f"{name}.{f}", st)
            return v
        if isinstance(v, (VNone, VOpaque, VConst, VFn)):
            return VOpaque(name) if isinstance(v, VNone) else v
        raise Unsupported(f"havoc {v}")

    def objects_in(self, st):
        out = []

        def rec(v):
            if isinstance(v, VObj):
                if v.ref in st.heap and all(o.ref != v.ref for o in out):
                    out.append(v)
            elif isinstance(v, VTuple):
                for x in v.items:
                    rec(x)
        for v in st.env.values():
            rec(v)
        return out

    def check_invs(self, st, spec, idx, phase, counter_name, counter_val, entry):
        env = {counter_name: VNum(counter_val)} if counter_name else {}
        for j, inv in enumerate(spec.get("invariant", [])):
            g = self.eval_clause(inv, st, env, old=entry)
            self.oblige(st, f"loop{idx}.{phase}#{j}", f"loop.{phase}", g)
        # class invariants of every live object are implicit loop invariants
        for o in self.objects_in(st):
            if self.c.get("constructor") and st.env.get("self") is o:
                continue
            for j, inv in enumerate(self.classes.get(o.cls, {}).get("invariant", [])):
                g = self.eval_clause(inv, st, {"self": o})
                self.oblige(st, f"loop{idx}.{phase}.classinv#{j}:{o.cls}", f"loop.{phase}", g)

    def assume_invs(self, st, spec, counter_name, counter_val, entry):
        env = {counter_name: VNum(counter_val)} if counter_name else {}
        for o in self.objects_in(st):
            if self.c.get("constructor") and st.env.get("self") is o:
                continue
            for inv in self.class_invariant(st, o):
                st.assume(inv)
        for inv in spec.get("invariant", []):
            st.assume(self.eval_clause(inv, st, env, old=entry))

    def apply_lemmas(self, st, spec, idx, env, entry):
        """Arithmetic lemmas: each is FIRST proved as its own obligation with no hypotheses at all (so it is a
        valid fact about integers/reals), THEN assumed.  They only help the solver; nothing is taken on trust."""
        for j, text in enumerate(spec.get("lemmas", [])):
            g = self.eval_clause(text, st, env, old=entry)
            ob = Obligation(f"{self.prefix}/loop{idx}.lemma#{j}", "lemma", [], g, self.cur_line, st.trace)
            self.obligations.append(ob)
            st.assume(g)
        # ground instances of the spec-function axioms at the loop counter: each is proved from the AXIOMS ALONE (plus the
        # counter's range), then assumed — it spares the solver the quantifier instantiation inside the big obligations
        rng = [h for h in st.pc if any(str(v.z) in str(h) for v in env.values() if isinstance(v, VNum))][:1]
        for j, text in enumerate(spec.get("axiom_instances", [])):
            g = self.eval_clause(text, st, env, old=entry)
            ob = Obligation(f"{self.prefix}/loop{idx}.axiom-instance#{j}", "lemma", list(self.axioms) + rng, g, self.cur_line, st.trace)
            self.obligations.append(ob)
            st.assume(g)

    def s_For(self, s, st):
        if s.orelse:
            raise Unsupported("for/else")
        idx, spec = self.loop_spec(s)
        it = self.eval(s.iter, st)
        cname = spec.get("counter", f"it{idx}")
        if spec.get("unroll"):
            # a loop over a sequence whose length is a literal constant: executed iteration by iteration (complete, no invariant)
            if isinstance(it, VTuple):
                items = list(it.items)
            elif isinstance(it, VSeq) and is_const_int(z3.simplify(it.ln)) and z3.simplify(it.ln).as_long() <= 32:
                items = [wrap(z3.simplify(z3.Select(it.arr, j))) if it.ek != "str" else VStr(z3.simplify(z3.Select(it.arr, j)))
                         for j in range(z3.simplify(it.ln).as_long())]
            else:
                raise Unsupported("unroll needs an iterable of literal length")
            states = [st]
            for item in items:
                nxt = []
                for s0 in states:
                    self.assign_target(s.target, item, s0)
                    for s2, sig in self.exec_block(s.body, s0):
                        if sig is None or sig == ("continue",):
                            nxt.append(s2)
                        elif sig == ("break",):
                            raise Unsupported("break")
                        else:
                            yield s2, sig
                states = nxt
            for s0 in states:
                yield s0, None
            return
        # iteration count and per-iteration binding
        if isinstance(it, VRange):
            n = z3.simplify(z3.If(it.hi > it.lo, it.hi - it.lo, 0))
            bind = lambda k, s_: self.assign_target(s.target, VNum(z3.simplify(it.lo + k)), s_)
        elif isinstance(it, VSeq):
            n = it.ln
            bind = lambda k, s_: self.assign_target(s.target, wrap(z3.Select(it.arr, k)), s_)
        elif isinstance(it, VTuple):
            raise Unsupported("for over tuple literal")
        elif isinstance(it, VIter) and it.kind == "enumerate":
            seq = it.parts[0]
            if isinstance(seq, VSeq):
                n = seq.ln
                bind = lambda k, s_: self.assign_target(s.target, VTuple([VNum(k), wrap(z3.Select(seq.arr, k))]), s_)
            elif isinstance(seq, VOpaque) or isinstance(seq, VTuple) and False:
                raise Unsupported("enumerate over opaque")
            else:
                raise Unsupported("enumerate iterable")
        elif isinstance(it, VIter) and it.kind == "keyed-items":
            n = self.num(it.parts[0])
            bind = lambda k, s_: self.assign_target(s.target, VTuple([VNum(k), VKeyed("value", k)]), s_)
        elif isinstance(it, VIter) and it.kind == "zip":
            seqs = it.parts
            if not all(isinstance(q, VSeq) for q in seqs):
                raise Unsupported("zip iterable")
            n = seqs[0].ln
            for q in seqs[1:]:
                n = z3.If(q.ln < n, q.ln, n)
            bind = lambda k, s_: self.assign_target(s.target, VTuple([wrap(z3.Select(q.arr, k)) for q in seqs]), s_)
        else:
            raise Unsupported(f"for over {it}")
        entry = st.fork()
        entry._old = getattr(st, "_old", None)
        # ghost initialisation
        for g, init in spec.get("ghost", {}).items():
            st.ghost[g] = self.eval(ast.parse(init, mode="eval").body, st)
            self._loop_ghosts = set(getattr(self, "_loop_ghosts", ())) | {g}
        # init
        self.check_invs(st, spec, idx, "init", cname, z3.IntVal(0), entry)
        names, fields = assigned_names(s.body)
        tnames, _ = assigned_names([ast.Assign(targets=[s.target], value=ast.Constant(0))])
        # arbitrary iteration
        body_st = st.fork()
        self.havoc(body_st, names | tnames, fields)
        k = fresh(cname, INT)
        body_st.assume(z3.And(0 <= k, k < n))
        self.assume_invs(body_st, spec, cname, k, entry)
        bind(k, body_st)
        self.apply_lemmas(body_st, spec, idx, {cname: VNum(k)}, entry)
        self.canaries.append((f"loop{idx}.head", self.axioms + list(body_st.pc)))
        body_st.trace.append(f"L{s.lineno}:loop{idx}.body")
        saved_counter = self.loop_counter
        for s2, sig in self.exec_block(s.body, body_st):
            self.loop_counter = saved_counter
            if sig is None or sig == ("continue",):
                for gstep in spec.get("ghost_step", []):
                    for stmt in ast.parse(gstep).body:
                        for _ in self.exec_ghost(stmt, s2):
                            pass
                self.cur_line = s.lineno
                self.check_invs(s2, spec, idx, "preserve", cname, k + 1, entry)
            elif sig == ("break",):
                # leaves the loop from an arbitrary iteration: execution continues after the loop in THIS state
                s2.trace.append(f"L{s.lineno}:loop{idx}.break")
                self.loop_counter = max(self.loop_counter, saved_counter)
                yield s2, None
            else:
                yield s2, sig
        # after the loop
        after = st
        self.havoc(after, names | tnames, fields)
        kend = fresh(cname + ".end", INT)
        after.assume(kend == n)
        self.assume_invs(after, spec, cname, kend, entry)
        after.trace.append(f"L{s.lineno}:loop{idx}.exit")
        self.loop_counter = max(self.loop_counter, saved_counter)
        yield after, None

    def exec_ghost(self, stmt, st):
        # ghost statements operate on st.ghost
        class G(ast.NodeVisitor):
            pass
        if isinstance(stmt, ast.Assign):
            v = self.eval(stmt.value, st)
            t = stmt.targets[0]
            if isinstance(t, ast.Name):
                st.ghost[t.id] = v
            elif isinstance(t, ast.Tuple) and isinstance(v, VTuple):
                for x, y in zip(t.elts, v.items):
                    st.ghost[x.id] = y
            else:
                raise Unsupported("ghost assignment")
            yield st
        else:
            raise Unsupported("ghost statement")

    def s_While(self, s, st):
        if s.orelse:
            raise Unsupported("while/else")
        idx, spec = self.loop_spec(s)
        entry = st.fork()
        entry._old = getattr(st, "_old", None)
        self.check_invs(st, spec, idx, "init", None, None, entry)
        names, fields = assigned_names(s.body)
        body_st = st.fork()
        self.havoc(body_st, names, fields)
        self.assume_invs(body_st, spec, None, None, entry)
        c = self.truth(self.eval(s.test, body_st))
        body_st.assume(c)
        dec0 = None
        if "decreases" in spec:
            dec0 = self.num(self.eval(ast.parse(spec["decreases"], mode="eval").body, body_st))
        saved_counter = self.loop_counter
        for s2, sig in self.exec_block(s.body, body_st):
            self.loop_counter = saved_counter
            if sig is None or sig == ("continue",):
                self.cur_line = s.lineno
                self.check_invs(s2, spec, idx, "preserve", None, None, entry)
                if dec0 is not None:
                    dec1 = self.num(self.eval(ast.parse(spec["decreases"], mode="eval").body, s2))
                    self.oblige(s2, f"loop{idx}.decreases", "loop.decreases", z3.And(dec0 >= 0, dec1 < dec0))
            elif sig == ("break",):
                raise Unsupported("break")
            else:
                yield s2, sig
        after = st
        self.havoc(after, names, fields)
        self.assume_invs(after, spec, None, None, entry)
        after.assume(z3.Not(self.truth(self.eval(s.test, after))))
        yield after, None

    def s_Continue(self, s, st):
        yield st, ("continue",)

    def s_Break(self, s, st):
        yield st, ("break",)
