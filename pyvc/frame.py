"""Frame (ownership) contracts on the real functions: "this call changes nothing that belongs to <roots>".

A frame contract names, for one function of the repository (extracted from the CURRENT source on every run, like every other
pyvc target), the roots it may modify (`modifies`), the roots it must leave alone (everything else that is reachable from a
parameter, from `self`, or from a declared shared region), the callees it relies on (their own frame summaries: what they may
mutate and what their result aliases) and, optionally, statements that MUST be present (`must_call`).

The obligations are generated from the AST, one per site:

  frame:mutation@L<line>      an attribute / subscript store, an in-place operator, `del`, or a call of a mutating method
                              (append, update, pop, ...) whose receiver may belong to a root outside `modifies`
  frame:call@L<line>          a call of a function with a frame summary that mutates an argument position holding such a value
  frame:result@L<line>        (when the contract has `result_not_aliasing`) a returned value that may alias one of these roots
  frame:must-call#<k>         a required unconditional statement (e.g. `self._state_var_values.clear()`) is present

and discharged by an ownership analysis (abstract interpretation of the function body, flow sensitive, joins at merges, loops to
a fix point) — no SMT is involved, the "back end" is named `ownership-typing` in the evidence.

Ownership of a value:  FRESH (it and everything reachable from it was created in this call),
                       SHALLOW(R) (the container was created in this call, its elements belong to the roots R),
                       BORROWED(R) (the object belongs to the roots R).
Roots are parameter names (`self`, `values`, ...), `global:<name>` for module-level objects, and region names declared by the
contract for access paths (e.g. `self.nodes[]` -> `templates`: the NodeTemplate objects a circuit holds may be shared with other
circuits, so mutating one is not "modifying self").

Verdicts: `discharged`; `refuted` — a definite mutation / alias site outside the frame (reported as a violation; there is no
input to replay, the bounded families of the check provide one where they can); `undecided` — the function calls something the
contract has no summary for while handing it a value that is not fresh (never reported as a violation: the bounded families
decide, evidence note `degraded-to-bounded`).

What the analysis assumes (listed as trusted in the evidence): the summaries of the callees named in the contract (`pure`,
`callees`), Python's builtin containers behave as documented (dict(x) / list(x) / x.copy() copy one level, deepcopy copies all
levels), mutation happens only through the constructs listed above (no setattr / __dict__ / exec), constructors store their
arguments without mutating them unless a summary says otherwise."""
import ast

from . import extract as X

FRESH, SHALLOW, BORROWED = 0, 1, 2

MUTATORS = {"append", "extend", "pop", "update", "clear", "insert", "remove", "add", "sort", "reverse", "setdefault", "popitem",
            "discard", "difference_update", "intersection_update", "symmetric_difference_update", "appendleft", "popleft"}
# builtins / methods that neither mutate their arguments nor return an alias of more than their elements
COPY1 = {"dict", "list", "set", "tuple", "sorted", "frozenset", "reversed", "enumerate", "zip", "copy", "copy.copy", "iter", "filter", "map"}
COPY1_METHODS = {"copy", "items", "keys", "values"}
DEEP = {"deepcopy", "copy.deepcopy"}
ATOMIC = {"len", "isinstance", "issubclass", "type", "str", "int", "float", "bool", "complex", "hasattr", "repr", "hash", "id", "abs", "round", "range",
          "any", "all", "sum", "print", "callable", "format", "ord", "chr", "divmod", "warn", "PyRatesWarning", "PyRatesException", "ValueError",
          "TypeError", "KeyError", "NotImplementedError", "IndexError", "AttributeError", "RuntimeError"}
ELEMENT = {"min", "max", "next", "getattr"}
ATOMIC_METHODS = {"split", "rsplit", "join", "startswith", "endswith", "strip", "lstrip", "rstrip", "replace", "format", "lower", "upper", "find", "index",
                  "count", "encode", "decode", "isdigit", "isidentifier", "__contains__", "splitlines", "partition", "rpartition", "zfill", "title",
                  "tolist", "astype", "flatten", "squeeze", "reshape", "sum", "mean", "any", "all", "item"}
ELEMENT_METHODS = {"get"}


class Own:
    __slots__ = ("lvl", "roots", "path", "fields")

    def __init__(self, lvl=FRESH, roots=(), path=None, fields=None):
        self.lvl = lvl
        self.roots = frozenset(roots)
        self.path = path
        self.fields = fields          # dict literal with constant keys, created here: key -> ownership of the value

    def __repr__(self):
        return {0: "FRESH", 1: "SHALLOW", 2: "BORROWED"}[self.lvl] + (f"{sorted(self.roots)}" if self.roots else "")

    def key(self):
        return (self.lvl, self.roots, self.path, tuple(sorted((k, v.key()) for k, v in self.fields.items())) if self.fields else None)


def join(a, b):
    if a is None:
        return b
    if b is None:
        return a
    fields = None
    if a.fields is not None and b.fields is not None and set(a.fields) == set(b.fields):
        fields = {k: join(a.fields[k], b.fields[k]) for k in a.fields}
    return Own(max(a.lvl, b.lvl), a.roots | b.roots, a.path if a.path == b.path else None, fields)


def elem_of(o, regions=None, path=None):
    """ownership of an element / attribute of a value with ownership o"""
    if path is not None and regions and path in regions:
        return Own(BORROWED, {regions[path]}, path)
    if o.lvl == FRESH:
        return Own(FRESH, (), path)
    return Own(BORROWED, o.roots, path)


def container_of(items):
    """a container created here that holds values with the given ownerships"""
    roots = set()
    for o in items:
        if o is not None and o.lvl != FRESH:
            roots |= o.roots
    return Own(SHALLOW, roots) if roots else Own(FRESH)


class Obligation:
    def __init__(self, name, status, line, text, reason=""):
        self.name, self.status, self.line, self.text, self.reason = name, status, line, text, reason

    def as_dict(self):
        return dict(name=self.name, kind="frame", status=self.status, backend="ownership-typing", seconds=0.0, lineno=self.line,
                    goal=self.text, model=None, reason=self.reason)


class FrameChecker(ast.NodeVisitor):
    def __init__(self, contract, fn, module):
        self.c = contract
        self.fn = fn
        self.module = module
        self.modifies = set(contract.get("modifies", []))
        self.regions = dict(contract.get("regions", {}))
        self.pure = set(contract.get("pure", []))
        self.callees = dict(contract.get("callees", {}))
        self.const = dict(contract.get("const_params", {}))
        self.constructors = set(contract.get("constructors", []))
        self.obl = {}
        self.returns = []
        self.globals_mut = self._module_level_names(module)
        self.local_funcs = {}
        self.no_flow = dict(contract.get("stores_not_flowing", {}))     # access path prefix -> roots that must not reach a store there

    # ------------------------------------------------------------------ helpers
    @staticmethod
    def _module_level_names(module):
        out = set()
        for st in module.body:
            if isinstance(st, ast.Assign):
                for t in st.targets:
                    if isinstance(t, ast.Name) and isinstance(st.value, (ast.Dict, ast.List, ast.Set, ast.Call, ast.DictComp, ast.ListComp)):
                        out.add(t.id)
            elif isinstance(st, ast.AnnAssign) and isinstance(st.target, ast.Name) and st.value is not None:
                out.add(st.target.id)
        return out

    def record(self, kind, node, status, reason=""):
        line = getattr(node, "lineno", 0)
        try:
            text = ast.unparse(node).split("\n")[0][:160]
        except Exception:
            text = "?"
        name = f"{self.c['name']}/frame:{kind}@L{line}:{text[:60]}"
        prev = self.obl.get(name)
        rank = {"discharged": 0, "undecided": 1, "refuted": 2}
        if prev is None or rank[status] > rank[prev.status]:
            self.obl[name] = Obligation(name, status, line, text, reason)

    def allowed(self, o):
        """may a value with ownership o be mutated by this function?"""
        if o.lvl in (FRESH, SHALLOW):
            return True
        return all(self._root_allowed(r, o.path) for r in o.roots)

    def _root_allowed(self, r, path):
        if r in self.modifies:
            return True
        if path:
            # field-level permission, e.g. modifies=['self._ir']: the path (or a prefix of it) is listed
            p = path
            while p:
                if p in self.modifies:
                    return True
                p2 = p.rsplit(".", 1)[0] if "." in p and not p.endswith("]") else (p[:-2] if p.endswith("[]") else "")
                if p2 == p:
                    break
                p = p2
        return False

    def mutate(self, node, o, what="mutation"):
        if o is None:
            return
        if self.allowed(o):
            self.record(what, node, "discharged")
        else:
            bad = sorted(r for r in o.roots if not self._root_allowed(r, o.path))
            self.record(what, node, "refuted", f"may modify state owned by {bad}" + (f" (path {o.path})" if o.path else ""))

    # ------------------------------------------------------------------ expressions
    def path_of(self, e):
        if isinstance(e, ast.Name):
            return e.id
        if isinstance(e, ast.Attribute):
            p = self.path_of(e.value)
            return f"{p}.{e.attr}" if p else None
        if isinstance(e, ast.Subscript):
            p = self.path_of(e.value)
            return f"{p}[]" if p else None
        return None

    def ev(self, e, env):
        m = getattr(self, "e_" + type(e).__name__, None)
        if m is None:
            for ch in ast.iter_child_nodes(e):
                if isinstance(ch, ast.expr):
                    self.ev(ch, env)
            return Own(FRESH)
        return m(e, env)

    def e_Constant(self, e, env):
        return Own(FRESH)

    def e_JoinedStr(self, e, env):
        for v in e.values:
            self.ev(v, env)
        return Own(FRESH)

    def e_FormattedValue(self, e, env):
        self.ev(e.value, env)
        return Own(FRESH)

    def e_Name(self, e, env):
        if e.id in env:
            return env[e.id]
        if e.id in self.globals_mut:
            return Own(BORROWED, {f"global:{e.id}"}, e.id)
        return Own(FRESH)          # builtins, imported functions / classes, constants

    def e_Attribute(self, e, env):
        base = self.ev(e.value, env)
        p = self.path_of(e)
        out = elem_of(base, self.regions, p)
        if out.path is None:
            out = Own(out.lvl, out.roots, p)
        return out

    def e_Subscript(self, e, env):
        base = self.ev(e.value, env)
        self.ev(e.slice, env)
        if base.fields is not None and isinstance(e.slice, ast.Constant) and e.slice.value in base.fields:
            return base.fields[e.slice.value]
        p = self.path_of(e)
        out = elem_of(base, self.regions, p)
        if out.path is None:
            out = Own(out.lvl, out.roots, p)
        return out

    def e_Starred(self, e, env):
        return self.ev(e.value, env)

    def e_Tuple(self, e, env):
        return container_of([self.ev(x, env) for x in e.elts])

    e_List = e_Set = e_Tuple

    def e_Dict(self, e, env):
        vals = [self.ev(x, env) for x in e.values]
        keys = [self.ev(x, env) if x is not None else None for x in e.keys]
        out = container_of([v for v in vals] + [k for k in keys if k is not None])
        if e.keys and all(isinstance(k, ast.Constant) for k in e.keys):
            out = Own(out.lvl, out.roots, None, {k.value: v for k, v in zip(e.keys, vals)})
        return out

    def _comp(self, e, env, elts):
        env2 = dict(env)
        for g in e.generators:
            it = self.ev(g.iter, env2)
            self.bind(g.target, elem_of(it), env2)
            for c in g.ifs:
                self.ev(c, env2)
        return container_of([self.ev(x, env2) for x in elts])

    def e_ListComp(self, e, env):
        return self._comp(e, env, [e.elt])

    e_SetComp = e_GeneratorExp = e_ListComp

    def e_DictComp(self, e, env):
        return self._comp(e, env, [e.key, e.value])

    def e_BinOp(self, e, env):
        a, b = self.ev(e.left, env), self.ev(e.right, env)
        return container_of([elem_of(a) if a.lvl != FRESH else a, elem_of(b) if b.lvl != FRESH else b])

    def e_BoolOp(self, e, env):
        out = None
        for v in e.values:
            out = join(out, self.ev(v, env))
        return out

    def e_UnaryOp(self, e, env):
        self.ev(e.operand, env)
        return Own(FRESH)

    def e_Compare(self, e, env):
        self.ev(e.left, env)
        for c in e.comparators:
            self.ev(c, env)
        return Own(FRESH)

    def e_IfExp(self, e, env):
        k = self.const_test(e.test)
        self.ev(e.test, env)
        if k is True:
            return self.ev(e.body, env)
        if k is False:
            return self.ev(e.orelse, env)
        return join(self.ev(e.body, env), self.ev(e.orelse, env))

    def e_Lambda(self, e, env):
        return Own(FRESH)

    def e_NamedExpr(self, e, env):
        v = self.ev(e.value, env)
        self.bind(e.target, v, env)
        return v

    def e_Await(self, e, env):
        return self.ev(e.value, env)

    def dotted(self, f):
        if isinstance(f, ast.Name):
            return f.id
        if isinstance(f, ast.Attribute):
            b = self.dotted(f.value)
            return f"{b}.{f.attr}" if b else None
        return None

    def e_Call(self, e, env):
        args = [self.ev(a, env) for a in e.args]
        kwargs = {k.arg: self.ev(k.value, env) for k in e.keywords}
        allargs = args + list(kwargs.values())
        name = self.dotted(e.func)
        # ---- method call
        if isinstance(e.func, ast.Attribute):
            recv = self.ev(e.func.value, env)
            meth = e.func.attr
            full = name or f"?.{meth}"
            summ = self.callees.get(full) or self.callees.get(f"*.{meth}")
            if summ is not None:
                return self.apply_summary(e, summ, recv, args, kwargs)
            if full in DEEP:
                return Own(FRESH)
            if full in COPY1:
                return container_of([elem_of(a) for a in allargs])
            if meth in MUTATORS and full not in self.pure:
                self.mutate(e, recv)
                # the receiver now also holds the arguments
                if isinstance(e.func.value, ast.Name) and recv.lvl != BORROWED:
                    env[e.func.value.id] = container_of([Own(SHALLOW, recv.roots)] + [a for a in allargs]) if recv.lvl == SHALLOW or any(
                        a.lvl != FRESH for a in allargs) else recv
                if meth in ("pop", "setdefault", "popitem", "popleft"):
                    out = elem_of(recv)
                    for a in allargs[1:]:
                        out = join(out, a)
                    return out
                return Own(FRESH)
            if meth in COPY1_METHODS:
                return container_of([elem_of(recv)])
            if meth in ELEMENT_METHODS:
                out = elem_of(recv)
                for a in allargs[1:]:
                    out = join(out, a)
                return out
            if meth in ATOMIC_METHODS:
                return Own(FRESH)
            if full in self.pure or f"*.{meth}" in self.pure:
                out = Own(FRESH)            # does not mutate; the result may alias the receiver / the arguments
                for a in [recv] + allargs:
                    out = join(out, Own(BORROWED, a.roots) if a.lvl != FRESH else a)
                return out
            if full in self.constructors or (isinstance(e.func.value, ast.Name) and e.func.value.id == "self" and meth == "__class__"):
                return container_of(allargs)
            # unknown method
            nonfresh = [a for a in [recv] + allargs if a.lvl != FRESH and not self.allowed(Own(BORROWED, a.roots, a.path))]
            if nonfresh:
                self.record("call", e, "undecided", f"no frame summary for `{full}` which receives values owned by "
                                                    f"{sorted(set().union(*[a.roots for a in nonfresh]))}")
            out = Own(FRESH)
            for a in [recv] + allargs:
                out = join(out, Own(BORROWED, a.roots) if a.lvl != FRESH else a)
            return out
        # ---- plain call
        if name is None:
            # call of a call result etc. (e.g. self.__class__(...))
            f_own = self.ev(e.func, env)
            if isinstance(e.func, ast.Attribute):
                pass
            return container_of(allargs)
        summ = self.callees.get(name)
        if summ is not None:
            return self.apply_summary(e, summ, None, args, kwargs)
        if name in self.local_funcs:
            out = self.local_funcs[name]
            # parameters of the helper stand for the arguments
            roots = set(r for r in out.roots if not r.startswith(name + "."))
            lvl = out.lvl
            for a in allargs:
                if a.lvl != FRESH and any(r.startswith(name + ".") for r in out.roots):
                    roots |= a.roots
                    lvl = max(lvl, BORROWED)
            return Own(lvl, roots)
        if name in DEEP:
            return Own(FRESH)
        if name in COPY1:
            return container_of([elem_of(a) for a in allargs])
        if name in ATOMIC:
            return Own(FRESH)
        if name in ELEMENT:
            out = Own(FRESH)
            for a in allargs:
                out = join(out, elem_of(a) if a.lvl != FRESH else a)
            return out
        if name in self.pure:
            out = Own(FRESH)
            for a in allargs:
                out = join(out, Own(BORROWED, a.roots) if a.lvl != FRESH else a)
            return out
        if name in self.constructors or (name[:1].isupper() and name not in env):
            return container_of(allargs)
        nonfresh = [a for a in allargs if a.lvl != FRESH and not self.allowed(Own(BORROWED, a.roots, a.path))]
        if nonfresh:
            self.record("call", e, "undecided", f"no frame summary for `{name}` which receives values owned by "
                                                f"{sorted(set().union(*[a.roots for a in nonfresh]))}")
        out = Own(FRESH)
        for a in allargs:
            out = join(out, Own(BORROWED, a.roots) if a.lvl != FRESH else a)
        return out

    def apply_summary(self, e, summ, recv, args, kwargs):
        """summ = dict(mutates=[<'self' | positional index | keyword name>], returns='fresh'|'shallow'|'alias'|'elements')"""
        pos = dict(enumerate(args))
        if summ.get("via_contract"):
            # the receiver is changed ONLY through a method that has its own (SMT) contract, named by the summary: that effect is the
            # callee's business and is allowed; every other store into the object stays an obligation of this frame
            self.record("call", e, "discharged")
            return Own(FRESH)
        for m in summ.get("mutates", []):
            tgt = recv if m == "self" else pos.get(m) if isinstance(m, int) else kwargs.get(m)
            if tgt is None and isinstance(m, str) and m != "self" and "params" in summ and m in summ["params"]:
                tgt = pos.get(summ["params"].index(m))
            if tgt is not None:
                self.mutate(e, tgt, what="call")
        if not summ.get("mutates"):
            self.record("call", e, "discharged")
        r = summ.get("returns", "alias")
        everything = ([recv] if recv is not None else []) + args + list(kwargs.values())
        if r == "fresh":
            return Own(FRESH)
        if r == "shallow":
            return container_of([elem_of(a) for a in everything])
        if r == "elements":
            out = Own(FRESH)
            for a in everything:
                out = join(out, elem_of(a) if a.lvl != FRESH else a)
            return out
        if r == "receiver":
            return elem_of(recv) if recv is not None and recv.lvl != FRESH else Own(FRESH)
        if isinstance(r, str) and r.startswith("region:"):
            return Own(BORROWED, {r[7:]})
        out = Own(FRESH)
        for a in everything:
            out = join(out, Own(BORROWED, a.roots) if a.lvl != FRESH else a)
        return out

    # ------------------------------------------------------------------ statements
    def bind(self, t, o, env):
        if isinstance(t, ast.Name):
            env[t.id] = o
        elif isinstance(t, (ast.Tuple, ast.List)):
            for x in t.elts:
                self.bind(x.value if isinstance(x, ast.Starred) else x, elem_of(o) if o.lvl != FRESH else o, env)
        elif isinstance(t, (ast.Attribute, ast.Subscript)):
            base = self.ev(t.value, env)
            if isinstance(t, ast.Subscript):
                self.ev(t.slice, env)
            p = self.path_of(t.value)
            tgt = Own(base.lvl, base.roots, base.path or p)
            # a store into x.a / x[k] modifies x; the field-level permission is looked up on the full path
            full = self.path_of(t)
            if tgt.lvl == BORROWED and full and any(self._root_allowed(r, full) for r in tgt.roots) and all(self._root_allowed(r, full) for r in tgt.roots):
                self.record("mutation", t, "discharged")
            else:
                self.mutate(t, tgt)
            for prefix, roots in self.no_flow.items():
                if full and (full == prefix or full.startswith(prefix + "[") or full.startswith(prefix + ".")):
                    bad = sorted(set(roots) & set(o.roots)) if o.lvl != FRESH else []
                    self.record("flow", t, "refuted" if bad else "discharged",
                                f"a value that may come from {bad} is stored under {prefix}" if bad else "")
            # the container now holds the stored value
            if isinstance(t.value, ast.Name) and t.value.id in env and env[t.value.id].lvl != BORROWED:
                cur = env[t.value.id]
                fields = cur.fields
                if fields is not None:
                    fields = dict(fields, **{t.slice.value: o}) if isinstance(t, ast.Subscript) and isinstance(t.slice, ast.Constant) else None
                if o.lvl != FRESH:
                    env[t.value.id] = Own(SHALLOW, cur.roots | o.roots, None, fields)
                elif fields is not cur.fields:
                    env[t.value.id] = Own(cur.lvl, cur.roots, cur.path, fields)

    def const_test(self, test):
        if isinstance(test, ast.Name) and test.id in self.const:
            return bool(self.const[test.id])
        if isinstance(test, ast.UnaryOp) and isinstance(test.op, ast.Not):
            k = self.const_test(test.operand)
            return None if k is None else (not k)
        if isinstance(test, ast.Compare) and len(test.ops) == 1 and isinstance(test.left, ast.Name) and test.left.id in self.const \
                and isinstance(test.comparators[0], ast.Constant):
            v, c = self.const[test.left.id], test.comparators[0].value
            op = test.ops[0]
            if isinstance(op, (ast.Is, ast.Eq)):
                return v is c if isinstance(op, ast.Is) else v == c
            if isinstance(op, (ast.IsNot, ast.NotEq)):
                return v is not c if isinstance(op, ast.IsNot) else v != c
        return None

    def block(self, stmts, env):
        """returns the env after the block, or None if every path returned / raised"""
        for st in stmts:
            env = self.stmt(st, env)
            if env is None:
                return None
        return env

    @staticmethod
    def join_env(a, b):
        if a is None:
            return b
        if b is None:
            return a
        out = {}
        for k in set(a) | set(b):
            out[k] = join(a.get(k), b.get(k))
        return out

    def stmt(self, s, env):
        if isinstance(s, ast.Expr):
            self.ev(s.value, env)
            return env
        if isinstance(s, ast.Assign):
            v = self.ev(s.value, env)
            for t in s.targets:
                self.bind(t, v, env)
            return env
        if isinstance(s, ast.AnnAssign):
            if s.value is not None:
                self.bind(s.target, self.ev(s.value, env), env)
            return env
        if isinstance(s, ast.AugAssign):
            v = self.ev(s.value, env)
            if isinstance(s.target, ast.Name):
                cur = env.get(s.target.id, Own(FRESH))
                # x += y mutates x in place when x is a list / set / dict
                self.mutate(s, cur)
                env[s.target.id] = container_of([Own(SHALLOW, cur.roots) if cur.lvl != FRESH else cur, elem_of(v) if v.lvl != FRESH else v]) \
                    if cur.lvl != BORROWED else cur
            else:
                self.bind(s.target, v, env)
            return env
        if isinstance(s, ast.Delete):
            for t in s.targets:
                if isinstance(t, (ast.Subscript, ast.Attribute)):
                    self.mutate(t, self.ev(t.value, env))
            return env
        if isinstance(s, ast.Return):
            if s.value is not None:
                self.returns.append((s, self.ev(s.value, env)))
            else:
                self.returns.append((s, Own(FRESH)))
            return None
        if isinstance(s, ast.Raise):
            if s.exc is not None:
                self.ev(s.exc, env)
            return None
        if isinstance(s, ast.If):
            k = self.const_test(s.test)
            self.ev(s.test, env)
            if k is True:
                return self.block(s.body, env)
            if k is False:
                return self.block(s.orelse, env)
            a = self.block(s.body, dict(env))
            b = self.block(s.orelse, dict(env))
            return self.join_env(a, b)
        if isinstance(s, (ast.For, ast.AsyncFor)):
            it = self.ev(s.iter, env)
            cur = dict(env)
            for _ in range(4):
                e2 = dict(cur)
                self.bind(s.target, elem_of(it) if it.lvl != FRESH else it, e2)
                e2 = self.block(s.body, e2)
                new = self.join_env(cur, e2)
                if {k: v.key() for k, v in new.items()} == {k: v.key() for k, v in cur.items()}:
                    break
                cur = new
            out = self.block(s.orelse, dict(cur)) if s.orelse else cur
            return out
        if isinstance(s, ast.While):
            cur = dict(env)
            for _ in range(4):
                self.ev(s.test, cur)
                e2 = self.block(s.body, dict(cur))
                new = self.join_env(cur, e2)
                if {k: v.key() for k, v in new.items()} == {k: v.key() for k, v in cur.items()}:
                    break
                cur = new
            return cur
        if isinstance(s, ast.Try):
            a = self.block(s.body, dict(env))
            out = a
            # a handler may start from any prefix of the body: join the entry state and the end state
            start = self.join_env(dict(env), a)
            for h in s.handlers:
                e2 = dict(start)
                if h.name:
                    e2[h.name] = Own(FRESH)
                out = self.join_env(out, self.block(h.body, e2))
            if s.orelse and a is not None:
                out = self.join_env(out, self.block(s.orelse, dict(a)))
            if s.finalbody:
                out = self.block(s.finalbody, out if out is not None else dict(start))
            return out
        if isinstance(s, (ast.With, ast.AsyncWith)):
            for it in s.items:
                v = self.ev(it.context_expr, env)
                if it.optional_vars is not None:
                    self.bind(it.optional_vars, v, env)
            return self.block(s.body, env)
        if isinstance(s, (ast.Pass, ast.Break, ast.Continue, ast.Import, ast.ImportFrom, ast.Global, ast.Nonlocal, ast.Assert)):
            if isinstance(s, ast.Assert):
                self.ev(s.test, env)
            return env
        if isinstance(s, (ast.FunctionDef, ast.AsyncFunctionDef)):
            # a local helper: its body is analysed once in the closure environment (parameters are unknown values of the caller,
            # i.e. of this function: they get their own roots, which are never in `modifies` unless listed)
            e2 = dict(env)
            for p_ in s.args.posonlyargs + s.args.args + s.args.kwonlyargs:
                e2[p_.arg] = Own(BORROWED, {f"{s.name}.{p_.arg}"}, p_.arg)
            saved = self.returns
            self.returns = []
            self.block(s.body, e2)
            rets = self.returns
            self.returns = saved
            out = Own(FRESH)
            for _, o in rets:
                out = join(out, o)
            self.local_funcs[s.name] = out
            env[s.name] = Own(FRESH)
            return env
        if isinstance(s, ast.ClassDef):
            env[s.name] = Own(FRESH)
            return env
        if isinstance(s, ast.Match):
            out = None
            self.ev(s.subject, env)
            for case in s.cases:
                out = self.join_env(out, self.block(case.body, dict(env)))
            return out
        return env

    # ------------------------------------------------------------------ driver
    def run(self):
        env = {}
        a = self.fn.args
        for p in a.posonlyargs + a.args + a.kwonlyargs:
            env[p.arg] = Own(BORROWED, {p.arg}, p.arg)
            if p.arg in self.const and self.const[p.arg] is None:
                env[p.arg] = Own(FRESH)
        if a.vararg:
            env[a.vararg.arg] = Own(SHALLOW, {a.vararg.arg})
        if a.kwarg:
            env[a.kwarg.arg] = Own(SHALLOW, {a.kwarg.arg})
        self.block(self.fn.body, env)
        # result obligations
        forbidden = set(self.c.get("result_not_aliasing", []))
        if forbidden:
            for node, o in self.returns:
                bad = sorted(o.roots & forbidden) if o.lvl != FRESH else []
                self.record("result", node, "refuted" if bad else "discharged", f"the returned value may alias state owned by {bad}" if bad else "")
        # must-call obligations: required statements at the top level of the body (unconditional)
        top = []          # (text, an earlier statement may leave the function)
        leaves = False

        def flat(stmts):
            # statements that run whenever the function runs to its end: the top level, and the bodies of `with` blocks and of
            # `try` blocks (`try: model.clear() except AttributeError: pass` / `with suppress(AttributeError): model.clear()`:
            # the reset points guard optional members this way)
            for st_ in stmts:
                yield st_
                if isinstance(st_, (ast.With, ast.AsyncWith)):
                    yield from flat(st_.body)
                elif isinstance(st_, ast.Try):
                    yield from flat(st_.body)
                    yield from flat(st_.finalbody)
        for st in self.fn.body:
            for st_ in flat([st]):
                try:
                    top.append((ast.unparse(st_), leaves))
                except Exception:
                    pass
            if any(isinstance(n, (ast.Return, ast.Raise)) for n in ast.walk(st)):
                leaves = True
        for k, text in enumerate(self.c.get("must_call", [])):
            want = ast.unparse(ast.parse(text).body[0])
            name = f"{self.c['name']}/frame:must-call#{k}:{want[:60]}"
            hit = [lv for tx, lv in top if tx == want]
            ok = bool(hit) and not hit[0]
            self.obl[name] = Obligation(name, "discharged" if ok else "refuted", self.fn.lineno, want,
                                        "" if ok else ("the required statement can be skipped by an earlier return / raise" if hit else
                                                       "the required unconditional statement is not in the function body"))
        # a required statement inside a local closure: at the top level of that closure, not skippable by an earlier return / raise
        for k, (fname, text) in enumerate(self.c.get("must_call_in", [])):
            # `text` is a pattern: $0, $1, ... stand for the closure's own parameters (whatever they are called), $H for any one name
            want = text
            name = f"{self.c['name']}/frame:must-call-in#{k}:{fname}:{want[:60]}"
            defs_ = [n for n in ast.walk(self.fn) if isinstance(n, ast.FunctionDef) and n.name == fname and n is not self.fn]
            if not defs_:
                # the closure was renamed / restructured: nothing to decide here (the bounded families decide), never a violation
                self.obl[name] = Obligation(name, "undecided", self.fn.lineno, want, f"no local function `{fname}`")
                continue
            import re as _re
            ok, why = False, ""
            for d_ in defs_:
                pat = _re.escape(want).replace(_re.escape("$H"), r"[A-Za-z_]\w*")
                for i_, a_ in enumerate(d_.args.args):
                    pat = pat.replace(_re.escape(f"${i_}"), _re.escape(a_.arg))
                lv, why = False, f"the required unconditional statement is not at the top level of `{fname}`"
                for st in d_.body:
                    hit_ = [st_ for st_ in flat([st]) if _re.fullmatch(pat, ast.unparse(st_))]
                    if hit_:
                        ok, why = (not lv), ("" if not lv else "the required statement can be skipped by an earlier return / raise")
                        break
                    if any(isinstance(n, (ast.Return, ast.Raise)) for n in ast.walk(st)):
                        lv = True
                if ok:
                    break
            self.obl[name] = Obligation(name, "discharged" if ok else "refuted", self.fn.lineno, want, "" if ok else why)
        anywhere = set()
        for n in ast.walk(self.fn):
            if isinstance(n, ast.stmt):
                try:
                    anywhere.add(ast.unparse(n))
                except Exception:
                    pass
        for k, text in enumerate(self.c.get("must_contain", [])):
            want = ast.unparse(ast.parse(text).body[0])
            name = f"{self.c['name']}/frame:must-contain#{k}:{want[:60]}"
            ok = want in anywhere
            self.obl[name] = Obligation(name, "discharged" if ok else "refuted", self.fn.lineno, want,
                                        "" if ok else "the required statement is not in the function body")
        return list(self.obl.values())


def check(contract):
    """-> dict(name, target, status, obligations, source_sha, lines, detail)"""
    try:
        ex = X.extract(contract["target"])
    except LookupError as exn:
        return dict(name=contract["name"], target=contract["target"], status="undecided", detail=str(exn), obligations=[], source_sha="", lines=(0, 0),
                    seconds=0.0, cover="-")
    fc = FrameChecker(contract, ex.node, ex.module)
    try:
        obs = fc.run()
    except RecursionError as exn:        # pragma: no cover
        return dict(name=contract["name"], target=contract["target"], status="undecided", detail=f"analysis failed: {exn!r}", obligations=[],
                    source_sha=ex.sha, lines=ex.lines, seconds=0.0, cover="-")
    if not obs:
        obs = [Obligation(f"{contract['name']}/frame:no-mutation-site", "discharged", ex.lines[0],
                          "the body contains no store, in-place operator, del, mutating method call or summarised call")]
    if any(o.status == "refuted" for o in obs):
        status = "refuted"
    elif any(o.status == "undecided" for o in obs):
        status = "undecided"
    else:
        status = "ok"
    return dict(name=contract["name"], target=contract["target"], status=status, detail="", obligations=[o.as_dict() for o in obs], source_sha=ex.sha,
                lines=ex.lines, seconds=0.0, cover=f"{len(obs)} sites")


def summary_consistency(frames, summarises):
    """Callee summaries vs the callees' own frame contracts: `summarises` maps (contract name, callee key) to the contract the summary stands
    for; what the summary lets the callee mutate (receiver, positional / keyword arguments) must be allowed by that contract's `modifies`.
    Returns a list of inconsistencies (strings).  Summaries not in the map stay assumptions (listed in the evidence)."""
    by_name = {c["name"]: c for c in frames}
    problems = []
    for (cname, key), callee_name in summarises.items():
        c, callee = by_name.get(cname), by_name.get(callee_name)
        if c is None or callee is None or key not in c.get("callees", {}):
            problems.append(f"summary map entry ({cname}, {key}) -> {callee_name} does not resolve")
            continue
        try:
            ex = X.extract(callee["target"])
        except LookupError:
            continue
        a = ex.node.args
        params = [p.arg for p in a.posonlyargs + a.args + a.kwonlyargs]
        is_method = bool(params) and params[0] in ("self", "cls")
        allowed = {m.split(".")[0].split("[")[0] for m in callee.get("modifies", [])}
        for m in c["callees"][key].get("mutates", []):
            if m == "self":
                name = "self" if is_method else None
            elif isinstance(m, int):
                pos = m + (1 if is_method else 0)
                name = params[pos] if pos < len(params) else None
            else:
                name = m if m in params else None
            if name is not None and name not in allowed:
                problems.append(f"summary of `{key}` in {cname} lets it mutate `{name}`, which the contract of {callee_name} does not allow")
    return problems
