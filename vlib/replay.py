"""./vcheck replay <file>: re-evaluate one recorded counter-example / failing case against the tree in $VERIF_REPO (default /repo).

Exit 1 (and a VIOLATION line) if the case still fails, 0 if it no longer does, 3 if the record cannot be re-run."""
import importlib
import json
import os
import sys

HERE = os.path.dirname(os.path.dirname(os.path.abspath(__file__)))
sys.path.insert(0, HERE)


def main():
    path = sys.argv[1]
    rec = json.load(open(path))
    prop = rec.get("property")
    print(f"replay of {path}\n  property : {prop}\n  site     : {rec.get('site')}\n  clause   : {rec.get('clause') or rec.get('clauses')}")
    print(f"  observed : {str(rec.get('observed'))[:300]}\n  required : {str(rec.get('expected'))[:300]}")
    rr = rec.get("rerun")
    if rr and rr.get("kind") == "case":
        from rtc import runner
        mod = importlib.import_module(rr["module"])
        fn = getattr(mod, rr["function"])
        if rr["case"].get("kind") == "sequence":
            from rtc import driver
            fn = driver._SeqFn(fn)          # a group of cases run one after the other in one process
        res = runner.run_cases(fn, [rr["case"]], procs=1)[0]
        print("  re-run   :", json.dumps(res, default=str)[:600])
        if res.get("status") == "violated":
            print(f"VIOLATION property={prop} replay={path}")
            sys.exit(1)
        sys.exit(0 if res.get("status") == "ok" else 3)
    if rr and rr.get("kind") == "contract":
        from pyvc import native
        mod = importlib.import_module(rr["module"])
        c = [c for c in mod.CONTRACTS if c["name"] == rr["contract"]][0]
        fails = native.replay_model(c, getattr(mod, "CLASSES", {}), rr["model"])
        print("  re-run   :", fails[:3])
        if fails:
            print(f"VIOLATION property={prop} replay={path}")
            sys.exit(1)
        sys.exit(0)
    print("  (this record carries the verifier's output / an input of a scripted native scenario; re-run the check itself to re-evaluate it)")
    if rec.get("solver_output"):
        print("  solver   :", json.dumps(rec["solver_output"], default=str)[:800])
    sys.exit(3)


if __name__ == "__main__":
    main()
