"""Common check harness: runs contracts through pyvc, falls back to bounded native contract checking,
attributes failures to known findings, prints VIOLATION / KNOWN-FINDING lines, writes evidence.

Exit codes: 0 held / 1 VIOLATION / 2 undecided with nothing to fall back on / 3 checker error.
`unknown`, timeouts and tracebacks are never mapped to 1.
"""
import hashlib
import json
import multiprocessing as mp
import os
import sys
import time
import traceback

HERE = os.path.dirname(os.path.dirname(os.path.abspath(__file__)))
# VERIF_OUT redirects evidence and replay files (used when the checks are pointed at a scratch tree, so that runs against
# seeded changes never overwrite the evidence of /repo itself); unset for every registered command
_OUT = os.environ.get("VERIF_OUT") or HERE
EVID = os.path.join(_OUT, "evidence")
REPLAY = os.path.join(_OUT, "replay")
KNOWN = os.path.join(HERE, "known_findings.json")


def repo_root():
    return os.environ.get("VERIF_REPO", "/repo")


def _worker(args):
    contract_mod, cname = args
    import importlib
    sys.path.insert(0, HERE)
    from pyvc.verify import run_target
    mod = importlib.import_module(contract_mod)
    reg = registry_of(mod)
    c = [c for c in mod.CONTRACTS if c["name"] == cname][0]
    try:
        return run_target(c, reg, getattr(mod, "CLASSES", {})).to_json()
    except Exception as exn:   # pragma: no cover
        return dict(name=cname, status="error", detail=traceback.format_exc()[-1500:], obligations=[], assumed=[],
                    target=c.get("target"), seconds=0, cover=None, source_sha=None, lines=None, canary=None)


def registry_of(mod):
    reg = {}
    for c in mod.CONTRACTS:
        q = c["target"].split("::")[1].split("@")[0]
        if "region" in c:
            continue
        reg.setdefault(q, c)
        reg.setdefault(q.split(".")[-1], c) if "." not in q else None
    for k, v in getattr(mod, "CALLEE_CONTRACTS", {}).items():
        reg[k] = v
    return reg


def load_known():
    if not os.path.exists(KNOWN):
        return []
    with open(KNOWN) as fh:
        return json.load(fh)["findings"]


class Check:
    def __init__(self, prop, level, argv=None):
        argv = argv if argv is not None else sys.argv[1:]
        self.prop = prop
        self.tier = os.environ.get("VERIF_TIER") or (argv[0] if argv else "quick")
        if self.tier not in ("quick", "thorough"):
            self.tier = "quick"
        self.seed = int(os.environ.get("VERIF_SEED", "0") or 0)
        self.level = level
        self.t0 = time.time()
        self.functions = []          # functions under contract
        self.obligations = []        # tier A obligation dicts
        self.undecided_targets = []
        self.errors = []
        self.violations = []         # dicts(what, replay, has_input)
        self.known_hits = {}         # finding id -> description
        self.bounded = []            # dicts(name, evaluations, distinct_nontrivial, rule, samples)
        self.trusted = set()
        self.assumptions = []
        self.notes = []
        self.solver_seconds = 0.0
        self.known = [k for k in load_known() if k["property"] == prop]
        os.makedirs(EVID, exist_ok=True)
        os.makedirs(REPLAY, exist_ok=True)
        for fn in os.listdir(REPLAY):
            if fn.startswith(prop + "-"):
                os.remove(os.path.join(REPLAY, fn))
        self._seen_sites = {}
        self.suppressed = 0

    # ------------------------------------------------------------------ tier A
    def run_contracts(self, contract_mod, names=None, fallback=None, replayers=None):
        """Verify every contract of module `contract_mod` (dotted name).  `fallback[name]()` is the bounded
        native check used when the target is undecided or an obligation is not discharged; it returns a list of
        failure dicts (empty = none found) and registers its own coverage via add_bounded."""
        import importlib
        mod = importlib.import_module(contract_mod)
        todo = [c["name"] for c in mod.CONTRACTS if c.get("prop", self.prop) == self.prop or True]
        if names is not None:
            todo = [n for n in todo if n in names]
        with mp.get_context("fork").Pool(min(16, max(1, len(todo)))) as pool:
            results = pool.map(_worker, [(contract_mod, n) for n in todo], chunksize=1)
        fallback = fallback or {}
        need_fallback = {}
        for r in results:
            c = [c for c in mod.CONTRACTS if c["name"] == r["name"]][0]
            self.functions.append(dict(name=r["name"], target=r["target"], source_sha=r["source_sha"], lines=r["lines"],
                                       status=r["status"], seconds=r["seconds"], cover=r["cover"]))
            for a in r.get("assumed", []):
                self.trusted.add(f"assumed contract of {a}")
            if r["status"] == "error":
                self.errors.append(f"{r['name']}: {r['detail']}")
                continue
            if r["status"] == "undecided":
                self.undecided_targets.append(f"{r['name']}: {r['detail']}")
                need_fallback[r["name"]] = ("undecided", r["detail"], None)
                continue
            if not r["obligations"]:
                self.errors.append(f"{r['name']}: zero obligations generated")
                continue
            # vacuity: every contract clause must have produced at least one obligation
            names_ = [o["name"] for o in r["obligations"]]
            for i in range(len(c.get("ensures", []))):
                if not any(f"/post#{i}@" in n for n in names_):
                    self.errors.append(f"{r['name']}: ensures clause #{i} generated no obligation")
            for o in r["obligations"]:
                o = dict(o)
                o["target"] = r["name"]
                self.obligations.append(o)
                self.solver_seconds += o["seconds"]
                if o["status"] != "discharged":
                    need_fallback.setdefault(r["name"], (o["status"], o["name"], o))
        # decide the non-discharged ones
        for name, (why, what, ob) in need_fallback.items():
            fb = fallback.get(name) or fallback.get("*")
            failures = []
            replayed = None
            if ob is not None and ob.get("model") is not None:
                try:
                    if replayers and name in replayers:
                        replayed = replayers[name](ob["model"])
                    else:
                        from pyvc import native as _native
                        c_ = [c for c in mod.CONTRACTS if c["name"] == name][0]
                        replayed = _native.replay_model(c_, getattr(mod, "CLASSES", {}), ob["model"])
                except Exception as exn:
                    replayed = None
                    self.notes.append(f"replay of counter-model for {what} failed to run: {exn!r}")
                if replayed:
                    failures = [dict(site=what, input=ob["model"], observed=replayed, source="solver counter-model",
                                     rerun=dict(kind="contract", module=contract_mod, contract=name, model=ob["model"]))]
            if not failures and fb is not None:
                try:
                    failures = fb() or []
                except Exception:
                    self.errors.append(f"bounded fall-back for {name} crashed: {traceback.format_exc()[-800:]}")
                    continue
            if failures:
                for f in failures[:3]:
                    f.setdefault("site", what)
                    f["obligation"] = what
                    self.report_failure(f)
            elif why == "refuted":
                # proved on the unchanged tree, refuted now, nothing replays: reported, flagged as input-less
                self.report_failure(dict(site=what, obligation=what, solver_output=ob, input=None,
                                         note="solver counter-model did not replay on the real code and the bounded "
                                              "search found no failing input"), has_input=False)
            elif fb is None:
                self.errors.append(f"UNDECIDED {name} ({what}) and no bounded fall-back exists")
            else:
                self.notes.append(f"{name}: {why} ({what}) -> degraded-to-bounded, no failing input found; "
                                  f"proof claim dropped for this target in this run")
        return results

    # ------------------------------------------------------------------ frame (ownership) contracts
    def run_frames(self, prop=None, names=None):
        """Frame contracts of contracts/frames.py that carry this property: one obligation per mutation / alias / required-statement
        site of the current source, discharged by the ownership analysis (pyvc/frame.py).  refuted -> VIOLATION (no input to
        replay: `no-failing-input-found`; the bounded families of the check supply inputs where they can); undecided (a call
        without a frame summary receives a value that is not fresh) -> note, the bounded families decide."""
        from pyvc import frame
        from contracts import frames as F
        todo = [c for c in F.for_prop(prop or self.prop) if names is None or c["name"] in names]
        for msg in frame.summary_consistency(F.FRAMES, F.SUMMARISES):
            self.errors.append("frame summaries inconsistent: " + msg)
        n_ob = 0
        for c in todo:
            t1 = time.time()
            r = frame.check(c)
            self.functions.append(dict(name=r["name"], target=r["target"], source_sha=r["source_sha"], lines=r["lines"], status=r["status"],
                                       seconds=round(time.time() - t1, 4), cover=r["cover"], kind="frame contract"))
            for cal in sorted(c.get("callees", {})):
                if (c["name"], cal) in F.SUMMARISES:
                    self.trusted.add(f"frame summary of {cal} in the contract of {c['name']}: checked against the contract of {F.SUMMARISES[(c['name'], cal)]}")
                else:
                    self.trusted.add(f"assumed frame summary of {cal} (in the contract of {c['name']})")
            if r["status"] == "undecided" and not r["obligations"]:
                self.undecided_targets.append(f"{r['name']}: {r['detail']}")
                self.notes.append(f"{r['name']}: undecided ({r['detail']}) -> degraded-to-bounded")
                continue
            for o in r["obligations"]:
                o = dict(o, target=r["name"])
                n_ob += 1
                self.obligations.append(o)
                if o["status"] == "undecided":
                    self.notes.append(f"{o['name']}: undecided ({o['reason']}) -> degraded-to-bounded, not reported")
                elif o["status"] == "refuted":
                    self.report_failure(dict(site=f"{self.prop}/frame:{r['name']}", obligation=o["name"], clauses=[o["name"]],
                                             solver_output=dict(backend="ownership-typing", statement=o["goal"], line=o["lineno"], reason=o["reason"]),
                                             input=None, features=dict(frame=True, contract=r["name"]),
                                             note="frame obligation generated from the current source; the analysis yields no input — "
                                                  "the bounded families of this check report one where they reach the site"), has_input=False)
        if todo and not n_ob:
            self.errors.append("frame contracts generated zero obligations")
        self.trusted.add("ownership analysis pyvc/frame.py: dict(x) / list(x) / x.copy() copy one level, deepcopy copies all levels, mutation only "
                         "through stores, in-place operators, del and the listed mutating methods (no setattr / __dict__ / exec)")
        return n_ob

    # ------------------------------------------------------------------ tier B
    def add_bounded(self, name, evaluations, distinct_nontrivial, rule, samples):
        self.bounded.append(dict(name=name, evaluations=int(evaluations), distinct_nontrivial=int(distinct_nontrivial),
                                 rule=rule, samples=samples[:3]))

    def report_failure(self, f, has_input=True):
        """A failing case: known finding (exact trigger+signature match) or VIOLATION."""
        for k in self.known:
            if k.get("kind", "known") != "known":
                continue
            try:
                if k["site"] == f.get("site_class", f.get("site")) and eval(k["trigger"], dict(f=f, **f.get("features", {}))):
                    self.known_hits.setdefault(k["id"], k["what"])
                    return
            except Exception:
                continue
        skey = (f.get("site"), tuple(f.get("clauses", [])[:1]))
        self._seen_sites[skey] = self._seen_sites.get(skey, 0) + 1
        if (self._seen_sites[skey] > 2 or len(self.violations) >= 12) and not os.environ.get("VERIF_NODEDUPE"):
            self.suppressed += 1        # same clause of the same contract already reported twice
            return
        h = hashlib.sha256(json.dumps(f, sort_keys=True, default=str).encode()).hexdigest()[:12]
        path = os.path.join(REPLAY, f"{self.prop}-{h}.json")
        if any(v["replay"] == path for v in self.violations):
            return
        with open(path, "w") as fh:
            json.dump(dict(property=self.prop, repo=repo_root(), **f), fh, indent=1, default=str)
        self.violations.append(dict(what=f.get("site"), replay=path, has_input=has_input and f.get("input") is not None))

    # ------------------------------------------------------------------ finish
    def finish(self, explanation, assumptions=None, extra_cov=None, checker_cmd=None):
        wall = time.time() - self.t0
        ob_total = len(self.obligations)
        ob_done = sum(1 for o in self.obligations if o["status"] == "discharged")
        backends = {}
        for o in self.obligations:
            if o["status"] == "discharged":
                backends[o["backend"]] = backends.get(o["backend"], 0) + 1
        evals = sum(b["evaluations"] for b in self.bounded)
        distinct = sum(b["distinct_nontrivial"] for b in self.bounded)
        samples = []
        for b in self.bounded:
            for s in b["samples"][:2]:
                samples.append(dict(check=b["name"], case=s))
        for o in self.obligations[:3]:
            samples.append(dict(obligation=o["name"], status=o["status"], backend=o["backend"], seconds=o["seconds"]))
        cov = dict(
            obligations=ob_total, discharged=ob_done,
            checker_cmd=checker_cmd or f"./vcheck {self.prop} {self.tier}",
            trusted_base=sorted(self.trusted),
            functions_under_contract=self.functions,
            obligation_list=[dict(name=o["name"], kind=o["kind"], status=o["status"], backend=o["backend"],
                                  seconds=o["seconds"]) for o in self.obligations],
            discharged_by_backend=backends, solver_seconds=round(self.solver_seconds, 3),
            undecided_targets=self.undecided_targets,
            bounded_checks=[dict(name=b["name"], evaluations=b["evaluations"], distinct_nontrivial=b["distinct_nontrivial"],
                                 rule=b["rule"]) for b in self.bounded],
            evaluations=max(evals, ob_total), distinct_nontrivial=distinct if self.bounded else ob_done,
            rule="; ".join(f"[{b['name']}] {b['rule']}" for b in self.bounded) or
                 "obligations generated from the current source; distinct = discharged obligations",
            samples=samples or [dict(note="no cases")],
            explanation=explanation, notes=self.notes,
            known_findings_seen=sorted(self.known_hits), further_failing_cases_not_listed=self.suppressed,
            extraction_drops=__import__("pyvc.extract", fromlist=["DROPS"]).DROPS,
        )
        if extra_cov:
            cov.update(extra_cov)
        ev = dict(property_id=self.prop, tier=self.tier, seed=self.seed, level=self.level, coverage=cov,
                  assumptions=(assumptions or []) + self.assumptions, wall_s=round(wall, 2),
                  violations=len(self.violations))
        with open(os.path.join(EVID, f"{self.prop}.json"), "w") as fh:
            json.dump(ev, fh, indent=1, default=str)
        for kid, what in sorted(self.known_hits.items()):
            print(f"KNOWN-FINDING: property={self.prop} {kid}: {what}")
        for e in self.errors:
            print(f"CHECKER-ERROR {self.prop}: {e}", file=sys.stderr)
        for v in self.violations:
            tail = "" if v["has_input"] else " no-failing-input-found"
            print(f"VIOLATION property={self.prop} replay={v['replay']}{tail}")
        print(f"{self.prop} {self.tier}: obligations {ob_done}/{ob_total} discharged "
              f"({', '.join(f'{k}:{v}' for k, v in backends.items())}), bounded evaluations {evals}, "
              f"violations {len(self.violations)}, known findings {len(self.known_hits)}, "
              f"undecided targets {len(self.undecided_targets)}, wall {wall:.1f}s")
        if self.violations:
            return 1
        if self.errors:
            return 3
        return 0
